--------------------------- MODULE QueryPipeline ---------------------------
(***************************************************************************)
(* The read path behind a Results cursor (query_exec.go, query_results.go, *)
(* query_handles.go), one action per critical section:                     *)
(*                                                                         *)
(*   file stage      pulls candidates from the MetaStore iterator, prunes, *)
(*                   sends file jobs, spawns file workers on demand        *)
(*   file workers    retain the file, take a global slot, open/borrow a    *)
(*                   handle, read the block filter region, evaluate each   *)
(*                   block, hand the handle back, release the slot, then   *)
(*                   dispatch the surviving blocks and spawn block workers *)
(*   block workers   take a slot, open/borrow a handle, read the row data, *)
(*                   hand the handle back, scan and deliver batches; a     *)
(*                   delivery that would block releases the slot first     *)
(*   teardown        waits for file stage + file workers, closes the block *)
(*                   job channel, waits for the block workers, closes the  *)
(*                   pool, closes rowChan and done                         *)
(*   consumer        Next (three branches), terminate, finish              *)
(*   closers         Close through sync.Once                               *)
(*   environment     caller cancellation, store failures (fault budget)    *)
(*                                                                         *)
(* All queries share one semaphore of N slots (MaxQueryConcurrency).       *)
(* Handles are tokens counted per (query, file): opened = lent + idle +    *)
(* closed is the conservation law the pool has to maintain.                *)
(***************************************************************************)
EXTENDS Integers, Sequences, FiniteSets, TLC

CONSTANTS Qs,          \* queries
          NF, NB,      \* candidate files per query, blocks per file
          N,           \* MaxQueryConcurrency (slots, and workers of each kind per query)
          RB,          \* rowChan capacity in batches (4 in the code)
          FJB, BJB,    \* file-job / block-job channel capacities (4 / 16 in the code)
          MaxBatches,  \* a block scan delivers 0..MaxBatches batches
          MaxFaults,   \* store failures the environment may inject
          HasBloom,    \* the query has bloom/regex-guard conditions (filter pass does I/O)
          Closers,     \* processes that may call Close
          MayCancel,   \* the caller may cancel its context
          Stalled,     \* queries whose consumer never calls Next (liveness configs)
          CloseConsultsCaller  \* TRUE: Close reports the caller's cancellation (repaired code)

Files == 1..NF
Blks  == 1..NB
W     == 1..N

\* Per-query / per-file sizes. The design configurations use the uniform defaults; the trace specification
\* (QueryPipelineTrace.tla) overrides them with what a recorded run showed.
NFq(q)       == NF                \* candidates the iterator yields to query q
NBf(q, f)    == NB                \* candidate blocks of file f (after the prefilter)
BlksOf(q, f) == 1..NBf(q, f)
MaxPend      == 1                 \* rows of a batch still to hand out after the first (abstracted to 0..1 in the design configs)

VARIABLES
  cctx, ictx,          \* caller context canceled / internal context canceled
  fs, iterOpen,        \* file stage [pc, pos]; MetaStore iterator entered and not returned
  fjobs, fjClosed,     \* file job channel
  fw,                  \* file workers  [pc, f, i, surv, held, hh]
  bjobs, bjClosed,     \* block job channel
  bw,                  \* block workers [pc, f, b, held, hh, left]
  td,                  \* teardown pc
  sem,                 \* slots taken (all queries)
  refs, idle, poolClosed,    \* handle pool
  opened, closedH,     \* handle tokens per (q, f): ever opened, closed
  rowch, chClosed, done,
  errs,                \* recorded failures (count)
  finalized, err,      \* terminal state
  cons,                \* consumer [pc, pend, iterDone, callC]
  closer, once,        \* Close callers, sync.Once state
  stats,               \* per (q, f, b): number of BlockStats entries
  faults,
  \* history
  decC,                \* was the caller context canceled before the deciding call was invoked?
  decErrs,             \* recorded failures when the terminal state was decided
  promised             \* failures the engine recorded while the query was live (must be reported)

vars == << cctx, ictx, fs, iterOpen, fjobs, fjClosed, fw, bjobs, bjClosed, bw, td, sem, refs, idle, poolClosed,
           opened, closedH, rowch, chClosed, done, errs, finalized, err, cons, closer, once, stats, faults,
           decC, decErrs, promised >>

Min(a, b) == IF a < b THEN a ELSE b
MinOf(S) == CHOOSE x \in S : \A y \in S : x <= y
RECURSIVE SumF(_, _)
SumF(f, S) == IF S = {} THEN 0 ELSE LET x == CHOOSE y \in S : TRUE IN f[x] + SumF(f, S \ {x})

FW0 == [pc |-> "none", f |-> 0, i |-> 0, surv |-> {}, held |-> FALSE, hh |-> FALSE]
BW0 == [pc |-> "none", f |-> 0, b |-> 0, held |-> FALSE, hh |-> FALSE, left |-> 0]

Init ==
  /\ cctx = [q \in Qs |-> FALSE] /\ ictx = [q \in Qs |-> FALSE]
  /\ fs = [q \in Qs |-> [pc |-> "start", pos |-> 0]] /\ iterOpen = [q \in Qs |-> FALSE]
  /\ fjobs = [q \in Qs |-> << >>] /\ fjClosed = [q \in Qs |-> FALSE]
  /\ fw = [q \in Qs |-> [w \in W |-> FW0]]
  /\ bjobs = [q \in Qs |-> << >>] /\ bjClosed = [q \in Qs |-> FALSE]
  /\ bw = [q \in Qs |-> [w \in W |-> BW0]]
  /\ td = [q \in Qs |-> "waitf"]
  /\ sem = 0
  /\ refs = [q \in Qs |-> [f \in Files |-> 0]] /\ idle = [q \in Qs |-> [f \in Files |-> 0]]
  /\ poolClosed = [q \in Qs |-> FALSE]
  /\ opened = [q \in Qs |-> [f \in Files |-> 0]] /\ closedH = [q \in Qs |-> [f \in Files |-> 0]]
  /\ rowch = [q \in Qs |-> 0] /\ chClosed = [q \in Qs |-> FALSE] /\ done = [q \in Qs |-> FALSE]
  /\ errs = [q \in Qs |-> 0]
  /\ finalized = [q \in Qs |-> FALSE] /\ err = [q \in Qs |-> "unset"]
  /\ cons = [q \in Qs |-> [pc |-> "idle", pend |-> 0, iterDone |-> FALSE, callC |-> FALSE]]
  /\ closer = [q \in Qs |-> [c \in Closers |-> [pc |-> "idle", callC |-> FALSE]]]
  /\ once = [q \in Qs |-> "new"]
  /\ stats = [q \in Qs |-> [f \in Files |-> [b \in Blks |-> 0]]]
  /\ faults = 0
  /\ decC = [q \in Qs |-> FALSE] /\ decErrs = [q \in Qs |-> 0] /\ promised = [q \in Qs |-> 0]

(***************************************************************************)
(* helpers: each returns the new value of one variable                     *)
(***************************************************************************)
Joined(q) == IF errs[q] > 0 THEN "errs" ELSE "nil"

\* fail(): the error is recorded unless the query has terminated
FailErrs(q)     == IF ictx[q] THEN errs ELSE [errs EXCEPT ![q] = @ + 1]
FailPromised(q) == IF ictx[q] THEN promised ELSE [promised EXCEPT ![q] = @ + 1]

\* put: a healthy handle goes back unless nobody can ask for it any more
PutIdle(q, f)   == IF poolClosed[q] \/ refs[q][f] = 0 THEN idle ELSE [idle EXCEPT ![q][f] = @ + 1]
PutClosed(q, f) == IF poolClosed[q] \/ refs[q][f] = 0 THEN [closedH EXCEPT ![q][f] = @ + 1] ELSE closedH

\* release: the last reference closes the file's idle handles
RelRefs(q, f)   == [refs EXCEPT ![q][f] = @ - 1]
RelIdle(q, f)   == IF refs[q][f] = 1 THEN [idle EXCEPT ![q][f] = 0] ELSE idle
RelClosed(q, f) == IF refs[q][f] = 1 THEN [closedH EXCEPT ![q][f] = @ + idle[q][f]] ELSE closedH

StatAdd(q, f, B) == [stats EXCEPT ![q][f] = [b \in Blks |-> IF b \in B THEN @[b] + 1 ELSE @[b]]]

Finalize(q, e, c) ==
  IF finalized[q]
    THEN UNCHANGED << finalized, err, decC, decErrs >>
    ELSE /\ finalized' = [finalized EXCEPT ![q] = TRUE] /\ err' = [err EXCEPT ![q] = e]
         /\ decC' = [decC EXCEPT ![q] = c] /\ decErrs' = [decErrs EXCEPT ![q] = errs[q]]

FirstNone(workers) == IF \E w \in W : workers[w].pc = "none"
                        THEN MinOf({ w \in W : workers[w].pc = "none" }) ELSE 0

(***************************************************************************)
(* environment                                                             *)
(***************************************************************************)
CallerCancel(q) ==
  /\ MayCancel /\ ~cctx[q]
  /\ cctx' = [cctx EXCEPT ![q] = TRUE] /\ ictx' = [ictx EXCEPT ![q] = TRUE]
  /\ UNCHANGED << fs, iterOpen, fjobs, fjClosed, fw, bjobs, bjClosed, bw, td, sem, refs, idle, poolClosed, opened, closedH,
                  rowch, chClosed, done, errs, finalized, err, cons, closer, once, stats, faults, decC, decErrs, promised >>

(***************************************************************************)
(* file stage                                                              *)
(***************************************************************************)
FSExitVars(q) == /\ fs' = [fs EXCEPT ![q].pc = "exit"] /\ iterOpen' = [iterOpen EXCEPT ![q] = FALSE]
                 /\ fjClosed' = [fjClosed EXCEPT ![q] = TRUE]

FSEnter(q) ==
  /\ fs[q].pc = "start"
  /\ fs' = [fs EXCEPT ![q].pc = "pull"] /\ iterOpen' = [iterOpen EXCEPT ![q] = TRUE]
  /\ UNCHANGED << cctx, ictx, fjobs, fjClosed, fw, bjobs, bjClosed, bw, td, sem, refs, idle, poolClosed, opened, closedH,
                  rowch, chClosed, done, errs, finalized, err, cons, closer, once, stats, faults, decC, decErrs, promised >>

\* one pull from the iterator: exhausted, error, observed cancellation, pruned, or a job to send
FSPull(q) ==
  /\ fs[q].pc = "pull"
  /\ \/ /\ fs[q].pos = NFq(q) /\ FSExitVars(q) /\ UNCHANGED << errs, promised, faults >>
     \/ /\ fs[q].pos < NFq(q) /\ faults < MaxFaults          \* the iterator yields an error: recorded unconditionally
        /\ faults' = faults + 1 /\ errs' = [errs EXCEPT ![q] = @ + 1]
        /\ promised' = IF ictx[q] THEN promised ELSE [promised EXCEPT ![q] = @ + 1]
        /\ FSExitVars(q)
     \/ /\ fs[q].pos < NFq(q) /\ ictx[q] /\ FSExitVars(q) /\ UNCHANGED << errs, promised, faults >>
     \/ /\ fs[q].pos < NFq(q) /\ ~ictx[q]                \* pruned by prefilter / file-level filters
        /\ fs' = [fs EXCEPT ![q].pos = @ + 1] /\ UNCHANGED << iterOpen, fjClosed, errs, promised, faults >>
     \/ /\ fs[q].pos < NFq(q) /\ ~ictx[q]
        /\ fs' = [fs EXCEPT ![q].pc = "send"] /\ UNCHANGED << iterOpen, fjClosed, errs, promised, faults >>
  /\ UNCHANGED << cctx, ictx, fjobs, fw, bjobs, bjClosed, bw, td, sem, refs, idle, poolClosed, opened, closedH,
                  rowch, chClosed, done, finalized, err, cons, closer, once, stats, decC, decErrs >>

\* sendWithContext(fileJobs): a ready channel always takes the job; otherwise cancellation aborts
FSSend(q) ==
  /\ fs[q].pc = "send"
  /\ \/ /\ Len(fjobs[q]) < FJB
        /\ fjobs' = [fjobs EXCEPT ![q] = Append(@, fs[q].pos + 1)]
        /\ fs' = [fs EXCEPT ![q] = [pc |-> "pull", pos |-> @.pos + 1]]
        /\ LET w == FirstNone(fw[q]) IN
             fw' = IF w = 0 THEN fw ELSE [fw EXCEPT ![q][w].pc = "recv"]
        /\ UNCHANGED << iterOpen, fjClosed >>
     \/ /\ Len(fjobs[q]) >= FJB /\ ictx[q] /\ FSExitVars(q) /\ UNCHANGED << fjobs, fw >>
  /\ UNCHANGED << cctx, ictx, bjobs, bjClosed, bw, td, sem, refs, idle, poolClosed, opened, closedH,
                  rowch, chClosed, done, errs, finalized, err, cons, closer, once, stats, faults, decC, decErrs, promised >>

(***************************************************************************)
(* file workers                                                            *)
(***************************************************************************)
FWRecv(q, w) ==
  /\ fw[q][w].pc = "recv"
  /\ \/ /\ Len(fjobs[q]) > 0
        /\ LET f == Head(fjobs[q]) IN
             /\ fjobs' = [fjobs EXCEPT ![q] = Tail(@)]
             /\ refs' = IF poolClosed[q] THEN refs ELSE [refs EXCEPT ![q][f] = @ + 1]
             /\ fw' = [fw EXCEPT ![q][w] = IF HasBloom
                          THEN [FW0 EXCEPT !.pc = "acq", !.f = f, !.i = 1]
                          ELSE [FW0 EXCEPT !.pc = "rel", !.f = f, !.surv = BlksOf(q, f)]]
     \/ /\ Len(fjobs[q]) = 0 /\ fjClosed[q] /\ fw' = [fw EXCEPT ![q][w].pc = "exit"] /\ UNCHANGED << fjobs, refs >>
     \/ /\ ictx[q] /\ fw' = [fw EXCEPT ![q][w].pc = "exit"] /\ UNCHANGED << fjobs, refs >>
  /\ UNCHANGED << cctx, ictx, fs, iterOpen, fjClosed, bjobs, bjClosed, bw, td, sem, idle, poolClosed, opened, closedH,
                  rowch, chClosed, done, errs, finalized, err, cons, closer, once, stats, faults, decC, decErrs, promised >>

\* slot.acquire
FWAcq(q, w) ==
  /\ fw[q][w].pc = "acq"
  /\ \/ /\ sem < N /\ sem' = sem + 1
        /\ fw' = [fw EXCEPT ![q][w] = [@ EXCEPT !.held = TRUE, !.pc = "open"]]
     \/ /\ ictx[q] /\ fw' = [fw EXCEPT ![q][w].pc = "rel"] /\ UNCHANGED sem
  /\ UNCHANGED << cctx, ictx, fs, iterOpen, fjobs, fjClosed, bjobs, bjClosed, bw, td, refs, idle, poolClosed, opened, closedH,
                  rowch, chClosed, done, errs, finalized, err, cons, closer, once, stats, faults, decC, decErrs, promised >>

\* the post-acquire cancellation check, the read plan, then handles.acquire: borrow an idle handle or open one; an
\* open failure (or metadata that describes no readable region) makes the file unreadable; a file whose blocks
\* have no filter sections is never opened and all its blocks survive
FWOpen(q, w) ==
  LET f == fw[q][w].f IN
  /\ fw[q][w].pc = "open"
  /\ \/ /\ ictx[q] /\ fw' = [fw EXCEPT ![q][w].pc = "rel"]
        /\ UNCHANGED << idle, opened, errs, promised, stats, faults >>
     \/ /\ ~ictx[q] /\ fw' = [fw EXCEPT ![q][w] = [@ EXCEPT !.surv = BlksOf(q, f), !.pc = "rel"]]
        /\ UNCHANGED << idle, opened, errs, promised, stats, faults >>
     \/ /\ idle[q][f] > 0 /\ idle' = [idle EXCEPT ![q][f] = @ - 1]
        /\ fw' = [fw EXCEPT ![q][w] = [@ EXCEPT !.hh = TRUE, !.pc = "rd"]]
        /\ UNCHANGED << opened, errs, promised, stats, faults >>
     \/ /\ idle[q][f] = 0 /\ opened' = [opened EXCEPT ![q][f] = @ + 1]
        /\ fw' = [fw EXCEPT ![q][w] = [@ EXCEPT !.hh = TRUE, !.pc = "rd"]]
        /\ UNCHANGED << idle, errs, promised, stats, faults >>
     \/ /\ idle[q][f] = 0 /\ faults < MaxFaults /\ faults' = faults + 1
        /\ errs' = FailErrs(q) /\ promised' = FailPromised(q)
        /\ stats' = StatAdd(q, f, BlksOf(q, f))
        /\ fw' = [fw EXCEPT ![q][w].pc = "rel"]
        /\ UNCHANGED << idle, opened >>
  /\ UNCHANGED << cctx, ictx, fs, iterOpen, fjobs, fjClosed, bjobs, bjClosed, bw, td, sem, refs, poolClosed, closedH,
                  rowch, chClosed, done, finalized, err, cons, closer, once, decC, decErrs >>

\* the region read returns: ok, or a failure that discards the handle and gives every block its entry
FWReadEnd(q, w) ==
  LET f == fw[q][w].f IN
  /\ fw[q][w].pc = "rd"
  /\ \/ /\ fw' = [fw EXCEPT ![q][w].pc = "eval"] /\ UNCHANGED << errs, promised, stats, faults, closedH >>
     \/ /\ faults < MaxFaults /\ faults' = faults + 1
        /\ errs' = FailErrs(q) /\ promised' = FailPromised(q)
        /\ stats' = StatAdd(q, f, BlksOf(q, f))
        /\ closedH' = [closedH EXCEPT ![q][f] = @ + 1]
        /\ fw' = [fw EXCEPT ![q][w] = [@ EXCEPT !.hh = FALSE, !.pc = "rel"]]
  /\ UNCHANGED << cctx, ictx, fs, iterOpen, fjobs, fjClosed, bjobs, bjClosed, bw, td, sem, refs, idle, poolClosed, opened,
                  rowch, chClosed, done, finalized, err, cons, closer, once, decC, decErrs >>

\* one block of the filter pass (or the cancellation check at the top of the loop / the end of the pass)
FWEval(q, w) ==
  LET f == fw[q][w].f i == fw[q][w].i IN
  /\ fw[q][w].pc = "eval"
  /\ \/ /\ (ictx[q] \/ i > NBf(q, f))                       \* pass over: the handle goes back
        /\ idle' = PutIdle(q, f) /\ closedH' = PutClosed(q, f)
        /\ fw' = [fw EXCEPT ![q][w] = [@ EXCEPT !.hh = FALSE, !.pc = "rel"]]
        /\ UNCHANGED << errs, promised, stats, faults >>
     \/ /\ ~ictx[q] /\ i <= NBf(q, f)                       \* survives
        /\ fw' = [fw EXCEPT ![q][w] = [@ EXCEPT !.surv = @ \cup {i}, !.i = i + 1]]
        /\ UNCHANGED << idle, closedH, errs, promised, stats, faults >>
     \/ /\ ~ictx[q] /\ i <= NBf(q, f)                       \* pruned: skipped entry
        /\ stats' = StatAdd(q, f, {i})
        /\ fw' = [fw EXCEPT ![q][w].i = i + 1]
        /\ UNCHANGED << idle, closedH, errs, promised, faults >>
     \/ /\ ~ictx[q] /\ i <= NBf(q, f) /\ faults < MaxFaults \* the section does not parse: that block's problem alone
        /\ faults' = faults + 1 /\ errs' = FailErrs(q) /\ promised' = FailPromised(q)
        /\ stats' = StatAdd(q, f, {i})
        /\ fw' = [fw EXCEPT ![q][w].i = i + 1]
        /\ UNCHANGED << idle, closedH >>
     \/ /\ ~ictx[q] /\ 1 < i /\ i <= NBf(q, f) /\ faults < MaxFaults   \* a later chunk of the region cannot be read: the
        /\ faults' = faults + 1                                        \* handle is discarded, the rest of the file unread
        /\ errs' = FailErrs(q) /\ promised' = FailPromised(q)
        /\ stats' = StatAdd(q, f, { j \in BlksOf(q, f) : j >= i })
        /\ closedH' = [closedH EXCEPT ![q][f] = @ + 1]
        /\ fw' = [fw EXCEPT ![q][w] = [@ EXCEPT !.hh = FALSE, !.pc = "rel"]]
        /\ UNCHANGED idle
  /\ UNCHANGED << cctx, ictx, fs, iterOpen, fjobs, fjClosed, bjobs, bjClosed, bw, td, sem, refs, poolClosed, opened,
                  rowch, chClosed, done, finalized, err, cons, closer, once, decC, decErrs >>

FWRel(q, w) ==
  /\ fw[q][w].pc = "rel"
  /\ sem' = IF fw[q][w].held THEN sem - 1 ELSE sem
  /\ fw' = [fw EXCEPT ![q][w] = [@ EXCEPT !.held = FALSE, !.pc = "disp"]]
  /\ UNCHANGED << cctx, ictx, fs, iterOpen, fjobs, fjClosed, bjobs, bjClosed, bw, td, refs, idle, poolClosed, opened, closedH,
                  rowch, chClosed, done, errs, finalized, err, cons, closer, once, stats, faults, decC, decErrs, promised >>

\* dispatch one survivor (retain + send + spawn), or finish the file (release), or give up on cancellation
FWDisp(q, w) ==
  LET f == fw[q][w].f IN
  /\ fw[q][w].pc = "disp"
  /\ \/ /\ fw[q][w].surv # {} /\ Len(bjobs[q]) < BJB
        /\ LET b == MinOf(fw[q][w].surv) nb == FirstNone(bw[q]) IN
             /\ bjobs' = [bjobs EXCEPT ![q] = Append(@, << f, b >>)]
             /\ refs' = IF poolClosed[q] THEN refs ELSE [refs EXCEPT ![q][f] = @ + 1]
             /\ fw' = [fw EXCEPT ![q][w].surv = @ \ {b}]
             /\ bw' = IF nb = 0 THEN bw ELSE [bw EXCEPT ![q][nb].pc = "recv"]
        /\ UNCHANGED << idle, closedH >>
     \/ /\ fw[q][w].surv # {} /\ Len(bjobs[q]) >= BJB /\ ictx[q]
        /\ refs' = RelRefs(q, f) /\ idle' = RelIdle(q, f) /\ closedH' = RelClosed(q, f)
        /\ fw' = [fw EXCEPT ![q][w].pc = "exit"]
        /\ UNCHANGED << bjobs, bw >>
     \/ /\ fw[q][w].surv = {}
        /\ refs' = RelRefs(q, f) /\ idle' = RelIdle(q, f) /\ closedH' = RelClosed(q, f)
        /\ fw' = [fw EXCEPT ![q][w].pc = "recv"]
        /\ UNCHANGED << bjobs, bw >>
  /\ UNCHANGED << cctx, ictx, fs, iterOpen, fjobs, fjClosed, bjClosed, td, sem, poolClosed, opened,
                  rowch, chClosed, done, errs, finalized, err, cons, closer, once, stats, faults, decC, decErrs, promised >>

(***************************************************************************)
(* block workers                                                           *)
(***************************************************************************)
BWRecv(q, w) ==
  /\ bw[q][w].pc = "recv"
  /\ \/ /\ Len(bjobs[q]) > 0
        /\ bjobs' = [bjobs EXCEPT ![q] = Tail(@)]
        /\ bw' = [bw EXCEPT ![q][w] = [BW0 EXCEPT !.pc = "acq", !.f = Head(bjobs[q])[1], !.b = Head(bjobs[q])[2]]]
     \/ /\ Len(bjobs[q]) = 0 /\ bjClosed[q] /\ bw' = [bw EXCEPT ![q][w].pc = "exit"] /\ UNCHANGED bjobs
     \/ /\ ictx[q] /\ bw' = [bw EXCEPT ![q][w].pc = "exit"] /\ UNCHANGED bjobs
  /\ UNCHANGED << cctx, ictx, fs, iterOpen, fjobs, fjClosed, fw, bjClosed, td, sem, refs, idle, poolClosed, opened, closedH,
                  rowch, chClosed, done, errs, finalized, err, cons, closer, once, stats, faults, decC, decErrs, promised >>

\* runJob: slot.acquire; failing it abandons the job (its file reference is released) and ends the worker
BWAcq(q, w) ==
  LET f == bw[q][w].f IN
  /\ bw[q][w].pc = "acq"
  /\ \/ /\ sem < N /\ sem' = sem + 1
        /\ bw' = [bw EXCEPT ![q][w] = [@ EXCEPT !.held = TRUE, !.pc = "open"]]
        /\ UNCHANGED << refs, idle, closedH >>
     \/ /\ ictx[q]
        /\ refs' = RelRefs(q, f) /\ idle' = RelIdle(q, f) /\ closedH' = RelClosed(q, f)
        /\ bw' = [bw EXCEPT ![q][w].pc = "exit"] /\ UNCHANGED sem
  /\ UNCHANGED << cctx, ictx, fs, iterOpen, fjobs, fjClosed, fw, bjobs, bjClosed, td, poolClosed, opened,
                  rowch, chClosed, done, errs, finalized, err, cons, closer, once, stats, faults, decC, decErrs, promised >>

BWOpen(q, w) ==
  LET f == bw[q][w].f b == bw[q][w].b IN
  /\ bw[q][w].pc = "open"
  /\ \/ /\ idle[q][f] > 0 /\ idle' = [idle EXCEPT ![q][f] = @ - 1]
        /\ bw' = [bw EXCEPT ![q][w] = [@ EXCEPT !.hh = TRUE, !.pc = "rd"]]
        /\ UNCHANGED << opened, errs, promised, stats, faults >>
     \/ /\ idle[q][f] = 0 /\ opened' = [opened EXCEPT ![q][f] = @ + 1]
        /\ bw' = [bw EXCEPT ![q][w] = [@ EXCEPT !.hh = TRUE, !.pc = "rd"]]
        /\ UNCHANGED << idle, errs, promised, stats, faults >>
     \/ /\ idle[q][f] = 0 /\ faults < MaxFaults /\ faults' = faults + 1
        /\ errs' = FailErrs(q) /\ promised' = FailPromised(q)
        /\ stats' = StatAdd(q, f, {b})
        /\ bw' = [bw EXCEPT ![q][w].pc = "done"]
        /\ UNCHANGED << idle, opened >>
  /\ UNCHANGED << cctx, ictx, fs, iterOpen, fjobs, fjClosed, fw, bjobs, bjClosed, td, sem, refs, poolClosed, closedH,
                  rowch, chClosed, done, finalized, err, cons, closer, once, decC, decErrs >>

\* the row data read returns; the handle goes back before the scan (or is discarded after a failure)
BWReadEnd(q, w) ==
  LET f == bw[q][w].f b == bw[q][w].b IN
  /\ bw[q][w].pc = "rd"
  /\ \/ /\ idle' = PutIdle(q, f) /\ closedH' = PutClosed(q, f)
        /\ \E k \in 0..MaxBatches : bw' = [bw EXCEPT ![q][w] = [@ EXCEPT !.hh = FALSE, !.left = k, !.pc = "scan"]]
        /\ UNCHANGED << errs, promised, stats, faults >>
     \/ /\ faults < MaxFaults /\ faults' = faults + 1
        /\ errs' = FailErrs(q) /\ promised' = FailPromised(q)
        /\ stats' = StatAdd(q, f, {b})
        /\ closedH' = [closedH EXCEPT ![q][f] = @ + 1]
        /\ bw' = [bw EXCEPT ![q][w] = [@ EXCEPT !.hh = FALSE, !.pc = "done"]]
        /\ UNCHANGED idle
  /\ UNCHANGED << cctx, ictx, fs, iterOpen, fjobs, fjClosed, fw, bjobs, bjClosed, td, sem, refs, poolClosed, opened,
                  rowch, chClosed, done, finalized, err, cons, closer, once, decC, decErrs >>

\* the scan: deliver on the fast path, or release the slot before blocking; cancellation drops the rest
BWScan(q, w) ==
  LET f == bw[q][w].f b == bw[q][w].b IN
  /\ bw[q][w].pc = "scan"
  /\ \/ /\ bw[q][w].left = 0 /\ stats' = StatAdd(q, f, {b})
        /\ bw' = [bw EXCEPT ![q][w].pc = "done"] /\ UNCHANGED << rowch, sem, errs, promised, faults >>
     \/ /\ bw[q][w].left > 0 /\ ictx[q]
        /\ bw' = [bw EXCEPT ![q][w].left = 0] /\ UNCHANGED << rowch, sem, stats, errs, promised, faults >>
     \/ /\ bw[q][w].left > 0 /\ rowch[q] < RB /\ ~chClosed[q]
        /\ rowch' = [rowch EXCEPT ![q] = @ + 1]
        /\ bw' = [bw EXCEPT ![q][w].left = @ - 1] /\ UNCHANGED << sem, stats, errs, promised, faults >>
     \/ /\ bw[q][w].left > 0 /\ rowch[q] >= RB
        /\ sem' = sem - 1
        /\ bw' = [bw EXCEPT ![q][w] = [@ EXCEPT !.held = FALSE, !.pc = "dslow"]] /\ UNCHANGED << rowch, stats, errs, promised, faults >>
     \/ /\ faults < MaxFaults /\ faults' = faults + 1          \* a row that does not frame or decode: the scan stops, the
        /\ errs' = FailErrs(q) /\ promised' = FailPromised(q)   \* batch gathered so far is still delivered
        /\ \E k \in 0..Min(1, bw[q][w].left) : bw' = [bw EXCEPT ![q][w].left = k] /\ UNCHANGED << rowch, sem, stats >>
  /\ UNCHANGED << cctx, ictx, fs, iterOpen, fjobs, fjClosed, fw, bjobs, bjClosed, td, refs, idle, poolClosed, opened, closedH,
                  chClosed, done, finalized, err, cons, closer, once, decC, decErrs >>

BWDeliverSlow(q, w) ==
  LET f == bw[q][w].f b == bw[q][w].b IN
  /\ bw[q][w].pc = "dslow"
  /\ \/ /\ rowch[q] < RB /\ rowch' = [rowch EXCEPT ![q] = @ + 1]
        /\ bw' = [bw EXCEPT ![q][w] = [@ EXCEPT !.left = @ - 1, !.pc = "reacq"]] /\ UNCHANGED stats
     \/ /\ ictx[q] /\ stats' = StatAdd(q, f, {b})
        /\ bw' = [bw EXCEPT ![q][w].pc = "done"] /\ UNCHANGED rowch
  /\ UNCHANGED << cctx, ictx, fs, iterOpen, fjobs, fjClosed, fw, bjobs, bjClosed, td, sem, refs, idle, poolClosed, opened, closedH,
                  chClosed, done, errs, finalized, err, cons, closer, once, faults, decC, decErrs, promised >>

BWReacq(q, w) ==
  LET f == bw[q][w].f b == bw[q][w].b IN
  /\ bw[q][w].pc = "reacq"
  /\ \/ /\ sem < N /\ sem' = sem + 1
        /\ bw' = [bw EXCEPT ![q][w] = [@ EXCEPT !.held = TRUE, !.pc = "scan"]] /\ UNCHANGED stats
     \/ /\ ictx[q] /\ stats' = StatAdd(q, f, {b})
        /\ bw' = [bw EXCEPT ![q][w].pc = "done"] /\ UNCHANGED sem
  /\ UNCHANGED << cctx, ictx, fs, iterOpen, fjobs, fjClosed, fw, bjobs, bjClosed, td, refs, idle, poolClosed, opened, closedH,
                  rowch, chClosed, done, errs, finalized, err, cons, closer, once, faults, decC, decErrs, promised >>

\* runJob's deferred slot.release and handles.release
BWDone(q, w) ==
  LET f == bw[q][w].f IN
  /\ bw[q][w].pc = "done"
  /\ sem' = IF bw[q][w].held THEN sem - 1 ELSE sem
  /\ refs' = RelRefs(q, f) /\ idle' = RelIdle(q, f) /\ closedH' = RelClosed(q, f)
  /\ bw' = [bw EXCEPT ![q][w] = [@ EXCEPT !.held = FALSE, !.pc = "recv"]]
  /\ UNCHANGED << cctx, ictx, fs, iterOpen, fjobs, fjClosed, fw, bjobs, bjClosed, td, poolClosed, opened,
                  rowch, chClosed, done, errs, finalized, err, cons, closer, once, stats, faults, decC, decErrs, promised >>

(***************************************************************************)
(* teardown                                                                *)
(***************************************************************************)
TDCloseJobs(q) ==
  /\ td[q] = "waitf" /\ fs[q].pc = "exit" /\ \A w \in W : fw[q][w].pc \in {"none", "exit"}
  /\ td' = [td EXCEPT ![q] = "waitb"] /\ bjClosed' = [bjClosed EXCEPT ![q] = TRUE]
  /\ UNCHANGED << cctx, ictx, fs, iterOpen, fjobs, fjClosed, fw, bjobs, bw, sem, refs, idle, poolClosed, opened, closedH,
                  rowch, chClosed, done, errs, finalized, err, cons, closer, once, stats, faults, decC, decErrs, promised >>

TDFinish(q) ==
  /\ td[q] = "waitb" /\ \A w \in W : bw[q][w].pc \in {"none", "exit"}
  /\ td' = [td EXCEPT ![q] = "exit"]
  /\ poolClosed' = [poolClosed EXCEPT ![q] = TRUE]
  /\ closedH' = [closedH EXCEPT ![q] = [f \in Files |-> @[f] + idle[q][f]]]
  /\ idle' = [idle EXCEPT ![q] = [f \in Files |-> 0]]
  /\ chClosed' = [chClosed EXCEPT ![q] = TRUE] /\ done' = [done EXCEPT ![q] = TRUE]
  /\ UNCHANGED << cctx, ictx, fs, iterOpen, fjobs, fjClosed, fw, bjobs, bjClosed, bw, sem, refs, opened,
                  rowch, errs, finalized, err, cons, closer, once, stats, faults, decC, decErrs, promised >>

(***************************************************************************)
(* consumer: Next                                                          *)
(***************************************************************************)
Finish(q, e, c) == /\ Finalize(q, e, c) /\ ictx' = [ictx EXCEPT ![q] = TRUE]

NextCall(q) ==
  /\ q \notin Stalled /\ cons[q].pc = "idle"
  /\ \/ /\ cons[q].iterDone /\ UNCHANGED << cons, ictx >>                         \* returns false again
     \/ /\ ~cons[q].iterDone /\ ictx[q]                                          \* terminate: cancel, wait for done
        /\ cons' = [cons EXCEPT ![q] = [@ EXCEPT !.pc = "term", !.callC = cctx[q]]] /\ UNCHANGED ictx
     \/ /\ ~cons[q].iterDone /\ ~ictx[q] /\ cons[q].pend > 0                      \* returns true
        /\ cons' = [cons EXCEPT ![q].pend = @ - 1] /\ UNCHANGED ictx
     \/ /\ ~cons[q].iterDone /\ ~ictx[q] /\ cons[q].pend = 0
        /\ cons' = [cons EXCEPT ![q] = [@ EXCEPT !.pc = "wait", !.callC = cctx[q]]] /\ UNCHANGED ictx
  /\ UNCHANGED << cctx, fs, iterOpen, fjobs, fjClosed, fw, bjobs, bjClosed, bw, td, sem, refs, idle, poolClosed, opened, closedH,
                  rowch, chClosed, done, errs, finalized, err, closer, once, stats, faults, decC, decErrs, promised >>

NextWake(q) ==
  /\ cons[q].pc = "wait"
  /\ \/ /\ rowch[q] > 0 /\ rowch' = [rowch EXCEPT ![q] = @ - 1]                   \* a batch: returns true
        /\ \E p \in 0..MaxPend : cons' = [cons EXCEPT ![q] = [@ EXCEPT !.pc = "idle", !.pend = p]]
        /\ UNCHANGED << ictx, finalized, err, decC, decErrs >>
     \/ /\ rowch[q] = 0 /\ chClosed[q]                                           \* clean completion
        /\ Finish(q, Joined(q), cons[q].callC)
        /\ cons' = [cons EXCEPT ![q] = [@ EXCEPT !.pc = "idle", !.iterDone = TRUE]] /\ UNCHANGED rowch
     \/ /\ ictx[q] /\ cons' = [cons EXCEPT ![q].pc = "term"]
        /\ UNCHANGED << rowch, ictx, finalized, err, decC, decErrs >>
  /\ UNCHANGED << cctx, fs, iterOpen, fjobs, fjClosed, fw, bjobs, bjClosed, bw, td, sem, refs, idle, poolClosed, opened, closedH,
                  chClosed, done, errs, closer, once, stats, faults, promised >>

TermFinish(q) ==
  /\ cons[q].pc = "term" /\ done[q]
  /\ Finish(q, IF cctx[q] THEN "ctx" ELSE Joined(q), cons[q].callC)
  /\ cons' = [cons EXCEPT ![q] = [@ EXCEPT !.pc = "idle", !.iterDone = TRUE, !.pend = 0]]
  /\ UNCHANGED << cctx, fs, iterOpen, fjobs, fjClosed, fw, bjobs, bjClosed, bw, td, sem, refs, idle, poolClosed, opened, closedH,
                  rowch, chClosed, done, errs, closer, once, stats, faults, promised >>

(***************************************************************************)
(* Close (sync.Once: concurrent callers wait for the first to finish)      *)
(***************************************************************************)
CloseCall(q, c) ==
  /\ closer[q][c].pc = "idle"
  /\ \/ /\ once[q] = "new" /\ once' = [once EXCEPT ![q] = "running"]
        /\ ictx' = [ictx EXCEPT ![q] = TRUE]
        /\ closer' = [closer EXCEPT ![q][c] = [pc |-> "wait", callC |-> cctx[q]]]
     \/ /\ once[q] = "running" /\ closer' = [closer EXCEPT ![q][c].pc = "oncewait"] /\ UNCHANGED << once, ictx >>
     \/ /\ once[q] = "done" /\ closer' = [closer EXCEPT ![q][c].pc = "ret"] /\ UNCHANGED << once, ictx >>
  /\ UNCHANGED << cctx, fs, iterOpen, fjobs, fjClosed, fw, bjobs, bjClosed, bw, td, sem, refs, idle, poolClosed, opened, closedH,
                  rowch, chClosed, done, errs, finalized, err, cons, stats, faults, decC, decErrs, promised >>

CloseFinish(q, c) ==
  /\ closer[q][c].pc = "wait" /\ done[q]
  /\ Finalize(q, IF CloseConsultsCaller /\ cctx[q] THEN "ctx" ELSE Joined(q), closer[q][c].callC)
  /\ once' = [once EXCEPT ![q] = "done"]
  /\ closer' = [closer EXCEPT ![q][c].pc = "ret"]
  /\ UNCHANGED << cctx, ictx, fs, iterOpen, fjobs, fjClosed, fw, bjobs, bjClosed, bw, td, sem, refs, idle, poolClosed, opened, closedH,
                  rowch, chClosed, done, errs, cons, stats, faults, promised >>

CloseOnceWake(q, c) ==
  /\ closer[q][c].pc = "oncewait" /\ once[q] = "done"
  /\ closer' = [closer EXCEPT ![q][c].pc = "ret"]
  /\ UNCHANGED << cctx, ictx, fs, iterOpen, fjobs, fjClosed, fw, bjobs, bjClosed, bw, td, sem, refs, idle, poolClosed, opened, closedH,
                  rowch, chClosed, done, errs, finalized, err, cons, once, stats, faults, decC, decErrs, promised >>

Pipeline(q) ==
  \/ FSEnter(q) \/ FSPull(q) \/ FSSend(q) \/ TDCloseJobs(q) \/ TDFinish(q)
  \/ \E w \in W : FWRecv(q, w) \/ FWAcq(q, w) \/ FWOpen(q, w) \/ FWReadEnd(q, w) \/ FWEval(q, w) \/ FWRel(q, w) \/ FWDisp(q, w)
  \/ \E w \in W : BWRecv(q, w) \/ BWAcq(q, w) \/ BWOpen(q, w) \/ BWReadEnd(q, w) \/ BWScan(q, w) \/ BWDeliverSlow(q, w)
                  \/ BWReacq(q, w) \/ BWDone(q, w)

Next ==
  \E q \in Qs :
     \/ Pipeline(q) \/ CallerCancel(q) \/ NextCall(q) \/ NextWake(q) \/ TermFinish(q)
     \/ \E c \in Closers : CloseCall(q, c) \/ CloseFinish(q, c) \/ CloseOnceWake(q, c)

Spec == Init /\ [][Next]_vars

Fairness ==
  /\ \A q \in Qs : WF_vars(Pipeline(q)) /\ WF_vars(NextWake(q)) /\ WF_vars(TermFinish(q))
  /\ \A q \in Qs \ Stalled : WF_vars(NextCall(q))
  /\ \A q \in Qs : \A c \in Closers : WF_vars(CloseFinish(q, c)) /\ WF_vars(CloseOnceWake(q, c))
LiveSpec == Spec /\ Fairness

(***************************************************************************)
(* Properties                                                              *)
(***************************************************************************)
InRead == { << q, k, w >> \in Qs \X {"f", "b"} \X W :
              IF k = "f" THEN fw[q][w].pc = "rd" ELSE bw[q][w].pc = "rd" }
Holders == { << q, k, w >> \in Qs \X {"f", "b"} \X W :
              IF k = "f" THEN fw[q][w].held ELSE bw[q][w].held }
Lent(q, f) == Cardinality({ w \in W : fw[q][w].hh /\ fw[q][w].f = f }) + Cardinality({ w \in W : bw[q][w].hh /\ bw[q][w].f = f })

TypeOK ==
  /\ sem \in 0..N /\ sem = Cardinality(Holders)
  /\ \A q \in Qs : rowch[q] \in 0..RB /\ Len(fjobs[q]) <= FJB /\ Len(bjobs[q]) <= BJB
  /\ \A q \in Qs : \A f \in Files : refs[q][f] >= 0 /\ idle[q][f] >= 0

\* C22: reads only under a slot, never more than N
ReadsBounded == Cardinality(InRead) <= N /\ InRead \subseteq Holders
\* C22: nobody holds a slot while parked on the consumer
NoSlotWhileParked == \A q \in Qs : \A w \in W : bw[q][w].pc = "dslow" => ~bw[q][w].held

\* C21: handle conservation; every handle closed exactly once when the pipeline is done
HandleConservation == \A q \in Qs : \A f \in Files : opened[q][f] = Lent(q, f) + idle[q][f] + closedH[q][f]
IdleOnlyWhileReferenced == \A q \in Qs : \A f \in Files : idle[q][f] > 0 => refs[q][f] > 0 /\ ~poolClosed[q]
AllClosedAtDone == \A q \in Qs : done[q] => \A f \in Files : closedH[q][f] = opened[q][f] /\ idle[q][f] = 0 /\ Lent(q, f) = 0
IteratorReturned == \A q \in Qs : done[q] => ~iterOpen[q]
NoWorkerAlive == \A q \in Qs : done[q] =>
     /\ fs[q].pc = "exit" /\ td[q] = "exit"
     /\ \A w \in W : fw[q][w].pc \in {"none", "exit"} /\ bw[q][w].pc \in {"none", "exit"}
BudgetRestored == (\A q \in Qs : done[q]) => sem = 0
\* a Next that returned false / a Close that returned implies the pipeline is done
TerminalImpliesDone == \A q \in Qs : (cons[q].iterDone \/ \E c \in Closers : closer[q][c].pc = "ret") => done[q]

\* C20
ErrOK == \A q \in Qs : finalized[q] =>
     /\ err[q] \in {"nil", "errs", "ctx"}
     /\ decC[q] => err[q] = "ctx"                                  \* canceled before the deciding call
     /\ err[q] = "nil" => decErrs[q] = 0
     /\ (err[q] = "errs") => decErrs[q] > 0
     /\ (~cctx[q] /\ promised[q] > 0) => err[q] = "errs"           \* never canceled: every recorded failure is reported
     /\ decErrs[q] = errs[q]                                       \* nothing is recorded after the decision
     /\ (err[q] = "ctx") => cctx[q]
IterDoneImpliesFinalized == \A q \in Qs : cons[q].iterDone => finalized[q]
CloseRetImpliesFinalized == \A q \in Qs : \A c \in Closers : closer[q][c].pc = "ret" => finalized[q]
DecidedOnce == [][\A q \in Qs : finalized[q] => (finalized'[q] /\ err'[q] = err[q])]_vars
FalseIsSticky == [][\A q \in Qs : cons[q].iterDone => cons'[q].iterDone]_vars

\* C23
StatsAtMostOnce == \A q \in Qs : \A f \in Files : \A b \in Blks : stats[q][f][b] <= 1
\* a query that ran to clean completion (never canceled, never closed) accounts for every block of every file it evaluated or none
StatsWholeFiles == \A q \in Qs : (cons[q].iterDone /\ err[q] \in {"nil", "errs"} /\ ~cctx[q] /\ once[q] = "new") =>
     \A f \in Files : (\E b \in BlksOf(q, f) : stats[q][f][b] > 0) => \A b \in BlksOf(q, f) : stats[q][f][b] = 1

\* liveness
NextEventuallyFalse == \A q \in Qs \ Stalled : <>(cons[q].iterDone)
CloseReturns == \A q \in Qs : \A c \in Closers : (closer[q][c].pc \in {"wait", "oncewait"}) ~> (closer[q][c].pc = "ret")
=============================================================================
