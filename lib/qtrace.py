"""Structural trace validation of the read path: the events cmd/query records at the engine's verifQ points
(qtrace.ndjson, one line per scenario) are translated into per-process sequences of QueryPipeline.tla action
names and checked by TLC against QueryPipelineTrace.tla, which chooses the interleaving subject to what the
hook stamps prove. A rejected trace is drift between code and specification: reported, never a verdict."""
import collections
import json
import os
import random
import re
import shutil
import subprocess
from concurrent.futures import ThreadPoolExecutor

from vcommon import SPECS, TLC_JAR

INF = 10 ** 9
RB, FJB, BJB = 4, 4, 16          # queryRowBatchBuffer, queryFileJobBuffer, queryJobBuffer


class Untranslatable(Exception):
    pass


def _kind(names):
    for pre, k in (("fs.", "FS"), ("fw.", "FW"), ("bw.", "BW"), ("td.", "TD")):
        if any(n.startswith(pre) for n in names):
            return k
    return None


def translate(line):
    """-> (consts, procs) where procs is a list of lists of action records."""
    evs = [dict(g=e[0], gid=e[1], n=e[2], q=e[3], f=e[4], a=e[5], b=e[6]) for e in line["events"]]
    # stragglers of an earlier scenario (a probe query's consumer still returning): cursors the driver never bound
    bound = sorted({e["q"] for e in evs if e["n"] == "bind"})
    renum = {c: i + 1 for i, c in enumerate(bound)}
    gq = {}
    for e in evs:
        if e["q"]:
            gq.setdefault(e["gid"], set()).add(e["q"])
    keep = []
    for e in evs:
        if e["n"] == "bind":
            continue
        if e["q"]:
            if e["q"] not in renum:
                continue
            e["q"] = renum[e["q"]]
        elif not (gq.get(e["gid"], set()) & set(renum)):
            continue
        keep.append(e)
    evs = keep
    by_gid = collections.OrderedDict()
    for e in evs:
        by_gid.setdefault(e["gid"], []).append(e)
    procs = []          # (kind, q, events)
    cons = collections.OrderedDict()    # q -> events
    closers = collections.OrderedDict()  # (q, gid) -> events
    caller = collections.OrderedDict()  # q -> events
    for gid, es in by_gid.items():
        k = _kind([e["n"] for e in es])
        if k:
            # a cancellation the driver issued from inside an engine hook is still the caller's step
            for e in es:
                if e["n"] == "cancel":
                    caller.setdefault(e["q"], []).append(e)
            es = [e for e in es if e["n"] != "cancel"]
            qs = {e["q"] for e in es if e["q"]}
            if len(qs) != 1:
                raise Untranslatable("goroutine %d serves %s queries" % (gid, sorted(qs)))
            if any(e["n"].startswith(("next.", "close.", "cancel")) for e in es):
                raise Untranslatable("engine goroutine %d also takes caller steps" % gid)
            procs.append((k, qs.pop(), es))
            continue
        for e in es:
            if e["n"].startswith("next."):
                cons.setdefault(e["q"], []).append(e)
            elif e["n"].startswith("close."):
                closers.setdefault((e["q"], gid), []).append(e)
            elif e["n"] == "cancel":
                caller.setdefault(e["q"], []).append(e)
            elif e["n"].startswith("h."):
                raise Untranslatable("pool event outside an engine goroutine")
    for d in (cons, caller):
        for k in d:
            d[k].sort(key=lambda e: e["g"])
    Q = sorted({p[1] for p in procs} | set(cons) | {k[0] for k in closers} | set(caller))
    if not Q:
        raise Untranslatable("no query")
    if Q != list(range(1, len(Q) + 1)):
        raise Untranslatable("cursor numbering %s" % Q)

    # ---- files and blocks, from the file stage's events
    fidx, nfq, nbf = {}, {}, {}
    fs_of = {p[1]: p[2] for p in procs if p[0] == "FS"}
    for q in Q:
        n, ended = 0, None
        for e in fs_of.get(q, []):
            if e["n"] in ("fs.pull.job", "fs.pull.pruned"):
                n += 1
                fidx[(q, e["f"])] = n
                nbf[(q, n)] = max(1, e["a"]) if e["n"] == "fs.pull.job" else 1
            elif e["n"] in ("fs.pull.end", "fs.pull.err", "fs.pull.cancel", "fs.send.cancel"):
                ended = e["n"]
        nfq[q] = n if ended in ("fs.pull.end", "fs.send.cancel") or ended is None else n + 1
        if ended == "fs.send.cancel":
            nfq[q] = max(n, 1)
    bidx = {}   # (q, f, offset) -> block index, from the evaluation / dispatch events
    for k, q, es in procs:
        if k == "FW":
            for e in es:
                if e["n"].startswith("fw.eval.") and e["n"] not in ("fw.eval.end", "fw.eval.cancel") or e["n"] == "fw.disp":
                    bidx[(q, fidx[(q, e["f"])], e["b"])] = e["a"] + 1

    out = []     # list of (label, [records])

    cur_stamp = [0]

    def rec(a, q, lo, ub, w=0, f=0, b=0, x=0):
        return dict(a=a, q=q, w=w, f=f, b=b, x=x, lo=lo, ub=ub, k=cur_stamp[0], need=[])

    # ---- file stage
    for q, es in fs_of.items():
        rs, prev = [], 0
        for e in es:
            g, n = e["g"], e["n"]
            cur_stamp[0] = g
            f = fidx.get((q, e["f"]), 0)
            if n == "fs.enter":
                rs.append(rec("FSEnter", q, prev, None))                    # the iterator is entered after the hook
            elif n == "fs.pull.err":
                rs.append(rec("FSPullErr", q, prev, None))                  # the deferred close(fileJobs) follows the hook
            elif n == "fs.pull.cancel":
                rs.append(rec("FSPullCancel", q, prev, None))
            elif n == "fs.pull.end":
                rs.append(rec("FSPullEnd", q, prev, None))
            elif n == "fs.pull.pruned":
                rs.append(rec("FSPullPruned", q, prev, g, f=f))
            elif n == "fs.pull.job":
                rs.append(rec("FSPullJob", q, prev, g, f=f))
            elif n == "fs.sent":
                rs.append(rec("FSSent", q, prev, g, f=f, x=e["a"]))
            elif n == "fs.send.cancel":
                rs.append(rec("FSSendCancel", q, prev, None))
            else:
                raise Untranslatable("file stage event " + n)
            prev = g
        out.append(("fs%d" % q, rs))

    # ---- workers: index by the order of their first event
    def windex(kind):
        idx = {}
        for q in Q:
            ws = sorted((p[2][0]["g"], i) for i, p in enumerate(procs) if p[0] == kind and p[1] == q)
            for n, (_, i) in enumerate(ws):
                idx[i] = n + 1
        return idx

    fwi, bwi = windex("FW"), windex("BW")
    maxw = max(list(fwi.values()) + list(bwi.values()) + [1])
    max_batches = 0
    for pi, (k, q, es) in enumerate(procs):
        if k == "FW":
            w, rs, prev, i = fwi[pi], [], 0, 0
            pend_open = None      # stamp of an h.open whose outcome the next event tells
            start = 0             # stamp before the current group of pool events
            group = False
            cur_f = 0
            over = None           # (i, lo) of a pass that ended and awaits its h.put
            opened_at = None      # stamp of the h.open whose first read has not been seen yet
            while i < len(es):
                e = es[i]
                g, n = e["g"], e["n"]
                cur_stamp[0] = g
                f = fidx.get((q, e["f"]), cur_f) if e["f"] else cur_f
                if n in ("h.retain", "h.release"):
                    if not group:
                        group, start = True, prev
                    prev = g
                    i += 1
                    continue
                lo = start if group else prev
                group = False
                if n == "h.open":
                    # the open itself follows this hook; its outcome is what the next step of the worker says. The step
                    # keeps its place in the worker's program order (an open taken before the slot must not be moved behind it)
                    nxt = next((x for x in es[i + 1:] if x["n"] not in ("h.retain", "h.release")), None)
                    if nxt is not None and nxt["n"] == "fw.open.fail":
                        pend_open = g
                    else:
                        rs.append(rec("FWOpenNew", q, g, nxt["g"] if nxt else None, w=w, f=f))
                        opened_at = g
                elif n == "h.borrow":
                    rs.append(rec("FWBorrow", q, lo, g, w=w, f=f))
                    rs.append(rec("FWReadOk", q, lo, None, w=w, f=f))
                elif n == "h.put":
                    if over is None:
                        raise Untranslatable("file worker put without an ended pass")
                    rs.append(rec("FWEvalOver", q, over[1], g, w=w, f=f, b=over[0], x=e["a"]))
                    over = None
                elif n == "fw.recv":
                    cur_f = f
                    rs.append(rec("FWRecv", q, lo, g, w=w, f=f, x=e["a"]))
                elif n == "fw.recv.closed":
                    rs.append(rec("FWRecvClosed", q, lo, None, w=w))
                elif n == "fw.recv.cancel":
                    rs.append(rec("FWRecvCancel", q, lo, None, w=w))
                elif n == "fw.acq":
                    rs.append(rec("FWAcq" if e["a"] else "FWAcqFail", q, lo, g, w=w, f=f))
                elif n == "fw.postacq.cancel":
                    rs.append(rec("FWPostCancel", q, lo, g, w=w, f=f))
                elif n == "fw.nosections":
                    rs.append(rec("FWNoSections", q, lo, g, w=w, f=f))
                elif n in ("fw.plan.err", "fw.open.fail"):
                    lo2 = pend_open if pend_open is not None else lo
                    pend_open = None
                    rs.append(rec("FWOpenFail", q, lo2, g, w=w, f=f))
                elif n.startswith("fw.eval."):
                    if opened_at is not None:
                        if not (n == "fw.eval.readfail" and e["a"] == 0):
                            rs.append(rec("FWReadOk", q, opened_at, g, w=w, f=f))
                        opened_at = None
                    b = e["a"] + 1
                    if n == "fw.eval.survived":
                        rs.append(rec("FWEvalSurv", q, lo, g, w=w, f=f, b=b))
                    elif n == "fw.eval.pruned":
                        rs.append(rec("FWEvalPruned", q, lo, g, w=w, f=f, b=b))
                    elif n == "fw.eval.parsefail":
                        rs.append(rec("FWEvalParseFail", q, lo, g, w=w, f=f, b=b))
                    elif n == "fw.eval.readfail":
                        rs.append(rec("FWReadFail" if e["a"] == 0 else "FWEvalReadFail", q, lo, g, w=w, f=f, b=b))
                    elif n in ("fw.eval.end", "fw.eval.cancel"):
                        over = (b, lo)
                    else:
                        raise Untranslatable(n)
                elif n == "fw.rel":
                    rs.append(rec("FWRel", q, lo, g, w=w, f=f, x=e["a"]))
                elif n == "fw.disp":
                    rs.append(rec("FWDisp", q, lo, g, w=w, f=f, b=e["a"] + 1))
                elif n == "fw.file.done":
                    rs.append(rec("FWFileDone", q, lo, g, w=w, f=f))
                elif n == "fw.file.abandoned":
                    rs.append(rec("FWFileAbandoned", q, lo, None, w=w, f=f))
                else:
                    raise Untranslatable("file worker event " + n)
                prev = g
                i += 1
            # a borrowed handle's FWReadOk takes the stamp of the event that follows it
            out.append(("fw%d.%d" % (q, w), rs))
        elif k == "BW":
            w, rs, prev = bwi[pi], [], 0
            cur = None   # current job: dict(f, b, ended, deliveries, readok index)
            pend_open = None
            put = None
            for j, e in enumerate(es):
                g, n = e["g"], e["n"]
                cur_stamp[0] = g
                lo = prev
                if n == "bw.recv":
                    f = fidx[(q, e["f"])]
                    b = bidx.get((q, f, e["b"]))
                    if b is None:
                        raise Untranslatable("block job for an undispatched block")
                    cur = dict(f=f, b=b, ended=False, d=0, readok=None)
                    rs.append(rec("BWRecv", q, lo, g, w=w, f=f, b=b))
                elif n == "bw.recv.closed":
                    rs.append(rec("BWRecvClosed", q, lo, None, w=w))
                elif n == "bw.recv.cancel":
                    rs.append(rec("BWRecvCancel", q, lo, None, w=w))
                elif n == "bw.acq":
                    if e["a"]:
                        rs.append(rec("BWAcq", q, lo, g, w=w, f=cur["f"]))
                    else:
                        cur["acqfail"] = lo
                elif n == "h.release":
                    if cur is None:
                        raise Untranslatable("block worker release without a job")
                    if "acqfail" in cur:
                        rs.append(rec("BWAcqFail", q, cur["acqfail"], None, w=w, f=cur["f"]))
                    else:
                        rs.append(rec("BWDone", q, lo, g, w=w, f=cur["f"]))
                    cur = None
                elif n == "h.open":
                    nxt = es[j + 1] if j + 1 < len(es) else None
                    if nxt is not None and nxt["n"] == "bw.open.fail":
                        pend_open = g
                    else:
                        rs.append(rec("BWOpenNew", q, g, nxt["g"] if nxt else None, w=w, f=cur["f"]))
                    prev = g
                    continue
                elif n == "h.borrow":
                    rs.append(rec("BWBorrow", q, lo, g, w=w, f=cur["f"]))
                elif n == "bw.open.fail":
                    rs.append(rec("BWOpenFail", q, pend_open if pend_open is not None else lo, g, w=w, f=cur["f"]))
                    pend_open = None
                    cur["ended"] = True
                elif n == "h.put":
                    put = (e["a"], lo)
                elif n == "bw.read.ok":
                    cur["readok"] = len(rs)
                    rs.append(rec("BWReadOk", q, put[1], g, w=w, f=cur["f"], b=0, x=put[0]))
                    put = None
                elif n == "bw.read.fail":
                    rs.append(rec("BWReadFail", q, lo, g, w=w, f=cur["f"]))
                    cur["ended"] = True
                elif n == "bw.deliver.fast":
                    cur["d"] += 1
                    rs.append(rec("BWDeliverFast", q, lo, g, w=w, f=cur["f"]))
                elif n == "bw.deliver.park":
                    cur["d"] += 1
                    rs.append(rec("BWPark", q, lo, g, w=w, f=cur["f"]))
                elif n == "bw.deliver.slow":
                    rs.append(rec("BWDeliverSlow", q, lo, g, w=w, f=cur["f"]))
                elif n == "bw.deliver.cancel":
                    rs.append(rec("BWDeliverCancel", q, lo, g, w=w, f=cur["f"]))
                    cur["ended"] = True
                elif n == "bw.reacq":
                    rs.append(rec("BWReacq" if e["a"] else "BWReacqFail", q, lo, g, w=w, f=cur["f"]))
                    if not e["a"]:
                        cur["ended"] = True
                elif n == "bw.scan.fail":
                    rs.append(rec("BWScanFail", q, lo, g, w=w, f=cur["f"]))
                    cur["scanfail"] = True
                elif n == "bw.stats":
                    if cur.get("readok") is not None:
                        rs[cur["readok"]]["b"] = cur["d"]
                        max_batches = max(max_batches, cur["d"])
                    if not cur["ended"]:
                        rs.append(rec("BWScanEnd", q, lo, g, w=w, f=cur["f"]))
                        cur["ended"] = True
                else:
                    raise Untranslatable("block worker event " + n)
                prev = g
            out.append(("bw%d.%d" % (q, w), rs))
        elif k == "TD":
            rs, prev = [], 0
            for e in es:
                cur_stamp[0] = e["g"]
                if e["n"] == "td.closejobs":
                    rs.append(rec("TDCloseJobs", q, prev, e["g"]))
                elif e["n"] == "td.finish":
                    rs.append(rec("TDFinish", q, prev, e["g"]))
                elif e["n"] != "h.closeall":
                    raise Untranslatable("teardown event " + e["n"])
                prev = e["g"]
            out.append(("td%d" % q, rs))

    # ---- consumer
    max_pend = 1
    for q, es in cons.items():
        rs, prev = [], 0
        for e in es:
            g, n = e["g"], e["n"]
            cur_stamp[0] = g
            if n == "next.false.again":
                rs.append(rec("NextFalseAgain", q, prev, g))
            elif n == "next.pending":
                # the rows of a batch after the first are the same step repeated: the last one stands for them (pend 1 -> 0)
                if e["a"] == 0:
                    rs.append(rec("NextPending", q, prev, g, x=0))
            elif n == "next.batch":
                rs.append(rec("NextWaitCall", q, prev, g))
                rs.append(rec("NextBatch", q, prev, g, x=min(1, e["a"])))
            elif n == "next.complete":
                rs.append(rec("NextWaitCall", q, prev, g))
                rs.append(rec("NextComplete", q, prev, g))
            elif n == "next.term":
                if e["a"] == 0:
                    rs.append(rec("NextTermCall", q, prev, g))
                else:
                    rs.append(rec("NextWaitCall", q, prev, g))
                    rs.append(rec("NextWakeTerm", q, prev, g))
            elif n == "next.term.finish":
                rs.append(rec("TermFinish", q, prev, g))
            else:
                raise Untranslatable("consumer event " + n)
            prev = g
        out.append(("cons%d" % q, rs))

    # ---- closers: every Close call is a closer of its own
    ncl = collections.Counter()
    for (q, gid), es in closers.items():
        prev, call = 0, []
        for e in es:
            call.append(e)
            if e["n"] != "close.ret":
                continue
            ncl[q] += 1
            c = ncl[q]
            rs, p = [], prev
            cur_stamp[0] = call[0]["g"]
            names = [x["n"] for x in call]
            if names[0] == "close.first":
                rs.append(rec("CloseFirst", q, p, call[0]["g"], w=c))
                if names[1:] != ["close.finish", "close.ret"]:
                    raise Untranslatable("close call %s" % names)
                cur_stamp[0] = call[1]["g"]
                rs.append(rec("CloseFinish", q, call[0]["g"], call[1]["g"], w=c))
            elif names == ["close.ret"]:
                cur_stamp[0] = e["g"]
                rs.append(rec("CloseOtherCall", q, p, e["g"], w=c))
                rs.append(rec("CloseOtherRet", q, p, e["g"], w=c))
            else:
                raise Untranslatable("close call %s" % names)
            out.append(("close%d.%d" % (q, c), rs))
            prev, call = e["g"], []
        if call:
            # a Close that had not returned when recording stopped: its first steps still count
            if call[0]["n"] == "close.first":
                ncl[q] += 1
                cur_stamp[0] = call[0]["g"]
                rs = [rec("CloseFirst", q, prev, call[0]["g"], w=ncl[q])]
                if len(call) > 1:
                    rs.append(rec("CloseFinish", q, call[0]["g"], call[1]["g"], w=ncl[q]))
                out.append(("close%d.%d" % (q, ncl[q]), rs))
    for q, es in caller.items():
        cur_stamp[0] = es[0]["g"]
        out.append(("caller%d" % q, [rec("CallerCancel", q, 0, es[0]["g"])]))

    # ---- upper bounds of the steps whose effect follows their hook: the next stamped step of the process
    procs_out = []
    for label, rs in out:
        nxt = INF
        for r in reversed(rs):
            if r["ub"] is None:
                r["ub"] = nxt
            else:
                nxt = r["ub"]
        if rs:
            procs_out.append((label, rs))
    # the block job channel is FIFO: job A received provably before job B (A's receive stamped before the hook that
    # preceded B's receive) was dispatched before B
    recv, disp = {}, {}
    for pi, (label, rs) in enumerate(procs_out):
        for i, r in enumerate(rs):
            if r["a"] == "BWRecv":
                recv[(r["q"], r["f"], r["b"])] = r
            elif r["a"] == "FWDisp":
                disp[(r["q"], r["f"], r["b"])] = (pi + 1, i + 1, r)
    for jb, rb in recv.items():
        if jb not in disp:
            continue
        for ja, ra in recv.items():
            if ja[0] == jb[0] and ja != jb and ra["ub"] < rb["lo"] and ja in disp and disp[ja][0] != disp[jb][0]:
                disp[jb][2]["need"].append([disp[ja][0], disp[ja][1]])
    nf = max([nfq[q] for q in Q] + [1])
    nb = max(list(nbf.values()) + [1])
    if maxw > line["n"]:
        raise Untranslatable("more workers of a kind (%d) than MaxQueryConcurrency (%d)" % (maxw, line["n"]))
    consts = dict(Q=Q, NF=nf, NB=nb, N=line["n"], nfq=nfq, nbf=nbf, bloom=bool(line["bloom"]),
                  closers=max(list(ncl.values()) + [1]), max_batches=max(max_batches, 1), max_pend=max_pend)
    return consts, procs_out


def _tla_rec(r):
    return '[a |-> "%s", q |-> %d, w |-> %d, f |-> %d, b |-> %d, x |-> %d, lo |-> %d, ub |-> %d, k |-> %d]' % (
        r["a"], r["q"], r["w"], r["f"], r["b"], r["x"], r["lo"], r["ub"], r["k"])


def write_model(dirp, consts, procs, name="MCQT", window=3):
    os.makedirs(dirp, exist_ok=True)
    with open(os.path.join(dirp, "t.json"), "w") as f:
        json.dump([rs for _, rs in procs], f)
    with open(os.path.join(dirp, name + ".tla"), "w") as f:
        f.write("---- MODULE %s ----\nEXTENDS QueryPipelineTrace\n" % name)
        f.write("NFqC(q) == CASE %s [] OTHER -> 0\n" % " [] ".join("q = %d -> %d" % (q, n) for q, n in sorted(consts["nfq"].items())))
        cases = " [] ".join("q = %d /\\ f = %d -> %d" % (q, fi, n) for (q, fi), n in sorted(consts["nbf"].items()))
        f.write("NBfC(q, f) == %s\n" % ("CASE " + cases + " [] OTHER -> 1" if cases else "1"))
        f.write("MaxPendC == %d\n" % consts["max_pend"])
        f.write("====\n")
    with open(os.path.join(dirp, name + ".cfg"), "w") as f:
        f.write("SPECIFICATION TSpec\nCONSTANTS\n")
        f.write("  Qs = {%s}\n  NF = %d\n  NB = %d\n  N = %d\n  RB = %d\n  FJB = %d\n  BJB = %d\n" % (
            ", ".join(map(str, consts["Q"])), consts["NF"], consts["NB"], consts["N"], RB, FJB, BJB))
        f.write("  MaxBatches = %d\n  MaxFaults = 100000\n  HasBloom = %s\n  Closers = {%s}\n" % (
            consts["max_batches"], "TRUE" if consts["bloom"] else "FALSE", ", ".join(map(str, range(1, consts["closers"] + 1)))))
        f.write("  MayCancel = TRUE\n  Stalled = {}\n  CloseConsultsCaller = TRUE\n")
        f.write("  TraceFile = \"t.json\"\n  NFq <- NFqC\n  NBf <- NBfC\n  MaxPend <- MaxPendC\n  Window = %d\n" % window)
        f.write("INVARIANT NotAccepted\nCONSTRAINT HighWater\nPOSTCONDITION ReportHW\nCHECK_DEADLOCK FALSE\n")


def _one(args):
    """First an interleaving close to the recorded order (Window 3), then - if there is none - the unrestricted search."""
    d, timeout, nprocs = args
    states, best, r = 0, None, None
    for window in [w for w in (3, 8, 16) if w < nprocs] + [nprocs + 1]:
        cfg = os.path.join(d, "MCQT.cfg")
        txt = open(cfg).read()
        open(cfg, "w").write(re.sub(r"Window = \d+", "Window = %d" % window, txt))
        shutil.rmtree(os.path.join(d, "m"), ignore_errors=True)
        r = _tlc(d, timeout)
        states += r["states"]
        r["search"] = "unrestricted" if window > nprocs else "window %d" % window
        if r["hw"] and (best is None or r["hw"][0] > best[0]):
            best = r["hw"]
        if r["accepted"] or r["errors"] or r["timeout"]:
            break
    r["states"] = states
    if not r["accepted"] and best:
        r["hw"] = best
    return r


def _tlc(d, timeout):
    for f in ("QueryPipeline.tla", "QueryPipelineTrace.tla"):
        shutil.copyfile(os.path.join(SPECS, f), os.path.join(d, f))
    cmd = ["java", "-XX:+UseParallelGC", "-Xmx2g", "-Xss64m", "-Djava.io.tmpdir=" + d, "-Dtlc2.tool.queue.IStateQueue=StateDeque", "-cp", TLC_JAR, "tlc2.TLC",
           "-metadir", os.path.join(d, "m"), "-workers", "1", "-config", "MCQT.cfg", "MCQT.tla"]
    try:
        r = subprocess.run(cmd, cwd=d, capture_output=True, text=True, timeout=timeout)
    except subprocess.TimeoutExpired:
        return {"dir": d, "accepted": False, "timeout": True, "hw": None, "errors": [], "states": 0}
    out = r.stdout
    hw = re.search(r'"HIGHWATER",\s*(\d+),\s*(\d+),\s*(<<.*?>>)', out, re.S)
    errs = [l for l in out.splitlines() if l.startswith("Error:") and "NotAccepted" not in l and "behavior up to" not in l]
    st = re.search(r"(\d+) states generated", out)
    return {"dir": d, "accepted": "Invariant NotAccepted is violated" in out, "timeout": False,
            "hw": [int(hw.group(1)), int(hw.group(2)), hw.group(3)] if hw else None, "errors": errs[:2],
            "states": int(st.group(1)) if st else 0, "tail": out[-1500:] if errs else ""}


def stuck(procs, hw):
    """The next unexplained step of every process at the furthest point reached."""
    if not hw or not hw[2].startswith("<<"):
        return []
    pos = [int(x) for x in re.findall(r"\d+", hw[2])]
    out = []
    for (label, rs), p in zip(procs, pos):
        if p <= len(rs):
            r = rs[p - 1]
            out.append("%s@%d/%d %s(f=%d b=%d x=%d)" % (label, p, len(rs), r["a"], r["f"], r["b"], r["x"]))
    return out


def validate(work, qtrace_path, sample, seed, parallel=12, timeout=240, max_steps=2500, only=None):
    """Translates and validates up to `sample` recorded scenarios (seeded choice). Returns a summary dict."""
    lines = [json.loads(l) for l in open(qtrace_path)]
    cand, skipped = [], collections.Counter()
    for ln in lines:
        if only is not None and ln["id"] not in only:
            continue
        if ln.get("void"):
            skipped["void (a hung call was cancelled behind the recorder)"] += 1
            continue
        if not ln["events"]:
            skipped["empty"] += 1
            continue
        cand.append(ln)
    rng = random.Random(seed)
    rng.shuffle(cand)
    base = os.path.join(work, "qtrace")
    jobs, meta = [], {}
    for ln in cand:
        if len(jobs) >= sample:
            break
        try:
            consts, procs = translate(ln)
        except Untranslatable as ex:
            skipped["untranslatable: %s" % ex] += 1
            continue
        steps = sum(len(rs) for _, rs in procs)
        if steps > max_steps:
            skipped["longer than %d steps" % max_steps] += 1
            continue
        d = os.path.join(base, "s%d" % ln["id"])
        write_model(d, consts, procs)
        jobs.append((d, timeout, len(procs)))
        meta[d] = (ln, procs, steps)
    with ThreadPoolExecutor(max_workers=parallel) as ex:
        results = list(ex.map(_one, jobs))
    acc, rej, errs, timeouts, steps_ok, states = 0, [], [], 0, 0, 0
    timed_out = []
    names = collections.Counter()
    for r in results:
        ln, procs, steps = meta[r["dir"]]
        states += r.get("states", 0)
        if r["accepted"]:
            acc += 1
            steps_ok += steps
            for _, rs in procs:
                for x in rs:
                    names[x["a"]] += 1
        elif r["timeout"]:
            timeouts += 1
            timed_out.append({"scenario": ln["id"], "name": ln["name"], "steps": steps})
        elif r["errors"]:
            errs.append({"scenario": ln["id"], "name": ln["name"], "errors": r["errors"], "tail": r.get("tail", "")[-600:]})
        else:
            rej.append({"scenario": ln["id"], "name": ln["name"], "reached": r["hw"][:2] if r["hw"] else None,
                        "stuck_at": stuck(procs, r["hw"])[:12]})
    sample_trace = None
    if jobs:
        ln, procs, steps = meta[jobs[0][0]]
        sample_trace = {"scenario": ln["id"], "processes": [l for l, _ in procs], "first_steps": [r["a"] for r in procs[0][1][:12]]}
    return {"recorded": len(lines), "validated": len(jobs), "accepted": acc, "rejected": rej, "errors": errs, "timeouts": timeouts, "timed_out": timed_out,
            "skipped": dict(skipped), "steps_accepted": steps_ok, "actions_exercised": dict(names), "tlc_states": states,
            "sample_trace": sample_trace}
