package h

import (
	"io"
	"os"
	"sync"
	"syscall"
)

// StdioGuard redirects file descriptors 1 and 2 into a file for the lifetime
// of a harness process (C27): whatever the engine - or anything it calls -
// writes to standard output or standard error is captured. The file is
// $VERIF_STDIO_CAP when set (the check driver sets it next to the harness's
// output directory), so that the Go runtime's own last words - a panic on an
// engine goroutine, a fatal error - survive the death of the process and can
// be reported as what they are instead of as an infrastructure failure. The
// harness itself reports through the saved descriptors after Restore.
type StdioGuard struct {
	mu     sync.Mutex
	f      *os.File
	saved1 int
	saved2 int
	keep   bool
}

func CaptureStdio() *StdioGuard {
	g := &StdioGuard{}
	var err error
	if p := os.Getenv("VERIF_STDIO_CAP"); p != "" {
		g.f, err = os.OpenFile(p, os.O_CREATE|os.O_RDWR|os.O_TRUNC|os.O_APPEND, 0o644)
		g.keep = true
	} else {
		g.f, err = os.CreateTemp("", "verif-stdio-*.cap")
		if err == nil {
			os.Remove(g.f.Name()) // stays readable through the descriptor, leaves nothing behind
		}
	}
	Must(err, "stdio capture file")
	g.saved1, err = syscall.Dup(1)
	Must(err, "dup 1")
	g.saved2, err = syscall.Dup(2)
	Must(err, "dup 2")
	ErrOut = os.NewFile(uintptr(g.saved2), "saved-stderr")
	Must(syscall.Dup2(int(g.f.Fd()), 1), "dup2 1")
	Must(syscall.Dup2(int(g.f.Fd()), 2), "dup2 2")
	return g
}

func (g *StdioGuard) Len() int {
	g.mu.Lock()
	defer g.mu.Unlock()
	st, err := g.f.Stat()
	if err != nil {
		return 0
	}
	return int(st.Size())
}

func (g *StdioGuard) Since(off int) string {
	g.mu.Lock()
	defer g.mu.Unlock()
	buf := make([]byte, 2000)
	n, err := g.f.ReadAt(buf, int64(off))
	if err != nil && err != io.EOF {
		return ""
	}
	return string(buf[:n])
}

// Restore puts the original descriptors back (so the harness can print its
// own summary) and stops capturing.
func (g *StdioGuard) Restore() {
	syscall.Dup2(g.saved1, 1)
	syscall.Dup2(g.saved2, 2)
	if !g.keep {
		os.Remove(g.f.Name())
	}
}
