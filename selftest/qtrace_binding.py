#!/usr/bin/env python3
"""Binding demonstration for QueryPipelineTrace.tla (run by hand): recorded runs of the real read path are accepted; the
same runs with one hook's events removed, one step dropped, one argument changed, or one outcome flipped are rejected.
usage: qtrace_binding.py <qtrace.ndjson>   (as written by .build/query -out DIR)"""
import copy, json, os, sys, tempfile
sys.path.insert(0, os.path.join(os.path.dirname(os.path.dirname(os.path.abspath(__file__))), "lib"))
import qtrace

lines = [json.loads(l) for l in open(sys.argv[1])]
work = tempfile.mkdtemp(prefix="qbind-")


def pick(pred):
    for ln in lines:
        if ln.get("void") or not ln["events"] or len(ln["events"]) > 400:
            continue
        names = [e[2] for e in ln["events"]]
        if pred(ln, names):
            return ln
    raise SystemExit("no recorded scenario fits")


def run(name, ln):
    try:
        consts, procs = qtrace.translate(ln)
    except qtrace.Untranslatable as ex:
        print("%-58s untranslatable (%s)" % (name, ex))
        return False
    d = os.path.join(work, name.replace(" ", "_").replace("/", "_"))
    qtrace.write_model(d, consts, procs)
    r = qtrace._one((d, 200, len(procs)))
    print("%-58s accepted=%s explained=%s" % (name, r["accepted"], (r["hw"] or [None, None])[:2]))
    return r["accepted"]


def without(ln, pred, first_only=False):
    out, done = copy.deepcopy(ln), False
    evs = []
    for e in out["events"]:
        if pred(e) and not (first_only and done):
            done = True
            continue
        evs.append(e)
    out["events"] = evs
    return out


def changed(ln, pred, fn):
    out = copy.deepcopy(ln)
    for e in out["events"]:
        if pred(e):
            fn(e)
            break
    return out


results = []
# a bloom query over several files, drained
a = pick(lambda ln, ns: ln["bloom"] and ln["kind"] == "solo" and "fw.eval.pruned" in ns and "next.complete" in ns and "bw.deliver.fast" in ns)
results.append(("ok", run("bloom query, drained: original", a)))
results.append(("bad", run("  slot acquisition hook (fw.acq) removed", without(a, lambda e: e[2] == "fw.acq"))))
results.append(("bad", run("  one block worker slot acquisition dropped", without(a, lambda e: e[2] == "bw.acq", True))))
results.append(("bad", run("  a pruned block reported as surviving", changed(a, lambda e: e[2] == "fw.eval.pruned", lambda e: e.__setitem__(2, "fw.eval.survived")))))
results.append(("bad", run("  a dispatch names another block", changed(a, lambda e: e[2] == "fw.disp", lambda e: e.__setitem__(5, e[5] + 1)))))
results.append(("bad", run("  teardown's close of the job channel removed", without(a, lambda e: e[2] == "td.closejobs"))))
results.append(("bad", run("  handle put back recorded as closed", changed(a, lambda e: e[2] == "h.put" and e[5] == 1, lambda e: e.__setitem__(5, 0)))))
results.append(("bad", run("  a block job's final release removed", without(a, lambda e: e[2] == "h.release" and e[5] == 0, True))))
# a query ended by Close while workers are parked on the consumer
b = pick(lambda ln, ns: ln["kind"] == "solo" and "bw.deliver.park" in ns and "close.first" in ns and "bw.deliver.cancel" in ns)
results.append(("ok", run("stalled consumer, Close: original", b)))
results.append(("bad", run("  parked worker keeps its slot (park hook removed)", without(b, lambda e: e[2] == "bw.deliver.park"))))
results.append(("bad", run("  Close's cancellation removed", without(b, lambda e: e[2] == "close.first"))))
results.append(("bad", run("  teardown finishes before the workers (td.finish first)", changed(b, lambda e: e[2] == "td.finish", lambda e: e.__setitem__(0, 0)))))
good = all(r for k, r in results if k == "ok")
bad = any(r for k, r in results if k == "bad")
print("binding %s" % ("demonstrated" if good and not bad else "NOT demonstrated"))
sys.exit(0 if good and not bad else 1)
