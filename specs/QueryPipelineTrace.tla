------------------------ MODULE QueryPipelineTrace ------------------------
(***************************************************************************)
(* Trace validation of the real read path against QueryPipeline.tla.        *)
(*                                                                         *)
(* cmd/query records every verifQ point of the engine (query_exec.go,       *)
(* query_results.go, query_handles.go) with the goroutine that took the     *)
(* step and a process-wide stamp taken inside the hook. lib/qtrace.py       *)
(* groups the events by goroutine into processes (file stage, file workers, *)
(* block workers, teardown, consumer, closers, caller) and translates each  *)
(* process's events, in program order, into the names below - one per       *)
(* action (branch) of QueryPipeline.tla, with the arguments the hooks       *)
(* carried (file, block, outcome, counts).                                  *)
(*                                                                         *)
(* The state behind the pipeline is lock-free (channels, a semaphore), so   *)
(* the hooks cannot sit at the linearization points: a hook only says the   *)
(* step took effect before its stamp, and after the stamp of the previous   *)
(* hook of the same goroutine. The trace specification therefore keeps one  *)
(* position per process and lets TLC choose the interleaving, subject to     *)
(* what the stamps prove: an event whose lower bound `lo` lies beyond the   *)
(* upper bound `ub` of another process's next event cannot be taken first.  *)
(* A trace is accepted when some interleaving consumes every process's      *)
(* events through the named actions - the run is then a behaviour of        *)
(* QueryPipeline.tla. A real execution always has such an interleaving (its *)
(* own), so a rejection means the code took a step the specification does   *)
(* not have.                                                               *)
(***************************************************************************)
EXTENDS QueryPipeline, Json

CONSTANTS TraceFile, \* JSON: a sequence (per process) of sequences of event records [a, q, w, f, b, x, lo, ub, k, need]
          Window    \* search heuristic: how many processes' next hooks (by stamp k) a step may overtake; the check
                    \* driver first looks for an interleaving close to the recorded order (small Window) and, when
                    \* there is none, searches without that restriction (Window = number of processes)

Tr == JsonDeserialize(TraceFile)     \* a constant-level definition: TLC evaluates it once

VARIABLE pos
tvars == << vars, pos >>

Procs == 1..Len(Tr)
Consumed == LET RECURSIVE S(_) S(p) == IF p = 0 THEN 0 ELSE (pos[p] - 1) + S(p - 1) IN S(Len(Tr))
Total    == LET RECURSIVE S(_) S(p) == IF p = 0 THEN 0 ELSE Len(Tr[p]) + S(p - 1) IN S(Len(Tr))

\* what the stamps prove about the order across processes
HBok(p, e) == \A p2 \in Procs \ {p} : IF pos[p2] > Len(Tr[p2]) THEN TRUE ELSE Tr[p2][pos[p2]].ub >= e.lo

Spawned(ws) == Cardinality({ w \in W : ws[w].pc # "none" })
PutAs(e, q, f) == IF e.x = 1 THEN idle'[q][f] = idle[q][f] + 1 /\ closedH' = closedH
                             ELSE closedH'[q][f] = closedH[q][f] + 1 /\ idle' = idle

Step(e) ==
  LET q == e.q w == e.w f == e.f b == e.b IN
  CASE e.a = "FSEnter"        -> FSEnter(q)
    [] e.a = "FSPullErr"      -> FSPull(q) /\ fs'[q].pc = "exit" /\ errs'[q] = errs[q] + 1
    [] e.a = "FSPullCancel"   -> FSPull(q) /\ fs[q].pos < NFq(q) /\ ictx[q] /\ fs'[q].pc = "exit" /\ errs' = errs
    [] e.a = "FSPullPruned"   -> FSPull(q) /\ fs'[q].pc = "pull" /\ fs'[q].pos = fs[q].pos + 1
    [] e.a = "FSPullJob"      -> FSPull(q) /\ fs'[q].pc = "send"
    [] e.a = "FSSent"         -> FSSend(q) /\ fs'[q].pc = "pull" /\ fs[q].pos + 1 = f /\ Spawned(fw'[q]) = e.x
    [] e.a = "FSSendCancel"   -> FSSend(q) /\ fs'[q].pc = "exit"
    [] e.a = "FSPullEnd"      -> FSPull(q) /\ fs[q].pos = NFq(q) /\ fs'[q].pc = "exit"
    \* file workers
    [] e.a = "FWRecv"         -> FWRecv(q, w) /\ fw'[q][w].f = f /\ fw'[q][w].pc # "exit"
    [] e.a = "FWRecvClosed"   -> FWRecv(q, w) /\ Len(fjobs[q]) = 0 /\ fjClosed[q] /\ fw'[q][w].pc = "exit"
    [] e.a = "FWRecvCancel"   -> FWRecv(q, w) /\ ictx[q] /\ fw'[q][w].pc = "exit"
    [] e.a = "FWAcq"          -> FWAcq(q, w) /\ fw'[q][w].held
    [] e.a = "FWAcqFail"      -> FWAcq(q, w) /\ ~fw'[q][w].held
    [] e.a = "FWPostCancel"   -> FWOpen(q, w) /\ ictx[q] /\ fw'[q][w].pc = "rel" /\ fw'[q][w].surv = fw[q][w].surv /\ stats' = stats
    [] e.a = "FWNoSections"   -> FWOpen(q, w) /\ ~ictx[q] /\ fw'[q][w].pc = "rel" /\ fw'[q][w].surv = BlksOf(q, f) /\ stats' = stats
    [] e.a = "FWOpenFail"     -> FWOpen(q, w) /\ fw'[q][w].pc = "rel" /\ faults' # faults
    [] e.a = "FWOpenNew"      -> FWOpen(q, w) /\ opened'[q][f] = opened[q][f] + 1
    [] e.a = "FWBorrow"       -> FWOpen(q, w) /\ idle'[q][f] = idle[q][f] - 1
    [] e.a = "FWReadOk"       -> FWReadEnd(q, w) /\ fw'[q][w].pc = "eval"
    [] e.a = "FWReadFail"     -> FWReadEnd(q, w) /\ fw'[q][w].pc = "rel"
    [] e.a = "FWEvalSurv"     -> FWEval(q, w) /\ fw[q][w].i = b /\ b \in fw'[q][w].surv
    [] e.a = "FWEvalPruned"   -> FWEval(q, w) /\ fw[q][w].i = b /\ fw'[q][w].i = b + 1 /\ b \notin fw'[q][w].surv /\ faults' = faults
    [] e.a = "FWEvalParseFail" -> FWEval(q, w) /\ fw[q][w].i = b /\ fw'[q][w].i = b + 1 /\ faults' # faults
    [] e.a = "FWEvalReadFail" -> FWEval(q, w) /\ fw[q][w].i = b /\ fw'[q][w].pc = "rel" /\ faults' # faults
    [] e.a = "FWEvalOver"     -> FWEval(q, w) /\ fw[q][w].i = b /\ fw'[q][w].pc = "rel" /\ faults' = faults /\ PutAs(e, q, f)
    [] e.a = "FWRel"          -> FWRel(q, w) /\ Cardinality(fw[q][w].surv) = e.x
    [] e.a = "FWDisp"         -> FWDisp(q, w) /\ b \in fw[q][w].surv /\ b \notin fw'[q][w].surv /\ fw'[q][w].pc = "disp"
    [] e.a = "FWFileDone"     -> FWDisp(q, w) /\ fw[q][w].surv = {} /\ fw'[q][w].pc = "recv"
    [] e.a = "FWFileAbandoned" -> FWDisp(q, w) /\ fw'[q][w].pc = "exit"
    \* block workers
    [] e.a = "BWRecv"         -> BWRecv(q, w) /\ bw'[q][w].pc = "acq" /\ bw'[q][w].f = f /\ bw'[q][w].b = b
    [] e.a = "BWRecvClosed"   -> BWRecv(q, w) /\ Len(bjobs[q]) = 0 /\ bjClosed[q] /\ bw'[q][w].pc = "exit"
    [] e.a = "BWRecvCancel"   -> BWRecv(q, w) /\ ictx[q] /\ bw'[q][w].pc = "exit"
    [] e.a = "BWAcq"          -> BWAcq(q, w) /\ bw'[q][w].held
    [] e.a = "BWAcqFail"      -> BWAcq(q, w) /\ bw'[q][w].pc = "exit"
    [] e.a = "BWOpenFail"     -> BWOpen(q, w) /\ bw'[q][w].pc = "done"
    [] e.a = "BWOpenNew"      -> BWOpen(q, w) /\ opened'[q][f] = opened[q][f] + 1
    [] e.a = "BWBorrow"       -> BWOpen(q, w) /\ idle'[q][f] = idle[q][f] - 1
    [] e.a = "BWReadOk"       -> BWReadEnd(q, w) /\ bw'[q][w].pc = "scan" /\ bw'[q][w].left = b /\ PutAs(e, q, f)
    [] e.a = "BWReadFail"     -> BWReadEnd(q, w) /\ bw'[q][w].pc = "done"
    [] e.a = "BWDeliverFast"  -> BWScan(q, w) /\ rowch'[q] = rowch[q] + 1
    [] e.a = "BWPark"         -> BWScan(q, w) /\ bw'[q][w].pc = "dslow"
    [] e.a = "BWScanFail"     -> BWScan(q, w) /\ faults' # faults
    [] e.a = "BWScanEnd"      -> BWScan(q, w) /\ bw'[q][w].pc = "done"
    [] e.a = "BWScanCut"      -> BWScan(q, w) /\ bw[q][w].left > 0 /\ bw'[q][w].left = 0 /\ faults' = faults
    [] e.a = "BWDeliverSlow"  -> BWDeliverSlow(q, w) /\ bw'[q][w].pc = "reacq"
    [] e.a = "BWDeliverCancel" -> BWDeliverSlow(q, w) /\ bw'[q][w].pc = "done"
    [] e.a = "BWReacq"        -> BWReacq(q, w) /\ bw'[q][w].pc = "scan"
    [] e.a = "BWReacqFail"    -> BWReacq(q, w) /\ bw'[q][w].pc = "done"
    [] e.a = "BWDone"         -> BWDone(q, w)
    \* teardown
    [] e.a = "TDCloseJobs"    -> TDCloseJobs(q)
    [] e.a = "TDFinish"       -> TDFinish(q)
    \* consumer
    [] e.a = "NextFalseAgain" -> NextCall(q) /\ cons[q].iterDone
    [] e.a = "NextPending"    -> NextCall(q) /\ ~cons[q].iterDone /\ cons'[q].pc = "idle" /\ cons'[q].pend = e.x /\ cons[q].pend = e.x + 1
    [] e.a = "NextWaitCall"   -> NextCall(q) /\ cons'[q].pc = "wait"
    [] e.a = "NextTermCall"   -> NextCall(q) /\ cons'[q].pc = "term"
    [] e.a = "NextBatch"      -> NextWake(q) /\ cons'[q].pc = "idle" /\ ~cons'[q].iterDone /\ cons'[q].pend = e.x
    [] e.a = "NextComplete"   -> NextWake(q) /\ cons'[q].iterDone
    [] e.a = "NextWakeTerm"   -> NextWake(q) /\ cons'[q].pc = "term"
    [] e.a = "TermFinish"     -> TermFinish(q)
    \* closers, caller
    [] e.a = "CloseFirst"     -> CloseCall(q, w) /\ once[q] = "new"
    [] e.a = "CloseFinish"    -> CloseFinish(q, w)
    [] e.a = "CloseOtherCall" -> CloseCall(q, w) /\ once[q] # "new"
    [] e.a = "CloseOtherRet"  -> \/ closer[q][w].pc = "ret" /\ UNCHANGED vars
                                 \/ CloseOnceWake(q, w)
    [] e.a = "CallerCancel"   -> CallerCancel(q)
    [] OTHER -> FALSE

Rank(p) == Cardinality({ p2 \in Procs \ {p} : pos[p2] <= Len(Tr[p2]) /\ Tr[p2][pos[p2]].k < Tr[p][pos[p]].k })
\* orders the stamps prove indirectly (lib/qtrace.py): the block job channel is first-in first-out, so a job whose
\* receive provably preceded another job's receive was also dispatched first
NeedOk(e) == \A i \in 1..Len(e.need) : pos[e.need[i][1]] > e.need[i][2]

TNext == \E p \in Procs :
           /\ pos[p] <= Len(Tr[p])
           /\ HBok(p, Tr[p][pos[p]])
           /\ NeedOk(Tr[p][pos[p]])
           /\ Rank(p) < Window
           /\ Step(Tr[p][pos[p]])
           /\ pos' = [pos EXCEPT ![p] = @ + 1]

TSpec == Init /\ pos = [p \in Procs |-> 1] /\ [][TNext]_tvars

\* violated exactly when every process's events have been explained
NotAccepted == \E p \in Procs : pos[p] <= Len(Tr[p])
\* the furthest point reached (reported when the trace is rejected) and the positions there
HighWater == IF Consumed > TLCGet(1) THEN TLCSet(1, Consumed) /\ TLCSet(2, pos) /\ PrintT(<< "HW", Consumed, pos >>) ELSE TRUE
ASSUME TLCSet(1, 0) /\ TLCSet(2, << >>)
ReportHW == PrintT(<< "HIGHWATER", TLCGet(1), Total, TLCGet(2) >>)
=============================================================================
