SPECIFICATION Spec
CONSTANTS
  Qs = {q1}
  NF = 2
  NB = 2
  N = 2
  RB = 1
  FJB = 1
  BJB = 1
  MaxBatches = 1
  MaxFaults = 1
  HasBloom = FALSE
  Closers = {c1}
  MayCancel = TRUE
  Stalled = {}
  CloseConsultsCaller = TRUE
INVARIANTS TypeOK ReadsBounded NoSlotWhileParked HandleConservation IdleOnlyWhileReferenced AllClosedAtDone IteratorReturned
  NoWorkerAlive BudgetRestored TerminalImpliesDone ErrOK IterDoneImpliesFinalized CloseRetImpliesFinalized StatsAtMostOnce StatsWholeFiles
PROPERTIES DecidedOnce FalseIsSticky
CHECK_DEADLOCK FALSE
