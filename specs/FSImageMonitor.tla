--------------------------- MODULE FSImageMonitor ---------------------------
(***************************************************************************)
(* Judges the crash and power-loss images of real histories (cmd/fs -mode  *)
(* crash): each observation is what a fresh engine over one image returns. *)
(* The predicates are FSStore.tla's recovery invariants; the merge window   *)
(* (from the rename that exposes a merge output until the removal of its    *)
(* sources is durable or Merge has returned) is the recorded known finding. *)
(***************************************************************************)
EXTENDS Integers, Sequences, FiniteSets, TLC, Json

CONSTANT ObsFile
Obs == ndJsonDeserialize(ObsFile)
NObs == Len(Obs)
VARIABLES l, viol
vars == << l, viol >>

\* "live" observations are no images: a query through the running history's own store instance after an operation returned
Live(o) == o.mode = "live"
C15_OnlyReadableFiles(o) == Live(o) \/ (o.qerr = "" /\ o.panic = "")
C15_AckedSurvive(o) == Live(o) \/ o.missing_acked = 0
C15_NothingInvented(o) == Live(o) \/ o.invented = 0
C15_NoDuplicatesOutsideWindow(o) == (~Live(o) /\ ~o.in_window) => o.dups = 0
C15_NoDuplicates(o) == Live(o) \/ o.dups = 0
\* C14 for the FileSystemDataStore as MetaStore, with directory scans of the same store landing at every filesystem boundary
\* of the flushes and merges before it: a query that finishes without an error returns every acknowledged row exactly once
C14_LiveQueryComplete(o) == (Live(o) /\ o.qerr = "" /\ o.panic = "") => (o.missing_acked = 0 /\ o.dups = 0 /\ o.invented = 0)
\* C06 (observed here because only this driver fails the store from the inside): once a batch has been answered with an
\* error its rows are not visible - not in the directory as it is, and not after a power loss
C06_AckErrAbsent(o) == o.failed_visible = 0
C27_Silent(o) == o.stdio = 0

Props(o) ==
  [ C15_OnlyReadableFiles |-> C15_OnlyReadableFiles(o), C15_AckedSurvive |-> C15_AckedSurvive(o),
    C15_NothingInvented |-> C15_NothingInvented(o), C15_NoDuplicatesOutsideWindow |-> C15_NoDuplicatesOutsideWindow(o),
    C15_NoDuplicates |-> C15_NoDuplicates(o), C14_LiveQueryComplete |-> C14_LiveQueryComplete(o), C06_AckErrAbsent |-> C06_AckErrAbsent(o), C27_Silent |-> C27_Silent(o) ]

Init == l = 1 /\ viol = {}
Next == /\ l <= NObs
        /\ LET o == Obs[l] pr == Props(o) IN
             viol' = viol \cup { [p |-> n, id |-> o.id] : n \in { x \in DOMAIN pr : ~pr[x] } }
        /\ l' = l + 1
Spec == Init /\ [][Next]_vars
Report == (l = NObs + 1) => PrintT(<<"MONITOR-REPORT", ToJson([events |-> NObs, violations |-> viol])>>)
Count(P(_)) == Cardinality({ i \in 1..NObs : P(Obs[i]) })
Stats == (l = NObs + 1) => PrintT(<<"MONITOR-STATS", ToJson([
    crash_images |-> Count(LAMBDA o : o.mode = "crash"), live_queries |-> Count(LAMBDA o : o.mode = "live"), power_images |-> Count(LAMBDA o : o.mode = "power"),
    nontrivial |-> Count(LAMBDA o : o.differs), with_acked |-> Count(LAMBDA o : o.acked > 0),
    in_window |-> Count(LAMBDA o : o.in_window), after_failed_flush |-> Count(LAMBDA o : \E i \in 1..Len(o.ops) : o.ops[i].res = "err"), after_merge |-> Count(LAMBDA o : o.after_merge),
    window_dups |-> Count(LAMBDA o : o.in_window /\ o.dups > 0) ])>>)
AllConsumed == TLCGet("stats").diameter = NObs + 1
=============================================================================
