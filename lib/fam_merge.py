"""Merge family (C12 C13 C14): MergeGroups.tla (planning algorithm transcribed,
C12 invariants, TLC over bounded populations) and MergeCommit.tla (commit
protocol with faults, second caller, concurrent query under both MetaStore
disciplines); cmd/merge runs the real Merge; MergeMonitor.tla (TLC) judges."""
import json
import os
import re
import shutil
import time

from vcommon import Infra, drive, build_harness, copy_specs, monitor_report, run, scratch_dir, tlc, tlc_errors, tlc_stats, tlc_violations

PROPS = ["C12", "C13", "C14"]
DESIGN = {
    "quick": [("MergeGroups.tla", "MergeGroups_a.cfg"), ("MergeGroups.tla", "MergeGroups_b.cfg"),
              ("MergeCommit.tla", "MergeCommit_mem.cfg"), ("MergeCommit.tla", "MergeCommit_fs.cfg")],
    "thorough": [("MergeGroups.tla", "MergeGroups_a.cfg"), ("MergeGroups.tla", "MergeGroups_b.cfg"), ("MergeGroups.tla", "MergeGroups_c.cfg"),
                 ("MergeCommit.tla", "MergeCommit_mem.cfg"), ("MergeCommit.tla", "MergeCommit_fs.cfg")],
}
# the design-level counterpart of the recorded finding KF-C14-fs-window: expected to be violated
KNOWN_DESIGN = [("MergeCommit.tla", "MergeCommit_fswindow.cfg", "QuerySnapshotSound")]


def monitor(work, obs):
    shutil.copyfile(obs, os.path.join(work, "obs.ndjson"))
    rc, out, secs = tlc(work, "MergeMonitor.tla", "MergeMonitor.cfg", workers=1, timeout=6000, heap="6g")
    errs = tlc_errors(out)
    if errs:
        raise Infra("merge monitor failed: %s\n%s" % (errs[:3], out[-2000:]))
    rep = monitor_report(out)
    m = re.search(r'<<"MONITOR-STATS", (".*")>>', out)
    return rep, (json.loads(json.loads(m.group(1))) if m else {})


def sig_of(pred, o):
    s = {"pred": pred, "kind": o["kind"]}
    if o["kind"] == "query":
        s["discipline"] = o["query"]["discipline"]
        s["merge_to"] = o["query"]["merge_to"]
    return s


def compute(tier, seed):
    t0 = time.time()
    work = scratch_dir("merge")
    try:
        copy_specs(work)
        design = {"runs": [], "states": 0, "transitions": 0, "violations": []}
        for mod, cfg in DESIGN[tier]:
            rc, out, secs = tlc(work, mod, cfg, workers=16, timeout=3000)
            d, g = tlc_stats(out)
            v = tlc_violations(out) + tlc_errors(out)
            if v or d == 0:
                design["violations"].append({"cfg": cfg, "violated": v})
            design["runs"].append({"cfg": cfg, "distinct": d, "generated": g, "secs": round(secs, 1)})
            design["states"] += d
            design["transitions"] += g
        for mod, cfg, inv in KNOWN_DESIGN:
            rc, out, secs = tlc(work, mod, cfg, workers=4, timeout=600)
            design["runs"].append({"cfg": cfg, "expected_violation": inv, "violated": tlc_violations(out)})
        mbin = build_harness("merge")
        outdir = os.path.join(work, "run")
        txt, hsecs = drive([mbin, "-out", outdir, "-seed", str(seed), "-tier", tier], work, "merge", timeout=6000)
        obs_path = os.path.join(outdir, "obs.ndjson")
        rep, stats = monitor(work, obs_path)
        obs, kinds = {}, {}
        for line in open(obs_path):
            o = json.loads(line)
            obs[o["id"]] = o
            kinds[o["kind"]] = kinds.get(o["kind"], 0) + 1
        viol = []
        drift = [v for v in rep["violations"] if v["p"].startswith("DRIFT")]
        rep["violations"] = [v for v in rep["violations"] if not v["p"].startswith("DRIFT")]
        if rep["violations"]:
            # the driver is deterministic for a given seed: re-run and require the same verdicts
            out2 = os.path.join(work, "rerun")
            run([mbin, "-out", out2, "-seed", str(seed), "-tier", tier], timeout=6000)
            rep2, _ = monitor(work, os.path.join(out2, "obs.ndjson"))
            again = set((v["id"], v["p"]) for v in rep2["violations"])
            for v in rep["violations"]:
                o = obs[v["id"]]
                viol.append({"pred": v["p"], "prop": v["p"][:3], "title": "%s %s" % (o["kind"], o.get("fault", "")),
                             "sig": sig_of(v["p"], o), "reproduced": (v["id"], v["p"]) in again, "observation": o})
        samples = [{k: obs[i][k] for k in ("kind", "limits", "fault", "ret", "second")} for i in sorted(obs)[::max(1, len(obs) // 4)]][:4]
        drift_notes = [{"trace": v["id"], "program": "merge plan, limits %s" % json.dumps(obs[v["id"]]["limits"]), "explained": None,
                        "events": len(obs[v["id"]]["before"]),
                        "first_unexplained": {"sources_combined": [[b["ptr"] for b in obs[v["id"]]["before"]]], "note": "file groups differ from the planner specification's"}}
                       for v in drift][:5]
        return {"design": design, "drift": drift_notes,
                "impl": {"obs": len(obs), "kinds": kinds, "stats": stats, "harness_secs": round(hsecs, 1)},
                "violations": viol, "samples": samples, "wall_s": round(time.time() - t0, 1)}
    finally:
        shutil.rmtree(work, ignore_errors=True)


REL = {"C12": ["plan"], "C13": ["fault", "second", "plan"], "C14": ["query"]}
LEVEL = {"C12": "model_checking", "C13": "model_checking", "C14": "model_checking"}


def evidence(pid, tier, res):
    des, impl = res["design"], res["impl"]
    if des["violations"]:
        res["design_failed"] = des["violations"]
    n = sum(impl["kinds"].get(k, 0) for k in REL[pid])
    cov = {"states": des["states"], "transitions": des["transitions"], "traces_validated_against_impl": n,
           "samples": res["samples"], "design_runs": des["runs"], "observation_kinds": impl["kinds"], "monitor_stats": impl["stats"],
           "drift_traces": res.get("drift", []),
           "summary": "%d observations of the real Merge judged, %d design states" % (n, des["states"])}
    if pid == "C13":
        cov["fault_positions_reached"] = impl["stats"].get("faults_reached", 0)
    assumptions = ["fail-stop fault model (an injected error means the call had no effect)",
                   "C12 reads 'the files merged into one output total at most MaxFileSize' as the sum of the source files' block "
                   "footprints (row data + filter sections), the quantity the planner bounds",
                   "C14 interleavings are forced at store-call boundaries (iterator start, yields, opens, reads; output Close, "
                   "Update, tombstones)"]
    return LEVEL[pid], cov, assumptions
