SPECIFICATION MSpec
CONSTANTS
  ObsFile = "obs.ndjson"
  ExportFile = "minmax.json"
  MaxVals = 1
INVARIANTS Report
POSTCONDITION AllConsumed
CHECK_DEADLOCK FALSE
