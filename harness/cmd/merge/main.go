// Command merge builds file populations on the real engine, runs Merge (plain,
// with a store failure at every call position, with a second concurrent
// Merge, and with a query paused at chosen points while the merge advances),
// and writes observations for MergeMonitor.tla.
package main

import (
	"bufio"
	"context"
	"encoding/json"
	"errors"
	"flag"
	"fmt"
	"math/rand"
	"os"
	"path/filepath"
	"sort"
	"strings"
	"sync"
	"time"

	bs "github.com/danthegoodman1/bloomsearch"
	"verifharness/internal/h"
)

type blockObs struct {
	Part  string   `json:"part"`
	Keys  []string `json:"keys"`
	Rows  []string `json:"rows"`
	NRows int      `json:"nrows"`
	USize int      `json:"usize"` // recomputed from the row bytes
	MSize int      `json:"msize"` // metadata UncompressedSize
	DSize int      `json:"dsize"` // on-disk footprint (row data + filter section)
	Srcs  []string `json:"srcs"`  // distinct source blocks ("f<i>b<j>") its rows came from
}

type fileObs struct {
	Ptr    string     `json:"ptr"`
	Size   int        `json:"size"` // sum of its blocks' footprints
	Blocks []blockObs `json:"blocks"`
}

type tombObs struct {
	Ptr         string `json:"ptr"`
	AfterCommit bool   `json:"after_commit"`
	OK          bool   `json:"ok"`
}

type queryObs struct {
	On         bool     `json:"on"`
	Discipline string   `json:"discipline"`
	Pause      string   `json:"pause"`
	MergeTo    string   `json:"merge_to"`
	Res        []string `json:"res"`
	Err        bool     `json:"err"`
	Acked      []string `json:"acked"`
	Window     bool     `json:"window"` // the query observed the store between an output's publish and its sources' removal
}

type obs struct {
	ID         int              `json:"id"`
	Kind       string           `json:"kind"` // plan | fault | second | query
	Limits     map[string]int   `json:"limits"`
	Before     []fileObs        `json:"before"`
	After      []fileObs        `json:"after"`
	Ret        string           `json:"ret"` // nil | err | cleanup | inprogress
	StatsNil   bool             `json:"stats_nil"`
	Fault      string           `json:"fault"`
	Reached    bool             `json:"reached"`
	Updates    []map[string]int `json:"updates"`
	Tombs      []tombObs        `json:"tombs"`
	RowsBefore []string         `json:"rows_before"`
	RowsAfter  []string         `json:"rows_after"`
	QErrAfter  bool             `json:"qerr_after"`
	Orphans    int              `json:"orphans"` // published, unreferenced files left in the DataStore that are not sources
	Second     string           `json:"second"`
	Query      queryObs         `json:"query"`
	Stdio      int              `json:"stdio"`
}

// ---------------------------------------------------------------------------

type ctl struct {
	mu        sync.Mutex
	active    bool
	counts    map[string]int
	fault     string // "kind#nth"
	reached   bool
	committed bool
	tombs     []tombObs
	updates   []map[string]int
	sources   map[string]bool
	hold      string // "kind#nth": block there until release
	holdCh    chan struct{}
	arrived   chan struct{}
	qhold     string
	qholdCh   chan struct{}
	qarrived  chan struct{}
	qgid      int64
	qcounts   map[string]int
}

func (c *ctl) Before(op *h.StoreOp) error {
	c.mu.Lock()
	isQuery := c.qgid != 0 && c.isQueryGoroutine(op)
	if isQuery {
		c.qcounts[op.Kind]++
		key := fmt.Sprintf("%s#%d", op.Kind, c.qcounts[op.Kind])
		if c.qhold == key && c.qholdCh != nil {
			ch, arr := c.qholdCh, c.qarrived
			c.qhold = ""
			c.mu.Unlock()
			close(arr)
			<-ch
			return nil
		}
		c.mu.Unlock()
		return nil
	}
	if !c.active {
		c.mu.Unlock()
		return nil
	}
	c.counts[op.Kind]++
	key := fmt.Sprintf("%s#%d", op.Kind, c.counts[op.Kind])
	var err error
	if c.fault == key {
		c.reached = true
		err = h.ErrInjected
	}
	var ch, arr chan struct{}
	if c.hold == key {
		ch, arr = c.holdCh, c.arrived
		c.hold = ""
	}
	c.mu.Unlock()
	if ch != nil {
		close(arr)
		<-ch
	}
	return err
}

// query goroutines are recognised by the operations only queries perform on
// this controller while a query is marked active
func (c *ctl) isQueryGoroutine(op *h.StoreOp) bool {
	return op.Aux == "q" || c.qgid == -1 && (op.Kind == "iter" || op.Kind == "yield" || op.Kind == "iterend")
}

func (c *ctl) After(op *h.StoreOp, err error) {
	c.mu.Lock()
	defer c.mu.Unlock()
	if !c.active {
		return
	}
	switch op.Kind {
	case "update":
		aux := op.Aux.([2]any)
		w, d := aux[0].([]bs.WriteOperation), aux[1].([]bs.DeleteOperation)
		c.updates = append(c.updates, map[string]int{"writes": len(w), "deletes": len(d), "ok": b2i(err == nil)})
		if err == nil && len(d) > 0 {
			c.committed = true
		}
	case "tombstone":
		c.tombs = append(c.tombs, tombObs{Ptr: op.Ptr, AfterCommit: c.committed, OK: err == nil})
	}
}

func b2i(b bool) int {
	if b {
		return 1
	}
	return 0
}

// ---------------------------------------------------------------------------

type world struct {
	rng     *rand.Rand
	dir     string
	fs      bool
	rawData bs.DataStore
	rawMeta bs.MetaStore
	data    *h.InstrData
	meta    *h.InstrMeta
	c       *ctl
	keysOn  bool
	rowSrc  map[string]string
}

func newWorld(rng *rand.Rand, scratch string, id int, fs bool) *world {
	w := &world{rng: rng, fs: fs, c: &ctl{counts: map[string]int{}, qcounts: map[string]int{}}, rowSrc: map[string]string{}}
	if fs {
		w.dir = fmt.Sprintf("%s/w%d", scratch, id)
		os.MkdirAll(w.dir, 0o755)
		st := bs.NewFileSystemDataStore(w.dir)
		w.rawData, w.rawMeta = st, st
	} else {
		w.rawData, w.rawMeta = h.NewMemData(), bs.NewMemoryMetaStore()
	}
	w.data = &h.InstrData{Inner: w.rawData, C: w.c}
	w.meta = &h.InstrMeta{Inner: w.rawMeta, C: w.c}
	return w
}

func (w *world) close() {
	if w.dir != "" {
		os.RemoveAll(w.dir)
	}
}

func baseCfg() bs.BloomSearchEngineConfig {
	cfg := bs.DefaultBloomSearchEngineConfig()
	cfg.MaxBufferedTime = time.Hour
	cfg.RowDataCompression = bs.CompressionNone
	cfg.PartitionFunc = func(row map[string]any) string { s, _ := row["p"].(string); return s }
	cfg.MinMaxIndexes = []string{"k"}
	cfg.MaxQueryConcurrency = 4
	return cfg
}

// buildFile flushes one file whose blocks have the given (partition, withKey, rows, pad).
type blockSpec struct {
	part    string
	withKey bool
	rows    int
	pad     int
}

func (w *world) buildFile(fi int, blocks []blockSpec) {
	cfg := baseCfg()
	eng, err := bs.NewBloomSearchEngine(cfg, w.rawMeta, w.rawData)
	h.Must(err, "build engine")
	eng.Start()
	var rows []map[string]any
	for bi, b := range blocks {
		for r := 0; r < b.rows; r++ {
			id := fmt.Sprintf("f%db%dr%d", fi, bi, r)
			row := map[string]any{"id": id, "p": b.part, "w": "alpha", "pad": strings.Repeat("x", b.pad)}
			if b.withKey {
				row["k"] = w.rng.Intn(100)
			}
			w.rowSrc[id] = fmt.Sprintf("f%db%d", fi, bi)
			rows = append(rows, row)
		}
	}
	done := make(chan error, 1)
	h.Must(eng.IngestRows(context.Background(), rows, done), "ingest")
	h.Must(eng.Flush(context.Background()), "flush")
	h.Must(<-done, "ack")
	h.Must(eng.Stop(context.Background()), "stop")
}

func (w *world) snapshot() []fileObs {
	var out []fileObs
	var files []bs.MaybeFile
	for f, err := range w.rawMeta.GetMaybeFilesForQuery(context.Background(), nil) {
		if err != nil {
			break
		}
		files = append(files, f)
	}
	sort.Slice(files, func(i, j int) bool { return string(files[i].PointerBytes) < string(files[j].PointerBytes) })
	for _, f := range files {
		fo := fileObs{Ptr: string(f.PointerBytes), Blocks: []blockObs{}}
		for _, blk := range f.Metadata.DataBlocks {
			bo := blockObs{Part: blk.PartitionID, Keys: []string{}, Rows: []string{}, NRows: blk.Rows, MSize: blk.UncompressedSize, DSize: blk.OnDiskSize(), Srcs: []string{}}
			for k := range blk.MinMaxIndexes {
				bo.Keys = append(bo.Keys, k)
			}
			sort.Strings(bo.Keys)
			fo.Size += blk.OnDiskSize()
			rd, err := w.rawData.OpenFile(context.Background(), f.PointerBytes)
			if err == nil {
				data, err := bs.ReadDataBlockRowData(rd, &blk)
				rd.Close()
				if err == nil {
					sc := bs.NewBlockRowScanner(data)
					srcs := map[string]bool{}
					for {
						rb, ok, err := sc.Next()
						if err != nil || !ok {
							break
						}
						bo.USize += len(rb) + 4
						var row map[string]any
						if json.Unmarshal(rb, &row) == nil {
							id, _ := row["id"].(string)
							bo.Rows = append(bo.Rows, id)
							srcs[w.rowSrc[id]] = true
						}
					}
					for s := range srcs {
						bo.Srcs = append(bo.Srcs, s)
					}
					sort.Strings(bo.Srcs)
				}
			}
			fo.Blocks = append(fo.Blocks, bo)
		}
		out = append(out, fo)
	}
	if out == nil {
		out = []fileObs{}
	}
	return out
}

func (w *world) queryAll(eng *bs.BloomSearchEngine) ([]string, bool) {
	res, err := eng.Query(context.Background(), bs.NewQuery().Field("id").Build())
	if err != nil {
		return []string{}, true
	}
	defer res.Close()
	out := []string{}
	for res.Next() {
		id, _ := res.Row()["id"].(string)
		out = append(out, id)
	}
	sort.Strings(out)
	return out, res.Err() != nil
}

func (w *world) published() map[string]bool {
	out := map[string]bool{}
	if md, ok := w.rawData.(*h.MemData); ok {
		for _, p := range md.Published() {
			out[p] = true
		}
	} else {
		ents, _ := os.ReadDir(w.dir)
		for _, e := range ents {
			if strings.HasSuffix(e.Name(), ".dat") {
				if st, err := os.Stat(filepath.Join(w.dir, e.Name())); err == nil && st.Size() > 0 {
					out[filepath.Join(w.dir, e.Name())] = true
				}
			}
		}
	}
	return out
}

func retKind(stats *bs.MergeStats, err error) (string, bool) {
	switch {
	case err == nil:
		return "nil", stats == nil
	case errors.Is(err, bs.ErrMergeInProgress):
		return "inprogress", stats == nil
	case errors.Is(err, bs.ErrPostCommitCleanup):
		return "cleanup", stats == nil
	}
	return "err", stats == nil
}

type limits struct{ mr, mb, mf, ms int }

func (l limits) m() map[string]int {
	return map[string]int{"mrg_rows": l.mr, "mrg_bytes": l.mb, "max_files": l.mf, "max_file_size": l.ms}
}

func (w *world) mergeEngine(l limits) *bs.BloomSearchEngine {
	cfg := baseCfg()
	cfg.MaxRowGroupRows, cfg.MaxRowGroupBytes, cfg.MaxFilesToMergePerOperation, cfg.MaxFileSize = l.mr, l.mb, l.mf, l.ms
	if w.rng.Intn(2) == 0 {
		cfg.RowDataCompression = bs.CompressionSnappy
	}
	eng, err := bs.NewBloomSearchEngine(cfg, w.meta, w.data)
	h.Must(err, "merge engine")
	return eng
}

func (w *world) population(nfiles int, small bool) {
	parts := []string{"pa", "pb", "pc"}
	for fi := 0; fi < nfiles; fi++ {
		nb := 1 + w.rng.Intn(3)
		used := w.rng.Perm(len(parts))[:nb]
		var blocks []blockSpec
		for _, pi := range used {
			b := blockSpec{part: parts[pi], withKey: w.rng.Intn(3) != 0, rows: 1 + w.rng.Intn(4), pad: w.rng.Intn(60)}
			if small {
				b.rows = 1 + w.rng.Intn(2)
			}
			blocks = append(blocks, b)
		}
		w.buildFile(fi, blocks)
	}
}

func main() {
	out := flag.String("out", "", "output dir")
	seed := flag.Int64("seed", 1, "seed")
	tier := flag.String("tier", "quick", "quick|thorough")
	flag.Parse()
	os.MkdirAll(*out, 0o755)
	guard := h.CaptureStdio()
	scratch := filepath.Join(*out, "scratch")
	os.MkdirAll(scratch, 0o755)
	defer os.RemoveAll(scratch)
	rng := rand.New(rand.NewSource(*seed))
	start := time.Now()
	of, err := os.Create(filepath.Join(*out, "obs.ndjson"))
	h.Must(err, "create obs")
	bw := bufio.NewWriter(of)
	id := 0
	emit := func(o *obs) {
		id++
		o.ID = id
		if o.Updates == nil {
			o.Updates = []map[string]int{}
		}
		if o.Tombs == nil {
			o.Tombs = []tombObs{}
		}
		if o.Before == nil {
			o.Before = []fileObs{}
		}
		if o.After == nil {
			o.After = []fileObs{}
		}
		if o.RowsBefore == nil {
			o.RowsBefore = []string{}
		}
		if o.RowsAfter == nil {
			o.RowsAfter = []string{}
		}
		if o.Query.Res == nil {
			o.Query.Res = []string{}
		}
		if o.Query.Acked == nil {
			o.Query.Acked = []string{}
		}
		if o.Limits == nil {
			o.Limits = limits{}.m()
		}
		line, err := json.Marshal(o)
		h.Must(err, "marshal")
		bw.Write(line)
		bw.WriteByte('\n')
	}
	nPlan, nFaultPops, nQuery := 120, 6, 98
	if *tier == "thorough" {
		nPlan, nFaultPops, nQuery = 2500, 60, 600
	}

	// ---- C12 / C11: plain merges over random populations and limits
	for i := 0; i < nPlan; i++ {
		w := newWorld(rng, scratch, id, rng.Intn(4) == 0)
		var l limits
		if i%4 == 3 {
			// stacked: many small single-block files of one partition and key set, so that one output block
			// combines four and more source blocks and either the byte or the row limit is what stops it
			nf := 5 + rng.Intn(5)
			pad := 20 + rng.Intn(80)
			withKey := rng.Intn(2) == 0
			for fi := 0; fi < nf; fi++ {
				w.buildFile(fi, []blockSpec{{part: "pa", withKey: withKey, rows: 1 + rng.Intn(2), pad: pad + rng.Intn(8)}})
			}
			per := 70 + pad // roughly one row's uncompressed bytes
			l = limits{mr: 50, mb: per*3 + rng.Intn(per*3), mf: 4 + rng.Intn(6), ms: 1 << 30}
			if rng.Intn(3) == 0 {
				l.mr, l.mb = 3+rng.Intn(4), 1<<20
			}
		} else {
			w.population(2+rng.Intn(5), false)
			l = limits{mr: 2 + rng.Intn(6), mb: 100 + rng.Intn(600), mf: 2 + rng.Intn(4), ms: 200 + rng.Intn(3000)}
			if rng.Intn(3) == 0 {
				l.ms = 1 << 30
			}
		}
		eng := w.mergeEngine(l)
		for k := 0; k < 1+rng.Intn(3); k++ {
			o := &obs{Kind: "plan", Limits: l.m(), Before: w.snapshot()}
			o.RowsBefore, _ = w.queryAll(eng)
			w.c.mu.Lock()
			w.c.active, w.c.counts, w.c.updates, w.c.tombs, w.c.committed = true, map[string]int{}, nil, nil, false
			w.c.mu.Unlock()
			before := guard.Len()
			stats, err := eng.Merge(context.Background())
			o.Stdio = guard.Len() - before
			w.c.mu.Lock()
			w.c.active = false
			o.Updates, o.Tombs = w.c.updates, w.c.tombs
			w.c.mu.Unlock()
			o.Ret, o.StatsNil = retKind(stats, err)
			o.After = w.snapshot()
			o.RowsAfter, o.QErrAfter = w.queryAll(eng)
			emit(o)
		}
		w.close()
	}

	// ---- C13: a failure at every position of every store call kind of a multi-group merge
	for p := 0; p < nFaultPops; p++ {
		fs := p%3 == 2
		mk := func() (*world, limits) {
			r2 := rand.New(rand.NewSource(*seed*7919 + int64(p)))
			w := newWorld(r2, scratch, 100000+id, fs)
			// two or three partitions, two files each => one merge group per partition
			np := 2 + p%2
			fi := 0
			for pi := 0; pi < np; pi++ {
				for k := 0; k < 2; k++ {
					blocks := []blockSpec{{part: []string{"pa", "pb", "pc"}[pi], withKey: pi%2 == 0, rows: 1 + (fi % 2), pad: 10}}
					if p%2 == 1 {
						// ... and a block of a partition no other file has: it is carried over as it is (copied), behind or in
						// front of the merged one
						solo := blockSpec{part: fmt.Sprintf("solo%d", fi), withKey: fi%2 == 0, rows: 1 + (fi % 3), pad: 25}
						if fi%2 == 0 {
							blocks = append(blocks, solo)
						} else {
							blocks = append([]blockSpec{solo}, blocks...)
						}
					}
					w.buildFile(fi, blocks)
					fi++
				}
			}
			return w, limits{mr: 100, mb: 1 << 20, mf: 10, ms: 1 << 30}
		}
		// fault-free run to learn the call counts
		w0, l := mk()
		eng0 := w0.mergeEngine(l)
		w0.c.mu.Lock()
		w0.c.active, w0.c.counts = true, map[string]int{}
		w0.c.mu.Unlock()
		eng0.Merge(context.Background())
		w0.c.mu.Lock()
		counts := w0.c.counts
		w0.c.mu.Unlock()
		w0.close()
		kinds := []string{"iter", "create", "open", "read", "write", "close", "update", "tombstone"}
		for _, k := range kinds {
			n := counts[k]
			if k == "read" && n > 12 && *tier != "thorough" {
				n = 12
			}
			if k == "write" && n > 16 && *tier != "thorough" {
				n = 16
			}
			for nth := 1; nth <= n; nth++ {
				w, l := mk()
				eng := w.mergeEngine(l)
				o := &obs{Kind: "fault", Limits: l.m(), Before: w.snapshot(), Fault: fmt.Sprintf("%s#%d", k, nth)}
				o.RowsBefore, _ = w.queryAll(eng)
				pubBefore := w.published()
				w.c.mu.Lock()
				w.c.active, w.c.counts, w.c.updates, w.c.tombs, w.c.committed, w.c.reached = true, map[string]int{}, nil, nil, false, false
				w.c.fault = o.Fault
				w.c.mu.Unlock()
				before := guard.Len()
				stats, err := eng.Merge(context.Background())
				o.Stdio = guard.Len() - before
				w.c.mu.Lock()
				w.c.active, w.c.fault = false, ""
				o.Updates, o.Tombs, o.Reached = w.c.updates, w.c.tombs, w.c.reached
				w.c.mu.Unlock()
				o.Ret, o.StatsNil = retKind(stats, err)
				o.After = w.snapshot()
				o.RowsAfter, o.QErrAfter = w.queryAll(eng)
				ref := map[string]bool{}
				for _, f := range o.After {
					ref[f.Ptr] = true
				}
				for ptr := range w.published() {
					if !ref[ptr] && !pubBefore[ptr] {
						o.Orphans++
					}
				}
				emit(o)
				w.close()
			}
		}
		// a second Merge while the first is held in a store call
		for _, holdAt := range []string{"create#1", "read#2", "close#1", "update#1", "tombstone#1"} {
			w, l := mk()
			eng := w.mergeEngine(l)
			o := &obs{Kind: "second", Limits: l.m(), Before: w.snapshot(), Fault: "hold " + holdAt}
			w.c.mu.Lock()
			w.c.active, w.c.counts, w.c.updates, w.c.tombs, w.c.committed = true, map[string]int{}, nil, nil, false
			w.c.hold, w.c.holdCh, w.c.arrived = holdAt, make(chan struct{}), make(chan struct{})
			holdCh, arrived := w.c.holdCh, w.c.arrived
			w.c.mu.Unlock()
			type res struct {
				s *bs.MergeStats
				e error
			}
			first := make(chan res, 1)
			go func() { s, e := eng.Merge(context.Background()); first <- res{s, e} }()
			select {
			case <-arrived:
				// several further calls while the first is held: every one of them must be turned away (a rejected
				// call must not disturb the guard for the next one)
				o.Second = "inprogress"
				for k := 0; k < 3; k++ {
					_, err2 := eng.Merge(context.Background())
					switch {
					case errors.Is(err2, bs.ErrMergeInProgress):
					case err2 == nil:
						o.Second = "ran"
					default:
						o.Second = "other"
					}
				}
				o.Reached = true
				close(holdCh)
			case r := <-first:
				first <- r
				o.Second = "none"
			}
			r := <-first
			w.c.mu.Lock()
			w.c.active = false
			o.Updates, o.Tombs = w.c.updates, w.c.tombs
			w.c.mu.Unlock()
			o.Ret, o.StatsNil = retKind(r.s, r.e)
			o.After = w.snapshot()
			o.RowsBefore = rowsOf(o.Before)
			o.RowsAfter, o.QErrAfter = w.queryAll(eng)
			emit(o)
			w.close()
		}
	}

	// ---- C14: a query paused at a chosen point while a merge advances to a chosen point
	pauses := []string{"iter#1", "yield#1", "yield#2", "open#1", "open#2", "read#1", "read#3"}
	// update#2 / update#3 exist only if the merge commits in more than one MetaStore call (otherwise the merge just completes)
	mergeTos := []string{"close#1", "update#1", "update#2", "tombstone#1", "tombstone#2", "update#3", "done"}
	for i := 0; i < nQuery; i++ {
		fs := i%2 == 1
		w := newWorld(rng, scratch, 200000+id, fs)
		for fi := 0; fi < 4; fi++ {
			w.buildFile(fi, []blockSpec{{part: []string{"pa", "pb"}[fi/2], withKey: true, rows: 1 + rng.Intn(2), pad: 5}})
		}
		l := limits{mr: 100, mb: 1 << 20, mf: 10, ms: 1 << 30}
		eng := w.mergeEngine(l)
		o := &obs{Kind: "query", Limits: l.m(), Before: w.snapshot()}
		o.Query = queryObs{On: true, Discipline: map[bool]string{true: "fs", false: "mem"}[fs], Pause: pauses[i%len(pauses)], MergeTo: mergeTos[(i/len(pauses))%len(mergeTos)]}
		o.Query.Acked = rowsOf(o.Before)
		o.RowsBefore = o.Query.Acked
		// the query runs on its own engine over query-tagged store wrappers
		qc := &queryCtl{inner: w.c, hold: o.Query.Pause, holdCh: make(chan struct{}), arrived: make(chan struct{})}
		qdata := &h.InstrData{Inner: w.rawData, C: qc}
		qmeta := &h.InstrMeta{Inner: w.rawMeta, C: qc}
		qeng, err := bs.NewBloomSearchEngine(baseCfg(), qmeta, qdata)
		h.Must(err, "query engine")
		type qres struct {
			rows []string
			err  bool
		}
		qdone := make(chan qres, 1)
		go func() {
			r, e := w.queryAll(qeng)
			qdone <- qres{r, e}
		}()
		paused := false
		select {
		case <-qc.arrived:
			paused = true
		case r := <-qdone:
			qdone <- r
		case <-time.After(5 * time.Second):
		}
		// advance the merge
		w.c.mu.Lock()
		w.c.active, w.c.counts, w.c.updates, w.c.tombs, w.c.committed = true, map[string]int{}, nil, nil, false
		var mhold, marr chan struct{}
		if o.Query.MergeTo != "done" {
			w.c.hold, w.c.holdCh, w.c.arrived = o.Query.MergeTo, make(chan struct{}), make(chan struct{})
			mhold, marr = w.c.holdCh, w.c.arrived
		}
		w.c.mu.Unlock()
		mdone := make(chan struct{})
		go func() {
			s, e := eng.Merge(context.Background())
			o.Ret, o.StatsNil = retKind(s, e)
			close(mdone)
		}()
		if marr != nil {
			select {
			case <-marr:
			case <-mdone:
				mhold = nil
			case <-time.After(5 * time.Second):
			}
		} else {
			<-mdone
		}
		// resume the query while the merge is where it is
		if paused {
			close(qc.holdCh)
		}
		r := <-qdone
		o.Query.Res, o.Query.Err = r.rows, r.err
		if mhold != nil {
			close(mhold)
		}
		<-mdone
		w.c.mu.Lock()
		w.c.active = false
		o.Updates, o.Tombs = w.c.updates, w.c.tombs
		w.c.mu.Unlock()
		o.Reached = paused
		// the "fs" window: the query listed/read the directory after an output was published and before every source was removed
		o.Query.Window = fs && paused && (o.Query.MergeTo == "update#1" || o.Query.MergeTo == "close#1" || strings.HasPrefix(o.Query.Pause, "iter") || strings.HasPrefix(o.Query.Pause, "yield") || strings.HasPrefix(o.Query.Pause, "open") || strings.HasPrefix(o.Query.Pause, "read"))
		o.After = w.snapshot()
		o.RowsAfter, o.QErrAfter = w.queryAll(eng)
		emit(o)
		w.close()
	}

	h.Must(bw.Flush(), "flush")
	of.Close()
	guard.Restore()
	h.WriteJSON(filepath.Join(*out, "summary.json"), map[string]any{"obs": id, "stdio_bytes": guard.Len(), "wall_s": time.Since(start).Seconds()})
	fmt.Printf("merge: %d observations, %d stdio bytes, %.1fs\n", id, guard.Len(), time.Since(start).Seconds())
}

func rowsOf(files []fileObs) []string {
	out := []string{}
	for _, f := range files {
		for _, b := range f.Blocks {
			out = append(out, b.Rows...)
		}
	}
	sort.Strings(out)
	return out
}

// queryCtl pauses the query's store calls at "kind#nth".
type queryCtl struct {
	inner   *ctl
	mu      sync.Mutex
	counts  map[string]int
	hold    string
	holdCh  chan struct{}
	arrived chan struct{}
}

func (q *queryCtl) Before(op *h.StoreOp) error {
	q.mu.Lock()
	if q.counts == nil {
		q.counts = map[string]int{}
	}
	q.counts[op.Kind]++
	key := fmt.Sprintf("%s#%d", op.Kind, q.counts[op.Kind])
	hit := q.hold == key
	if hit {
		q.hold = ""
	}
	q.mu.Unlock()
	if hit {
		close(q.arrived)
		<-q.holdCh
	}
	return nil
}
func (q *queryCtl) After(op *h.StoreOp, err error) {}
