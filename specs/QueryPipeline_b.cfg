SPECIFICATION Spec
CONSTANTS
  Qs = {q1}
  NF = 1
  NB = 2
  N = 2
  RB = 1
  FJB = 1
  BJB = 1
  MaxBatches = 2
  MaxFaults = 1
  HasBloom = TRUE
  Closers = {c1,c2}
  MayCancel = TRUE
  Stalled = {}
  CloseConsultsCaller = TRUE
INVARIANTS TypeOK ReadsBounded NoSlotWhileParked HandleConservation IdleOnlyWhileReferenced AllClosedAtDone IteratorReturned
  NoWorkerAlive BudgetRestored TerminalImpliesDone ErrOK IterDoneImpliesFinalized CloseRetImpliesFinalized StatsAtMostOnce StatsWholeFiles
PROPERTIES DecidedOnce FalseIsSticky
CHECK_DEADLOCK FALSE
