// Package h holds the harness infrastructure shared by every driver: NDJSON
// trace recording with a process-wide sequence number, goroutine identity,
// quiescence detection, gates, and instrumented stores.
package h

import (
	"bufio"
	"bytes"
	"encoding/json"
	"fmt"
	"os"
	"runtime"
	"strconv"
	"sync"
	"sync/atomic"
)

// Ev is one trace line. Every family fixes its own field set (TLC records
// need uniform fields); the tracer fills "seq" and "t".
type Ev map[string]any

// Tracer records events of one or more traces into a single NDJSON file. The
// sequence number is taken under the tracer's mutex, inside the callback that
// observed the event, so the file order is the order of the observations.
type Tracer struct {
	mu       sync.Mutex
	w        *bufio.Writer
	f        *os.File
	seq      int64
	traceID  int64
	events   []Ev // events of the current trace (kept for replay files)
	keep     bool
	defaults Ev
}

func NewTracer(path string, defaults Ev) (*Tracer, error) {
	f, err := os.Create(path)
	if err != nil {
		return nil, err
	}
	return &Tracer{w: bufio.NewWriterSize(f, 1<<20), f: f, keep: true, defaults: defaults}, nil
}

// Begin starts a new trace (resets the per-trace sequence number).
func (t *Tracer) Begin(id int64) {
	t.mu.Lock()
	t.traceID = id
	t.seq = 0
	t.events = t.events[:0]
	t.mu.Unlock()
}

// Emit appends an event and returns its sequence number.
func (t *Tracer) Emit(ev Ev) int64 {
	t.mu.Lock()
	defer t.mu.Unlock()
	t.seq++
	out := make(Ev, len(t.defaults)+len(ev)+2)
	for k, v := range t.defaults {
		out[k] = v
	}
	for k, v := range ev {
		out[k] = v
	}
	out["seq"] = t.seq
	out["t"] = t.traceID
	b, err := json.Marshal(out)
	if err != nil {
		panic(err)
	}
	t.w.Write(b)
	t.w.WriteByte('\n')
	if t.keep {
		t.events = append(t.events, out)
	}
	return t.seq
}

// Seq returns the last sequence number handed out.
func (t *Tracer) Seq() int64 {
	t.mu.Lock()
	defer t.mu.Unlock()
	return t.seq
}

// Events returns a copy of the current trace's events.
func (t *Tracer) Events() []Ev {
	t.mu.Lock()
	defer t.mu.Unlock()
	return append([]Ev(nil), t.events...)
}

func (t *Tracer) Close() error {
	t.mu.Lock()
	defer t.mu.Unlock()
	if err := t.w.Flush(); err != nil {
		return err
	}
	return t.f.Close()
}

// Gid returns the current goroutine's id.
func Gid() int64 {
	var buf [64]byte
	n := runtime.Stack(buf[:], false)
	// "goroutine 123 [running]:..."
	b := buf[:n]
	b = b[len("goroutine "):]
	i := bytes.IndexByte(b, ' ')
	id, _ := strconv.ParseInt(string(b[:i]), 10, 64)
	return id
}

// Counter is a convenience atomic counter.
type Counter struct{ v atomic.Int64 }

func (c *Counter) Inc() int64 { return c.v.Add(1) }
func (c *Counter) Get() int64 { return c.v.Load() }

// WriteJSON writes v to path (indented).
func WriteJSON(path string, v any) error {
	b, err := json.MarshalIndent(v, "", " ")
	if err != nil {
		return err
	}
	return os.WriteFile(path, b, 0o644)
}

// Must aborts the harness with exit code 2 (infrastructure failure, never a
// verdict).
func Must(err error, what string) {
	if err != nil {
		fmt.Fprintf(ErrOut, "HARNESS-ERROR %s: %v\n", what, err)
		os.Exit(2)
	}
}

// ErrOut is where the harness reports its own trouble; CaptureStdio points it
// at the saved standard error.
var ErrOut = os.Stderr
