// Command fs drives the real FileSystemDataStore.
//
// mode calls (C16): seeded random call sequences over several writers with the
// file-name draw forced onto two or three names; after every call the real
// directory, a scan and OpenFile are projected onto the state of FSCalls.tla
// and written as one trace line.
//
// mode crash (C15): seeded histories (ingest, flush, failed flush, merge,
// failed merge) on an engine that uses the filesystem store as DataStore and
// MetaStore, with a snapshot of the directory at every filesystem mutation
// boundary (verifFS). From the snapshots the process-crash image of every
// boundary and the power-loss images the model allows (durable namespace plus
// any subset of the directory operations not yet covered by a directory fsync;
// file data not covered by an fsync dropped) are materialised, reopened with
// a fresh engine and queried.
package main

import (
	"context"
	"encoding/json"
	"errors"
	"flag"
	"fmt"
	"math/rand"
	"os"
	"path/filepath"
	"sort"
	"strings"
	"sync"
	"syscall"
	"time"

	bs "github.com/danthegoodman1/bloomsearch"
	"verifharness/internal/h"
)

// ---------------------------------------------------------------------------
// shared helpers

type fent struct {
	Ino  uint64
	Data []byte
}

func snapshot(dir string) map[string]fent {
	out := map[string]fent{}
	ents, err := os.ReadDir(dir)
	if err != nil {
		return out
	}
	for _, e := range ents {
		if e.IsDir() {
			continue
		}
		p := filepath.Join(dir, e.Name())
		data, err := os.ReadFile(p)
		if err != nil {
			continue
		}
		var ino uint64
		if st, err := os.Stat(p); err == nil {
			if s, ok := st.Sys().(*syscall.Stat_t); ok {
				ino = s.Ino
			}
		}
		out[e.Name()] = fent{Ino: ino, Data: data}
	}
	return out
}

func engineCfg() bs.BloomSearchEngineConfig {
	cfg := bs.DefaultBloomSearchEngineConfig()
	cfg.MaxBufferedTime = time.Hour
	cfg.RowDataCompression = bs.CompressionNone
	cfg.PartitionFunc = func(row map[string]any) string { s, _ := row["p"].(string); return s }
	return cfg
}

// queryAll opens a fresh store + engine over dir and returns every row id.
func queryAll(dir string) (ids []string, qerr string, panicked string) {
	defer func() {
		if p := recover(); p != nil {
			panicked = fmt.Sprint(p)
		}
	}()
	st := bs.NewFileSystemDataStore(dir)
	eng, err := bs.NewBloomSearchEngine(engineCfg(), st, st)
	if err != nil {
		return nil, err.Error(), ""
	}
	return queryEngine(eng)
}

// queryEngine returns every row id a match-all query of eng returns.
func queryEngine(eng *bs.BloomSearchEngine) (ids []string, qerr string, panicked string) {
	defer func() {
		if p := recover(); p != nil {
			panicked = fmt.Sprint(p)
		}
	}()
	ctx, cancel := context.WithTimeout(context.Background(), 20*time.Second)
	defer cancel()
	res, err := eng.Query(ctx, bs.NewQuery().Build())
	if err != nil {
		return nil, err.Error(), ""
	}
	defer res.Close()
	for res.Next() {
		if id, ok := res.Row()["id"].(string); ok {
			ids = append(ids, id)
		} else {
			ids = append(ids, "?")
		}
	}
	if err := res.Err(); err != nil {
		qerr = err.Error()
	}
	return
}

// ---------------------------------------------------------------------------
// mode calls

type payload struct {
	id    string
	bytes []byte
	cut   int // chunk boundary
}

// makePayloads produces small valid bloom files with distinguishing contents.
func makePayloads(n int, scratch string) ([]payload, error) {
	var out []payload
	for i := 1; i <= n; i++ {
		mem := h.NewMemData()
		meta := bs.NewMemoryMetaStore()
		eng, err := bs.NewBloomSearchEngine(engineCfg(), meta, mem)
		if err != nil {
			return nil, err
		}
		eng.Start()
		done := make(chan error, 1)
		rows := []map[string]any{{"id": fmt.Sprintf("pay%d", i), "p": "x", "pad": strings.Repeat("z", 10*i)}}
		if err := eng.IngestRows(context.Background(), rows, done); err != nil {
			return nil, err
		}
		if err := eng.Flush(context.Background()); err != nil {
			return nil, err
		}
		if err := <-done; err != nil {
			return nil, err
		}
		ctx, cancel := context.WithTimeout(context.Background(), 10*time.Second)
		eng.Stop(ctx)
		cancel()
		pub := mem.Published()
		if len(pub) != 1 {
			return nil, fmt.Errorf("payload: %d files", len(pub))
		}
		b, _ := mem.Bytes(pub[0])
		out = append(out, payload{id: fmt.Sprintf("P%d", i), bytes: b, cut: len(b) / 2})
	}
	return out, nil
}

type cell struct {
	P string `json:"p"` // payload id, "" for none
	K int    `json:"k"` // chunks present (0 = empty file)
	E bool   `json:"e"` // exists
}

type callEv struct {
	T     int             `json:"t"` // trace id
	Seq   int             `json:"seq"`
	Reset bool            `json:"reset"`
	Op    string          `json:"op"` // create write close abort tombstone open
	W     int             `json:"w"`
	Name  string          `json:"name"` // pointer's base name (create result, tombstone/open argument)
	Draws []string        `json:"draws"`
	Pay   string          `json:"pay"`
	Fault string          `json:"fault"` // label at which a failure was injected in this call
	Res   string          `json:"res"`   // ok | err
	Dat   map[string]cell `json:"dat"`
	Tmp   map[string]cell `json:"tmp"`
	Scan  []string        `json:"scan"`
	Open  cell            `json:"open"` // for op open: what was read
	Junk  int             `json:"junk"` // files whose bytes are no known payload prefix
	Stdio int             `json:"stdio"`
}

func identify(data []byte, pays []payload) (cell, bool) {
	if len(data) == 0 {
		return cell{E: true}, true
	}
	for _, p := range pays {
		if len(data) == p.cut && string(data) == string(p.bytes[:p.cut]) {
			return cell{P: p.id, K: 1, E: true}, true
		}
		if len(data) == len(p.bytes) && string(data) == string(p.bytes) {
			return cell{P: p.id, K: 2, E: true}, true
		}
	}
	return cell{P: "junk", K: 9, E: true}, false
}

type cwriter struct {
	w interface {
		Write([]byte) (int, error)
		Close() error
	}
	ptr    string
	name   string
	pay    payload
	chunks int
	state  string // open closed aborted cf
}

func runCalls(out string, seed int64, nTraces, steps int, guard *h.StdioGuard) int {
	rng := rand.New(rand.NewSource(seed))
	pays, err := makePayloads(4, out)
	h.Must(err, "payloads")
	f, err := os.Create(out + "/calls.ndjson")
	h.Must(err, "create")
	enc := json.NewEncoder(f)
	total := 0
	for t := 1; t <= nTraces; t++ {
		dir := fmt.Sprintf("%s/calls-%d", out, t)
		os.MkdirAll(dir, 0o755)
		names := []string{"n1", "n2", "n3"}[:2+rng.Intn(2)]
		st := bs.NewFileSystemDataStore(dir)
		var draws []string
		bs.VerifSetFileNameDraw(st, func() string {
			n := names[rng.Intn(len(names))]
			draws = append(draws, n)
			return n
		})
		var fault string
		var faultHit bool
		bs.VerifFS = func(op, path string) error {
			if fault != "" && op == fault && !faultHit {
				faultHit = true
				return fmt.Errorf("verif: injected %s failure", op)
			}
			return nil
		}
		writers := map[int]*cwriter{}
		owner := map[string]int{} // base name -> writer currently owning the pointer
		nextW := 0
		seq := 0
		emit := func(ev callEv) {
			seq++
			ev.T, ev.Seq = t, seq
			ev.Reset = seq == 1
			snap := snapshot(dir)
			ev.Dat, ev.Tmp = map[string]cell{}, map[string]cell{}
			for _, n := range []string{"n1", "n2", "n3"} {
				ev.Dat[n], ev.Tmp[n] = cell{}, cell{}
			}
			for name, fe := range snap {
				base := strings.TrimSuffix(strings.TrimSuffix(name, ".dat"), ".tmp")
				c, ok := identify(fe.Data, pays)
				if !ok {
					ev.Junk++
				}
				if strings.HasSuffix(name, ".dat") {
					ev.Dat[base] = c
				} else if strings.HasSuffix(name, ".tmp") {
					ev.Tmp[base] = c
				} else {
					ev.Junk++
				}
			}
			ev.Scan = []string{}
			for mf, err := range st.GetMaybeFilesForQuery(context.Background(), nil) {
				if err != nil {
					ev.Scan = append(ev.Scan, "ERR")
					break
				}
				ev.Scan = append(ev.Scan, strings.TrimSuffix(filepath.Base(string(mf.PointerBytes)), ".dat"))
			}
			sort.Strings(ev.Scan)
			if ev.Draws == nil {
				ev.Draws = []string{}
			}
			h.Must(enc.Encode(ev), "encode")
			total++
		}
		std0 := guard.Len()
		for s := 0; s < steps; s++ {
			fault, faultHit = "", false
			draws = nil
			// choose an operation
			var open, finished []int
			for id, cw := range writers {
				if cw.state == "open" {
					open = append(open, id)
				} else {
					finished = append(finished, id)
				}
			}
			sort.Ints(open)
			sort.Ints(finished)
			r := rng.Intn(100)
			ev := callEv{}
			switch {
			case r < 22 && len(writers) < 6:
				free := false
				snap := snapshot(dir)
				for _, n := range names {
					_, d := snap[n+".dat"]
					_, t := snap[n+".tmp"]
					if !d && !t {
						free = true
					}
				}
				if !free {
					continue
				}
				nextW++
				if rng.Intn(8) == 0 {
					fault = "reserve"
				}
				w, ptr, err := st.CreateFile(context.Background())
				ev.Op, ev.W, ev.Draws, ev.Fault = "create", nextW, draws, fault
				pay := pays[rng.Intn(len(pays))]
				ev.Pay = pay.id
				if err != nil {
					ev.Res = "err"
				} else {
					ev.Res = "ok"
					name := strings.TrimSuffix(filepath.Base(string(ptr)), ".dat")
					ev.Name = name
					writers[nextW] = &cwriter{w: w, ptr: string(ptr), name: name, pay: pay, state: "open"}
					owner[name] = nextW
				}
				if !faultHit {
					ev.Fault = ""
				}
			case r < 50 && len(open) > 0:
				id := open[rng.Intn(len(open))]
				cw := writers[id]
				if cw.chunks >= 2 {
					continue
				}
				var chunk []byte
				if cw.chunks == 0 {
					chunk = cw.pay.bytes[:cw.pay.cut]
				} else {
					chunk = cw.pay.bytes[cw.pay.cut:]
				}
				if rng.Intn(8) == 0 {
					fault = "write"
				}
				_, err := cw.w.Write(chunk)
				ev.Op, ev.W, ev.Name, ev.Pay = "write", id, cw.name, cw.pay.id
				if err != nil {
					ev.Res = "err"
				} else {
					ev.Res = "ok"
					cw.chunks++
				}
				if faultHit {
					ev.Fault = fault
				}
			case r < 68 && (len(open) > 0 || len(finished) > 0):
				// Close: an open writer with its payload complete, or (less often) any writer again
				var id int
				if len(open) > 0 && rng.Intn(4) != 0 {
					id = open[rng.Intn(len(open))]
					if writers[id].chunks < 2 {
						continue
					}
				} else if len(finished) > 0 {
					id = finished[rng.Intn(len(finished))]
				} else {
					continue
				}
				cw := writers[id]
				if cw.state == "open" && rng.Intn(5) == 0 {
					fault = []string{"sync", "rename", "dirsync"}[rng.Intn(3)]
				}
				err := cw.w.Close()
				ev.Op, ev.W, ev.Name, ev.Pay = "close", id, cw.name, cw.pay.id
				if err != nil {
					ev.Res = "err"
					if cw.state == "open" {
						cw.state = "cf"
					}
				} else {
					ev.Res = "ok"
					cw.state = "closed"
				}
				if faultHit {
					ev.Fault = fault
				}
			case r < 82 && (len(open) > 0 || len(finished) > 0):
				var id int
				if len(open) > 0 && rng.Intn(3) != 0 {
					id = open[rng.Intn(len(open))]
				} else if len(finished) > 0 {
					id = finished[rng.Intn(len(finished))]
				} else {
					continue
				}
				cw := writers[id]
				ab, ok := cw.w.(interface{ Abort() error })
				if !ok {
					continue
				}
				err := ab.Abort()
				ev.Op, ev.W, ev.Name, ev.Pay = "abort", id, cw.name, cw.pay.id
				ev.Res = "ok"
				if err != nil {
					ev.Res = "err"
				}
				if cw.state != "closed" {
					cw.state = "aborted"
				}
			case r < 92 && len(finished) > 0:
				// TombstoneFile of a pointer whose writer is finished and that no later writer has drawn again
				id := finished[rng.Intn(len(finished))]
				cw := writers[id]
				if owner[cw.name] != id {
					continue
				}
				err := st.TombstoneFile(context.Background(), []byte(cw.ptr))
				ev.Op, ev.W, ev.Name = "tombstone", id, cw.name
				ev.Res = "ok"
				if err != nil {
					ev.Res = "err"
				}
				delete(writers, id)
				delete(owner, cw.name)
			default:
				if len(writers) == 0 {
					continue
				}
				var ids []int
				for id := range writers {
					ids = append(ids, id)
				}
				sort.Ints(ids)
				id := ids[rng.Intn(len(ids))]
				cw := writers[id]
				if owner[cw.name] != id {
					continue
				}
				rd, err := st.OpenFile(context.Background(), []byte(cw.ptr))
				ev.Op, ev.W, ev.Name = "open", id, cw.name
				if err != nil {
					ev.Res = "err"
				} else {
					ev.Res = "ok"
					data := make([]byte, 1<<20)
					n, _ := rd.Read(data)
					rd.Close()
					ev.Open, _ = identify(data[:n], pays)
				}
			}
			if ev.Op == "" {
				continue
			}
			ev.Stdio = guard.Len() - std0
			emit(ev)
		}
		bs.VerifFS = nil
		os.RemoveAll(dir)
	}
	f.Close()
	return total
}

// ---------------------------------------------------------------------------
// mode crash

type fsEvent struct {
	K    int    // boundary index
	Op   string // verifFS label
	Path string
	Snap map[string]fent
	Inj  bool // a failure was injected at this boundary
	Hist int  // index of the history operation in progress
}

type histOp struct {
	Kind  string `json:"kind"` // ingest | flush | merge
	Batch string `json:"batch"`
	Rows  int    `json:"rows"`
	Parts int    `json:"parts"`
	Fault string `json:"fault"` // label#n within this operation
	Res   string `json:"res"`   // ok | err
	// PartBase shifts the batch's partition names (scripted histories: files of different partitions => several merge groups)
	PartBase int `json:"part_base"`
}

type imageObs struct {
	ID            int      `json:"id"`
	Hist          int      `json:"hist"`
	K             int      `json:"k"`
	Label         string   `json:"label"`
	Mode          string   `json:"mode"` // crash | power | live (no crash: a query through the history's own store, after an operation returned)
	Variant       string   `json:"variant"`
	Acked         int      `json:"acked"`
	Ingested      int      `json:"ingested"`
	Rows          int      `json:"rows"`
	Missing       int      `json:"missing_acked"`  // acknowledged rows not returned
	Invented      int      `json:"invented"`       // rows never ingested before the boundary
	Dups          int      `json:"dups"`           // rows returned more often than ingested
	FailedVisible int      `json:"failed_visible"` // rows of batches that had been answered with an error before the boundary
	QErr          string   `json:"qerr"`
	Panic         string   `json:"panic"`
	InWindow      bool     `json:"in_window"`   // boundary inside a merge window (rename of the output .. durable removal)
	AfterMerge    bool     `json:"after_merge"` // a merge had returned before the boundary
	Differs       bool     `json:"differs"`     // image differs from the empty and from the final directory
	Ops           []histOp `json:"ops"`
	Stdio         int      `json:"stdio"`
	Sample        []string `json:"sample"`
}

type dirOp struct {
	kind string // bind unbind rename
	name string
	from string
	ino  uint64
}

func diffOps(a, b map[string]fent) []dirOp {
	var ops []dirOp
	var removed, added []string
	for n := range a {
		if fb, ok := b[n]; !ok || fb.Ino != a[n].Ino {
			removed = append(removed, n)
		}
	}
	for n := range b {
		if fa, ok := a[n]; !ok || fa.Ino != b[n].Ino {
			added = append(added, n)
		}
	}
	sort.Strings(removed)
	sort.Strings(added)
	usedRem := map[string]bool{}
	for _, n := range added {
		ren := ""
		for _, r := range removed {
			if !usedRem[r] && a[r].Ino == b[n].Ino {
				ren = r
				break
			}
		}
		if ren != "" {
			usedRem[ren] = true
			ops = append(ops, dirOp{kind: "rename", name: n, from: ren, ino: b[n].Ino})
		} else {
			ops = append(ops, dirOp{kind: "bind", name: n, ino: b[n].Ino})
		}
	}
	for _, r := range removed {
		if !usedRem[r] {
			if _, still := b[r]; still {
				continue // replaced by a rename onto it (handled by the rename op)
			}
			ops = append(ops, dirOp{kind: "unbind", name: r})
		}
	}
	return ops
}

func applyOps(base map[string]uint64, ops []dirOp, keep []bool) map[string]uint64 {
	d := map[string]uint64{}
	for k, v := range base {
		d[k] = v
	}
	for i, op := range ops {
		if !keep[i] {
			continue
		}
		switch op.kind {
		case "bind":
			d[op.name] = op.ino
		case "unbind":
			delete(d, op.name)
		case "rename":
			if ino, ok := d[op.from]; ok {
				d[op.name] = ino
				delete(d, op.from)
			}
		}
	}
	return d
}

func runCrash(out string, seed int64, nHist int, tier string, guard *h.StdioGuard) int {
	rng := rand.New(rand.NewSource(seed))
	f, err := os.Create(out + "/images.ndjson")
	h.Must(err, "create")
	enc := json.NewEncoder(f)
	imgID := 0
	for hi := 1; hi <= nHist; hi++ {
		dir := fmt.Sprintf("%s/hist-%d", out, hi)
		os.MkdirAll(dir, 0o755)
		st := bs.NewFileSystemDataStore(dir)
		cfg := engineCfg()
		cfg.MaxFilesToMergePerOperation = 2 + rng.Intn(2)
		if hi >= 3 && hi <= 5 {
			cfg.MaxFilesToMergePerOperation = 10 // the scripted two-group merges
		}
		eng, err := bs.NewBloomSearchEngine(cfg, st, st)
		h.Must(err, "engine")
		eng.Start()
		// queries of the running history go through the history's own store instance (what the store remembers between calls
		// is part of what they see)
		liveEng, err := bs.NewBloomSearchEngine(engineCfg(), st, st)
		h.Must(err, "live engine")
		var live []imageObs

		var mu sync.Mutex
		var events []fsEvent
		curHist := 0
		counts := map[string]int{}
		fault := ""
		bs.VerifFS = func(op, path string) error {
			mu.Lock()
			defer mu.Unlock()
			counts[op]++
			ev := fsEvent{K: len(events), Op: op, Path: filepath.Base(path), Snap: snapshot(dir), Hist: curHist}
			var err error
			if fault != "" && fault == fmt.Sprintf("%s#%d", op, counts[op]) {
				ev.Inj = true
				err = fmt.Errorf("verif: injected %s failure", op)
				fault = ""
			}
			events = append(events, ev)
			// a directory scan of the same store lands at every boundary (inside every call of every writer)
			scanned := make(chan struct{})
			go func() {
				defer close(scanned)
				defer func() { recover() }()
				for range st.GetMaybeFilesForQuery(context.Background(), nil) {
				}
			}()
			select {
			case <-scanned:
			case <-time.After(2 * time.Second):
			}
			return err
		}
		// the history
		type ackInfo struct {
			ids []string
			at  int // number of events when the ack was received
			ok  bool
		}
		var acks []ackInfo
		ingestedAt := map[string]int{} // row id -> events count when IngestRows was called
		var ops []histOp
		mergeReturned := []int{} // events count at each Merge return
		nops := 3 + rng.Intn(4)
		// the first histories of a run are fixed: a merge of two (three) sources whose commit fails at the removal of its
		// first (second) source
		var script []histOp
		switch hi {
		case 1:
			script = []histOp{{Kind: "flush"}, {Kind: "flush"}, {Kind: "merge", Fault: "update.remove#1"}, {Kind: "flush"}}
		case 2:
			script = []histOp{{Kind: "flush"}, {Kind: "flush"}, {Kind: "flush"}, {Kind: "merge", Fault: "update.remove#2"}}
		case 3, 4, 5:
			// a merge of two groups (two partitions, two files each) whose second output fails after the first one was
			// published: the first output is an orphan the merge has to remove again - durably
			script = []histOp{{Kind: "flush", Parts: 1}, {Kind: "flush", Parts: 1}, {Kind: "flush", Parts: 1, PartBase: 5}, {Kind: "flush", Parts: 1, PartBase: 5},
				{Kind: "merge", Fault: []string{"rename#2", "write#5", "dirsync#2"}[hi-3]}, {Kind: "flush", Parts: 1}}
		}
		if script != nil {
			nops = len(script)
		}
		bno := 0
		flushes := 0
		for oi := 0; oi < nops; oi++ {
			mu.Lock()
			curHist = oi
			counts = map[string]int{}
			mu.Unlock()
			kind := "flush"
			if flushes >= 2 && rng.Intn(3) == 0 {
				kind = "merge"
			}
			if script != nil {
				kind = script[oi].Kind
			}
			op := histOp{Kind: kind}
			if script != nil {
				if script[oi].Fault != "" {
					op.Fault = script[oi].Fault
					mu.Lock()
					fault = op.Fault
					mu.Unlock()
				}
			} else if rng.Intn(3) == 0 {
				labels := []string{"reserve", "tmp.created", "write", "sync", "rename", "dirsync"}
				if kind == "merge" {
					// ... and the commit itself: the removal of each source by Update
					labels = append(labels, "write", "dirsync", "rename", "update.remove", "update.remove", "update.remove")
				}
				lab := labels[rng.Intn(len(labels))]
				nth := 1
				if lab == "write" {
					nth = 1 + rng.Intn(3)
				}
				if lab == "update.remove" {
					nth = 1 + rng.Intn(2)
				}
				op.Fault = fmt.Sprintf("%s#%d", lab, nth)
				mu.Lock()
				fault = op.Fault
				mu.Unlock()
			}
			if kind == "flush" {
				bno++
				op.Batch = fmt.Sprintf("h%db%d", hi, bno)
				op.Rows = 1 + rng.Intn(4)
				op.Parts = 1 + rng.Intn(2)
				if script != nil && script[oi].Parts > 0 {
					op.Parts, op.PartBase = script[oi].Parts, script[oi].PartBase
				}
				var rows []map[string]any
				var ids []string
				for r := 0; r < op.Rows; r++ {
					id := fmt.Sprintf("%sr%d", op.Batch, r)
					ids = append(ids, id)
					rows = append(rows, map[string]any{"id": id, "p": fmt.Sprintf("p%d", op.PartBase+r%op.Parts), "v": r})
				}
				mu.Lock()
				for _, id := range ids {
					ingestedAt[id] = len(events)
				}
				mu.Unlock()
				done := make(chan error, 1)
				h.Must(eng.IngestRows(context.Background(), rows, done), "ingest")
				eng.Flush(context.Background())
				err := <-done
				mu.Lock()
				acks = append(acks, ackInfo{ids: ids, at: len(events), ok: err == nil})
				mu.Unlock()
				op.Res = "ok"
				if err != nil {
					op.Res = "err"
				} else {
					flushes++
				}
			} else {
				_, err := eng.Merge(context.Background())
				op.Res = "ok"
				if err != nil {
					op.Res = "err"
				}
				mu.Lock()
				mergeReturned = append(mergeReturned, len(events))
				mu.Unlock()
			}
			mu.Lock()
			fault = ""
			mu.Unlock()
			ops = append(ops, op)
			// the operation has returned: a query through the same store sees every acknowledged row exactly once
			{
				hook := bs.VerifFS
				bs.VerifFS = nil
				std0 := guard.Len()
				ids, qerr, pan := queryEngine(liveEng)
				bs.VerifFS = hook
				mu.Lock()
				lo := imageObs{Hist: hi, K: len(events), Label: "after-" + op.Kind, Mode: "live", Variant: "same-store", QErr: qerr, Panic: pan,
					Rows: len(ids), Sample: []string{}, Stdio: guard.Len() - std0}
				got := map[string]int{}
				for _, id := range ids {
					got[id]++
					if got[id] == 2 {
						lo.Dups++
					}
					if _, ok := ingestedAt[id]; !ok && got[id] == 1 {
						lo.Invented++
					}
				}
				lo.Ingested = len(ingestedAt)
				for _, a := range acks {
					for _, id := range a.ids {
						if a.ok {
							lo.Acked++
							if got[id] == 0 {
								lo.Missing++
							}
						}
					}
				}
				mu.Unlock()
				live = append(live, lo)
			}
		}
		ctx, cancel := context.WithTimeout(context.Background(), 20*time.Second)
		eng.Stop(ctx)
		cancel()
		bs.VerifFS = nil
		for _, lo := range live {
			imgID++
			lo.ID, lo.Ops = imgID, ops
			h.Must(enc.Encode(lo), "encode")
		}
		final := snapshot(dir)
		events = append(events, fsEvent{K: len(events), Op: "end", Snap: final, Hist: nops})

		// inode numbers are reused by the filesystem: give every inode lifetime its own id
		{
			life := map[uint64]uint64{}
			var next uint64
			for k := range events {
				present := map[uint64]bool{}
				for _, fe := range events[k].Snap {
					present[fe.Ino] = true
				}
				for ino := range life {
					if !present[ino] {
						delete(life, ino)
					}
				}
				ns := map[string]fent{}
				for n, fe := range events[k].Snap {
					id, ok := life[fe.Ino]
					if !ok {
						next++
						id = next
						life[fe.Ino] = id
					}
					ns[n] = fent{Ino: id, Data: fe.Data}
				}
				events[k].Snap = ns
			}
			final = events[len(events)-1].Snap
		}
		// inode -> latest bytes seen, durable bytes
		// durability is inferred from the boundaries: a "sync" boundary passed without an injected failure and followed by
		// that file's "rename" boundary is a completed fsync of the temp file; a "dirsync" boundary passed without an
		// injected failure and followed by "published" (or a "*.dirsync" followed by "*.done") is a completed directory fsync
		durData := map[uint64][]byte{}
		durDir := map[string]uint64{}
		durAt := 0 // boundary index whose snapshot is the durable namespace
		// merge windows: [rename boundary of a merge output + 1 .. boundary of the closing durable point]
		type win struct{ from, to int }
		var windows []win
		openWin := -1
		mergeOuts := map[string]bool{} // outputs renamed into place by merges
		isMergeOp := func(hidx int) bool { return hidx < len(ops) && ops[hidx].Kind == "merge" }
		for k := 0; k < len(events); k++ {
			ev := events[k]
			prev := fsEvent{}
			if k > 0 {
				prev = events[k-1]
			}
			// completed fsync of a temp file
			if ev.Op == "rename" && k > 0 && prev.Op == "sync" && !prev.Inj {
				tmp := strings.TrimSuffix(ev.Path, ".dat") + ".tmp"
				if fe, ok := ev.Snap[tmp]; ok {
					durData[fe.Ino] = fe.Data
				}
			}
			dirDurable := false
			if (ev.Op == "published" && prev.Op == "dirsync" && !prev.Inj) ||
				(strings.HasSuffix(ev.Op, ".done") && strings.HasSuffix(prev.Op, ".dirsync") && !prev.Inj) {
				dirDurable = true
			}
			// window bookkeeping (on the state before this boundary's operation)
			if ev.Op == "dirsync" && isMergeOp(ev.Hist) && prev.Op == "rename" {
				mergeOuts[prev.Path] = true
			}
			// a failed merge that had already published the output of an earlier group keeps its window open until that
			// orphan is durably gone again (or the Merge returns)
			orphan := false
			if ev.Op == "abort.done" || ev.Op == "tomb.done" {
				for n := range mergeOuts {
					if _, ok := ev.Snap[n]; ok {
						orphan = true
					}
				}
			}
			if dirDurable && openWin >= 0 && (ev.Op != "published") && !orphan {
				windows = append(windows, win{openWin, k - 1})
				openWin = -1
			}
			// a Merge that has returned has no window left: whatever it left behind must be durable
			for _, m := range mergeReturned {
				if m == k && openWin >= 0 {
					windows = append(windows, win{openWin, k - 1})
					openWin = -1
				}
			}
			if dirDurable {
				durDir = map[string]uint64{}
				for n, fe := range ev.Snap {
					durDir[n] = fe.Ino
				}
				durAt = k
			}
			if ev.Op == "dirsync" && isMergeOp(ev.Hist) && prev.Op == "rename" && openWin < 0 {
				openWin = k // the rename has been executed when this boundary is reached
			}
			// ---- images of boundary k (state before the operation the label names)
			ackedIDs, ingestedIDs, failedIDs := map[string]bool{}, map[string]bool{}, map[string]bool{}
			for _, a := range acks {
				if a.ok && a.at <= k {
					for _, id := range a.ids {
						ackedIDs[id] = true
					}
				}
				if !a.ok && a.at <= k {
					for _, id := range a.ids {
						failedIDs[id] = true
					}
				}
			}
			for id, at := range ingestedAt {
				if at <= k {
					ingestedIDs[id] = true
				}
			}
			afterMerge := false
			for _, m := range mergeReturned {
				if m <= k {
					afterMerge = true
				}
			}
			inWindow := openWin >= 0 && k >= openWin
			type image struct {
				mode, variant string
				files         map[string][]byte
			}
			var images []image
			// process crash: the directory as it is
			cf := map[string][]byte{}
			for n, fe := range ev.Snap {
				cf[n] = fe.Data
			}
			images = append(images, image{"crash", "as-is", cf})
			// power loss: durable namespace + subsets of the directory operations since
			var pend []dirOp
			inoData := map[uint64][]byte{}
			for j := durAt; j < k; j++ {
				pend = append(pend, diffOps(events[j].Snap, events[j+1].Snap)...)
			}
			for j := 0; j <= k; j++ {
				for _, fe := range events[j].Snap {
					inoData[fe.Ino] = fe.Data
				}
			}
			var keeps [][]bool
			np := len(pend)
			mk := func(fn func(i int) bool) []bool {
				b := make([]bool, np)
				for i := range b {
					b[i] = fn(i)
				}
				return b
			}
			if np <= 4 {
				for m := 0; m < 1<<np; m++ {
					keeps = append(keeps, mk(func(i int) bool { return m&(1<<i) != 0 }))
				}
			} else {
				keeps = append(keeps, mk(func(int) bool { return false }), mk(func(int) bool { return true }))
				for c := 1; c < np; c++ {
					keeps = append(keeps, mk(func(i int) bool { return i < c }), mk(func(i int) bool { return i != c }))
				}
				for x := 0; x < 6; x++ {
					m := rng.Int63()
					keeps = append(keeps, mk(func(i int) bool { return m&(1<<uint(i%60)) != 0 }))
				}
			}
			maxImg := 10
			if tier == "thorough" {
				maxImg = 40
			}
			if len(keeps) > maxImg {
				rng.Shuffle(len(keeps)-2, func(i, j int) { keeps[i+2], keeps[j+2] = keeps[j+2], keeps[i+2] })
				keeps = keeps[:maxImg]
			}
			seenImg := map[string]bool{}
			for _, keep := range keeps {
				ns := applyOps(durDir, pend, keep)
				for _, dataMode := range []string{"drop", "half", "keep"} {
					files := map[string][]byte{}
					sigParts := []string{}
					for n, ino := range ns {
						var data []byte
						if d, ok := durData[ino]; ok {
							data = d
						} else {
							full := inoData[ino]
							switch dataMode {
							case "drop":
								data = nil
							case "half":
								data = full[:len(full)/2]
							default:
								data = full
							}
						}
						files[n] = data
						sigParts = append(sigParts, fmt.Sprintf("%s:%d:%d", n, ino, len(data)))
					}
					sort.Strings(sigParts)
					sig := strings.Join(sigParts, "|")
					if seenImg[sig] {
						continue
					}
					seenImg[sig] = true
					v := ""
					for _, b := range keep {
						if b {
							v += "1"
						} else {
							v += "0"
						}
					}
					images = append(images, image{"power", v + "/" + dataMode, files})
				}
			}
			for _, im := range images {
				imgID++
				idir := fmt.Sprintf("%s/img", out)
				os.RemoveAll(idir)
				os.MkdirAll(idir, 0o755)
				for n, data := range im.files {
					os.WriteFile(filepath.Join(idir, n), data, 0o644)
				}
				std0 := guard.Len()
				ids, qerr, pan := queryAll(idir)
				o := imageObs{ID: imgID, Hist: hi, K: k, Label: ev.Op, Mode: im.mode, Variant: im.variant, Acked: len(ackedIDs),
					Ingested: len(ingestedIDs), Rows: len(ids), QErr: qerr, Panic: pan, InWindow: inWindow, AfterMerge: afterMerge, Ops: ops}
				got := map[string]int{}
				for _, id := range ids {
					got[id]++
					if got[id] == 2 {
						o.Dups++
					}
					if !ingestedIDs[id] && got[id] == 1 {
						o.Invented++
					}
					if failedIDs[id] && got[id] == 1 {
						o.FailedVisible++
					}
				}
				for id := range ackedIDs {
					if got[id] == 0 {
						o.Missing++
					}
				}
				o.Differs = len(im.files) > 0 && !sameFiles(im.files, final)
				o.Stdio = guard.Len() - std0
				o.Sample = []string{}
				for i := 0; i < len(ids) && i < 3; i++ {
					o.Sample = append(o.Sample, ids[i])
				}
				h.Must(enc.Encode(o), "encode")
			}
		}
		os.RemoveAll(dir)
	}
	os.RemoveAll(out + "/img")
	f.Close()
	return imgID
}

func sameFiles(a map[string][]byte, b map[string]fent) bool {
	if len(a) != len(b) {
		return false
	}
	for n, d := range a {
		fe, ok := b[n]
		if !ok || string(fe.Data) != string(d) {
			return false
		}
	}
	return true
}

var _ = errors.New

func main() {
	out := flag.String("out", "", "output directory")
	seed := flag.Int64("seed", 1, "seed")
	tier := flag.String("tier", "quick", "quick|thorough")
	mode := flag.String("mode", "both", "calls|crash|races|both")
	flag.Parse()
	if *out == "" {
		fmt.Fprintln(os.Stderr, "usage: fs -out DIR")
		os.Exit(2)
	}
	h.Must(os.MkdirAll(*out, 0o755), "mkdir")
	guard := h.CaptureStdio()
	nTraces, steps, nHist := 150, 40, 12
	if *tier == "thorough" {
		nTraces, steps, nHist = 1500, 60, 120
	}
	calls, images, races := 0, 0, 0
	if *mode == "calls" || *mode == "both" {
		calls = runCalls(*out, *seed, nTraces, steps, guard)
	}
	if *mode == "races" || *mode == "both" {
		nRaces := 1500
		if *tier == "thorough" {
			nRaces = 12000
		}
		races = runRaces(*out, *seed, nRaces, guard)
	}
	if *mode == "crash" || *mode == "both" {
		images = runCrash(*out, *seed, nHist, *tier, guard)
	}
	total := guard.Len()
	guard.Restore()
	h.WriteJSON(*out+"/summary.json", map[string]any{"call_events": calls, "images": images, "races": races, "stdio_bytes": total})
	fmt.Printf("fs: %d call events, %d images, %d races, %d stdio bytes\n", calls, images, races, total)
}
