// Package sem replays abstract search cases (documents, expression trees,
// histories drawn from the TLA+ catalogue) on the real engine and records
// what the engine did, for SearchMonitor.tla to judge. The harness BUILDS
// concrete strings from abstract segments / word ids; it never parses them
// back and never decides what a query should return.
package sem

import (
	"encoding/json"
	"fmt"
	"math/rand"
	"strings"
)

// Value mirrors the uniform value record of Search.tla.
type Value struct {
	K string   `json:"k"`
	W []string `json:"w"`
	M []Member `json:"m"`
	E []Value  `json:"e"`
}

type Member struct {
	Key []string `json:"key"`
	V   Value    `json:"v"`
}

type DocEntries struct {
	Paths       [][]string   `json:"paths"`
	TokensWS    [][]string   `json:"tokens_ws"`
	TokensWhole [][]string   `json:"tokens_whole"`
	FTWS        [][][]string `json:"ft_ws"`
	FTWhole     [][][]string `json:"ft_whole"`
}

type Catalog struct {
	Docs    []Value      `json:"docs"`
	Entries []DocEntries `json:"entries"`
}

// ---------------------------------------------------------------------------
// Concretization tables.

var segText = map[string]string{
	"a": "a", "b": "b", "c": "c", "e": "",
	"m":  `k*?\[0]#|@`,
	"u":  "ключ-é",
	"id": "id", "p": "p", "k1": "k1", "k2": "k2",
}

// word id -> token (the lower-cased word) and surface variants that fold to it
var wordToken = map[string]string{
	"w1": "alpha", "w2": "bravo", "w3": "çédille", "w4": "delta-4",
	"true": "true", "false": "false",
	"n7": "77", "nbig": "9007199254740993", "nfrac": "2.5", "nexp": "1e+21",
	"p1": "p1", "p2": "p2", "p3": "p3",
}

var wordVariants = map[string][]string{
	"w1": {"alpha", "Alpha", "ALPHA", "aLpHa"},
	"w2": {"bravo", "BRAVO", "Bravo"},
	"w3": {"çédille", "ÇÉDILLE", "Çédille"},
	"w4": {"delta-4", "DELTA-4"},
}

var separators = []string{" ", "  ", "\t", "\n", " ", "   ", "\r\n"}

func init() {
	for i := 0; i <= 9; i++ {
		wordToken[fmt.Sprintf("i%d", i)] = fmt.Sprintf("%d", i)
	}
	for i := 1; i <= 16; i++ {
		wordToken[fmt.Sprintf("r%d", i)] = fmt.Sprintf("r%d", i)
	}
	// self-check of the table against the standard library (trusted)
	for w, vs := range wordVariants {
		for _, v := range vs {
			if strings.ToLower(v) != wordToken[w] || len(strings.Fields(v)) != 1 {
				panic("bad variant table for " + w)
			}
		}
	}
}

// PathString joins segments with the delimiter.
func PathString(p []string) string {
	parts := make([]string, len(p))
	for i, s := range p {
		t, ok := segText[s]
		if !ok {
			panic("unknown segment " + s)
		}
		parts[i] = t
	}
	return strings.Join(parts, ".")
}

// KeyString is the JSON object key for a key given as segments.
func KeyString(k []string) string { return PathString(k) }

// TokenString concretizes a token (a sequence of word ids) in canonical form.
func TokenString(tok []string) string {
	parts := make([]string, len(tok))
	for i, w := range tok {
		t, ok := wordToken[w]
		if !ok {
			panic("unknown word " + w)
		}
		parts[i] = t
	}
	return strings.Join(parts, " ")
}

// number leaves: literal id -> Go values that marshal to the literal
func numberValue(lit string, rng *rand.Rand, canonical bool) any {
	// every kind marshals to the same literal, so kinds vary even in canonical mode
	pick := func(vs ...any) any {
		if rng == nil {
			return vs[0]
		}
		return vs[rng.Intn(len(vs))]
	}
	switch lit {
	case "n7":
		type myInt int16
		return pick(77, int8(77), uint64(77), float64(77), float32(77), json.Number("77"), myInt(77), json.RawMessage("77"))
	case "nbig":
		return pick(int64(9007199254740993), uint64(9007199254740993), json.Number("9007199254740993"))
	case "nfrac":
		return pick(2.5, float32(2.5), json.Number("2.5"))
	case "nexp":
		if !canonical {
			// (the default tokenizer lower-cases: an upper-case exponent in raw JSON is the same token)
			return pick(1e21, json.RawMessage("1e+21"), json.RawMessage("1E+21"))
		}
		return pick(1e21, json.RawMessage("1e+21"))
	}
	if strings.HasPrefix(lit, "i") {
		var v int
		fmt.Sscanf(lit, "i%d", &v)
		return pick(v, int64(v), uint8(v), float64(v), uint(v), int32(v))
	}
	panic("unknown number literal " + lit)
}

// Concrete builds the Go value for an abstract value. With canonical=false
// surface forms vary (case, separators, numeric kinds, raw JSON sub-objects);
// every variant has the same meaning under the documented semantics.
func Concrete(v Value, rng *rand.Rand, canonical bool) any {
	switch v.K {
	case "s":
		parts := make([]string, len(v.W))
		for i, w := range v.W {
			if vs, ok := wordVariants[w]; ok && !canonical {
				parts[i] = vs[rng.Intn(len(vs))]
			} else {
				parts[i] = wordToken[w]
			}
		}
		if canonical {
			return strings.Join(parts, " ")
		}
		var sb strings.Builder
		if len(parts) > 0 && rng.Intn(4) == 0 {
			sb.WriteString(separators[rng.Intn(len(separators))])
		}
		for i, p := range parts {
			if i > 0 {
				sb.WriteString(separators[rng.Intn(len(separators))])
			}
			sb.WriteString(p)
		}
		if len(parts) > 0 && rng.Intn(4) == 0 {
			sb.WriteString(separators[rng.Intn(len(separators))])
		}
		return sb.String()
	case "n":
		return numberValue(v.W[0], rng, canonical)
	case "b":
		return v.W[0] == "true"
	case "z":
		return nil
	case "o":
		m := map[string]any{}
		for _, mem := range v.M {
			m[KeyString(mem.Key)] = Concrete(mem.V, rng, canonical)
		}
		if !canonical && rng.Intn(5) == 0 {
			b, err := json.Marshal(m)
			if err == nil {
				return json.RawMessage(b)
			}
		}
		return m
	case "a":
		arr := make([]any, len(v.E))
		for i, e := range v.E {
			arr[i] = Concrete(e, rng, canonical)
		}
		return arr
	}
	panic("unknown value kind " + v.K)
}

// Row is one stored row of a case.
type Row struct {
	Doc    int            `json:"doc"` // 1-based catalogue index
	ID     string         `json:"id"`
	Part   int            `json:"part"`
	Vals   map[string]int `json:"vals"`
	Copies int            `json:"copies"`
}

// RowValue builds the row's concrete map: the catalogue document plus the
// members RowDoc (SearchCatalog.tla) adds.
func RowValue(cat *Catalog, r Row, rng *rand.Rand, canonical bool) map[string]any {
	doc := cat.Docs[r.Doc-1]
	m := map[string]any{}
	for _, mem := range doc.M {
		m[KeyString(mem.Key)] = Concrete(mem.V, rng, canonical)
	}
	m["id"] = r.ID
	if r.Part != 0 {
		m["p"] = fmt.Sprintf("p%d", r.Part)
	}
	for _, k := range []string{"k1", "k2"} {
		if v, ok := r.Vals[k]; ok && v != -1 {
			m[k] = numberValue(fmt.Sprintf("i%d", v), rng, canonical)
		}
	}
	return m
}

// RowEntries lists the concrete bloom entries the specification assigns to a
// row (catalogue entries of its document plus the added members').
func RowEntries(cat *Catalog, r Row, tok string) (fields, tokens, fieldTokens []string) {
	e := cat.Entries[r.Doc-1]
	for _, p := range e.Paths {
		fields = append(fields, PathString(p))
	}
	toks, fts := e.TokensWS, e.FTWS
	if tok == "whole" {
		toks, fts = e.TokensWhole, e.FTWhole
	}
	for _, t := range toks {
		tokens = append(tokens, TokenString(t))
	}
	for _, ft := range fts {
		fieldTokens = append(fieldTokens, PathString(ft[0])+"::"+TokenString(ft[1]))
	}
	add := func(key, text string) {
		fields = append(fields, key)
		tokens = append(tokens, text)
		fieldTokens = append(fieldTokens, key+"::"+text)
	}
	add("id", r.ID)
	if r.Part != 0 {
		add("p", fmt.Sprintf("p%d", r.Part))
	}
	for _, k := range []string{"k1", "k2"} {
		if v, ok := r.Vals[k]; ok && v != -1 {
			add(k, fmt.Sprintf("%d", v))
		}
	}
	return
}

// WholeTokenizer is the deterministic custom tokenizer of the "whole"
// tokenization: the entire canonical text is the only token.
func WholeTokenizer(v string) []string {
	if v == "" {
		return nil
	}
	return []string{v}
}
