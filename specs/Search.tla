------------------------------- MODULE Search -------------------------------
(***************************************************************************)
(* The documented search semantics of bloomsearch (README "Search          *)
(* semantics", "Partitions", "MinMax Indexes", "Merging"; FILE_FORMAT.md)  *)
(* as constant-level TLA+ operators over abstract JSON documents, query    *)
(* expression trees and prefilter trees, plus an abstract model of the     *)
(* store (files of blocks of rows) and of the three-stage query pipeline   *)
(* (prefilter -> file filters -> block filters -> row verification) whose  *)
(* bloom filters are ARBITRARY supersets of their entries.                 *)
(*                                                                         *)
(* The operators are independent of the implementation's two JSON walkers: *)
(* documents are trees, keys are sequences of delimiter-free segments (so  *)
(* the key "a.b" is <<"a","b">>, "" is <<"e">>, "." is <<"e","e">>), and   *)
(* concrete strings are only ever BUILT from the abstract values by the    *)
(* harness, never parsed back.  SearchMonitor.tla evaluates these operators*)
(* on observations of the real engine; SearchDesign (below) checks the     *)
(* design theorems on the pipeline model.                                  *)
(***************************************************************************)
EXTENDS Integers, Sequences, FiniteSets, TLC

(***************************************************************************)
(* Values.  Every value is a record with the same fields:                  *)
(*   k : "s" string | "n" number | "b" bool | "z" null | "o" object | "a"  *)
(*   w : words of a string leaf; the single literal id of a number/bool    *)
(*   m : members <<[key |-> Seq(segment), v |-> value]>> of an object      *)
(*   e : elements of an array                                              *)
(***************************************************************************)
Str(ws)  == [k |-> "s", w |-> ws, m |-> <<>>, e |-> <<>>]
Num(n)   == [k |-> "n", w |-> <<n>>, m |-> <<>>, e |-> <<>>]
Bool(b)  == [k |-> "b", w |-> <<IF b THEN "true" ELSE "false">>, m |-> <<>>, e |-> <<>>]
Null     == [k |-> "z", w |-> <<>>, m |-> <<>>, e |-> <<>>]
Obj(ms)  == [k |-> "o", w |-> <<>>, m |-> ms, e |-> <<>>]
Arr(es)  == [k |-> "a", w |-> <<>>, m |-> <<>>, e |-> es]
Mem(key, v) == [key |-> key, v |-> v]

IsLeaf(v) == v.k \in {"s", "n", "b", "z"}

\* A path is a sequence of segments; its string is the segments joined by the
\* delimiter.  The only paths whose string is empty are <<>> and <<"e">>.
EmptyPath(p) == p = <<>> \/ p = <<"e">>

RECURSIVE Nodes(_, _)
\* every value node of a document with its path; array elements live at the
\* array's own path
Nodes(v, p) ==
  {[p |-> p, v |-> v]} \cup
  (IF v.k = "o" THEN UNION { Nodes(v.m[i].v, p \o v.m[i].key) : i \in 1..Len(v.m) }
   ELSE IF v.k = "a" THEN UNION { Nodes(v.e[i], p) : i \in 1..Len(v.e) }
   ELSE {})

\* Field-existence paths: every non-empty delimiter-split prefix of every
\* node's path (containers, leaves and key-internal prefixes alike)
Paths(doc) ==
  { q \in UNION { { SubSeq(n.p, 1, i) : i \in 1..Len(n.p) } : n \in Nodes(doc, <<>>) } : ~EmptyPath(q) }

\* primitive leaves with a non-empty path (a leaf under an empty path is skipped entirely)
Leaves(doc) == { n \in Nodes(doc, <<>>) : IsLeaf(n.v) /\ ~EmptyPath(n.p) }

\* Tokenizers.  "ws": whitespace split + lower-casing: one token per word (a
\* word id denotes the lower-cased word).  "whole": a deterministic custom
\* tokenizer returning the whole canonical text as its only token (nothing for
\* the empty string).  A token is a sequence of word ids.
LeafTokens(v, tok) ==
  IF v.k = "z" THEN {}
  ELSE IF tok = "ws" THEN { <<v.w[i]>> : i \in 1..Len(v.w) }
  ELSE IF v.w = <<>> THEN {} ELSE { v.w }

Tokens(doc, tok) == UNION { LeafTokens(n.v, tok) : n \in Leaves(doc) }
FieldTokens(doc, tok) == UNION { { <<n.p, t>> : t \in LeafTokens(n.v, tok) } : n \in Leaves(doc) }

\* Regex: abstract patterns over a leaf's canonical text
\*   "word" w : the text contains word w (case-insensitive substring, words are chosen substring-free)
\*   "exact" ws : the text is exactly the words ws (anchored)
\*   "any" : matches every text, including the empty string
PatternMatches(pat, v) ==
  /\ v.k # "z"
  /\ CASE pat.k = "word"  -> \E i \in 1..Len(v.w) : v.w[i] = pat.w[1]
       [] pat.k = "exact" -> v.w = pat.w
       [] pat.k = "any"   -> TRUE
       [] OTHER -> FALSE

IsPrefix(p, q) == Len(p) <= Len(q) /\ SubSeq(q, 1, Len(p)) = p
\* leaves at or beneath the field path; an empty field path matches nothing
RegexCondMatches(doc, f, pat) ==
  /\ ~EmptyPath(f)
  /\ \E n \in Leaves(doc) : IsPrefix(f, n.p) /\ PatternMatches(pat, n.v)

(***************************************************************************)
(* Expression trees.  One record shape for every node:                     *)
(*   t : "nil" (absent expression) | "nilcond" (CONDITION node with a nil  *)
(*       condition) | "unk" (unknown expression type) | "unkcond" (unknown *)
(*       condition type) | "and" | "or" | "f" Field | "t" Token | "ft"     *)
(*       FieldToken | "re" FieldRegex | "part" | "mm"                      *)
(*   f : field path; tok : token; pat : regex pattern; c : children        *)
(*   op, x, xs, lo, hi : prefilter condition; key : minmax field           *)
(* nil / nilcond are neutral (TRUE); empty OR is FALSE; empty AND is TRUE; *)
(* unknown nodes are FALSE.                                                *)
(***************************************************************************)
RECURSIVE EvalBloom(_, _, _)
EvalBloom(doc, e, tok) ==
  CASE e.t \in {"nil", "nilcond"} -> TRUE
    [] e.t = "f"   -> e.f \in Paths(doc)
    [] e.t = "t"   -> e.tok \in Tokens(doc, tok)
    [] e.t = "ft"  -> <<e.f, e.tok>> \in FieldTokens(doc, tok)
    [] e.t = "and" -> \A i \in 1..Len(e.c) : EvalBloom(doc, e.c[i], tok)
    [] e.t = "or"  -> \E i \in 1..Len(e.c) : EvalBloom(doc, e.c[i], tok)
    [] OTHER -> FALSE

RECURSIVE EvalRegex(_, _)
EvalRegex(doc, e) ==
  CASE e.t \in {"nil", "nilcond"} -> TRUE
    [] e.t = "re"  -> RegexCondMatches(doc, e.f, e.pat)
    [] e.t = "and" -> \A i \in 1..Len(e.c) : EvalRegex(doc, e.c[i])
    [] e.t = "or"  -> \E i \in 1..Len(e.c) : EvalRegex(doc, e.c[i])
    [] OTHER -> FALSE

RowMatches(doc, q, tok) == EvalBloom(doc, q.bloom, tok) /\ EvalRegex(doc, q.regex)

\* The bloom guard a regex tree contributes to pruning: Field(f) per condition.
\* (Soundness theorem: EvalRegex => EvalBloom of the guard.)
RECURSIVE RegexGuard(_)
RegexGuard(e) ==
  CASE e.t = "re"  -> [e EXCEPT !.t = "f"]
    [] e.t = "and" -> [e EXCEPT !.c = [i \in 1..Len(e.c) |-> RegexGuard(e.c[i])]]
    [] e.t = "or"  -> [e EXCEPT !.c = [i \in 1..Len(e.c) |-> RegexGuard(e.c[i])]]
    [] OTHER -> e

(***************************************************************************)
(* Prefilters over partitions (0 = no partition, otherwise ordered ids)    *)
(* and small integer minmax values.                                        *)
(***************************************************************************)
CondHolds(x, c) ==
  CASE c.op = "EQ"  -> x = c.x
    [] c.op = "NE"  -> x # c.x
    [] c.op = "GT"  -> x > c.x
    [] c.op = "GTE" -> x >= c.x
    [] c.op = "LT"  -> x < c.x
    [] c.op = "LTE" -> x <= c.x
    [] c.op = "IN"  -> \E i \in 1..Len(c.xs) : c.xs[i] = x
    [] c.op = "NOT_IN" -> \A i \in 1..Len(c.xs) : c.xs[i] # x
    [] c.op = "BETWEEN" -> c.lo <= x /\ x <= c.hi
    [] c.op = "NOT_BETWEEN" -> x < c.lo \/ x > c.hi
    [] OTHER -> FALSE

\* A row: [doc, part (0 = none), vals (function minmax key -> value or -1 = absent), copies]
RowHasKey(row, key, mmidx) == key \in mmidx /\ key \in DOMAIN row.vals /\ row.vals[key] # -1

RECURSIVE RowSatisfiesPre(_, _, _)
\* the row's OWN partition id and indexed values satisfy the prefilter
RowSatisfiesPre(row, e, mmidx) ==
  CASE e.t \in {"nil", "nilcond"} -> TRUE
    [] e.t = "part" -> row.part # 0 /\ CondHolds(row.part, e)
    [] e.t = "mm"   -> RowHasKey(row, e.key, mmidx) /\ CondHolds(row.vals[e.key], e)
    [] e.t = "and"  -> \A i \in 1..Len(e.c) : RowSatisfiesPre(row, e.c[i], mmidx)
    [] e.t = "or"   -> \E i \in 1..Len(e.c) : RowSatisfiesPre(row, e.c[i], mmidx)
    [] OTHER -> FALSE

\* Block metadata: [part, keys (set), lo, hi (functions key -> bound)]
\* "metadata satisfies a leaf": the recorded partition / some value of the
\* recorded range satisfies the condition
MetaLeafExact(blk, e) ==
  IF e.t = "part" THEN blk.part # 0 /\ CondHolds(blk.part, e)
  ELSE e.key \in blk.keys /\ \E x \in blk.lo[e.key]..blk.hi[e.key] : CondHolds(x, e)
\* the weakest bound on what may be included: the referenced metadata is present
MetaLeafPresent(blk, e) ==
  IF e.t = "part" THEN blk.part # 0 ELSE e.key \in blk.keys

RECURSIVE EvalPreMeta(_, _, _)
EvalPreMeta(blk, e, exact) ==
  CASE e.t \in {"nil", "nilcond"} -> TRUE
    [] e.t \in {"part", "mm"} -> IF exact THEN MetaLeafExact(blk, e) ELSE MetaLeafPresent(blk, e)
    [] e.t = "and"  -> \A i \in 1..Len(e.c) : EvalPreMeta(blk, e.c[i], exact)
    [] e.t = "or"   -> \E i \in 1..Len(e.c) : EvalPreMeta(blk, e.c[i], exact)
    [] OTHER -> FALSE

HasPrefilter(q) == q.pre.t # "nil"
=============================================================================
