SPECIFICATION Spec
CONSTANTS
  Names = {n1,n2,n3,n4}
  Writers = {"w1","w2"}
  MergeOn = TRUE
  MaxFaults = 1
  CrashOn = FALSE
  PowerLossOn = TRUE
  DirSyncOnRemove = TRUE
  Groups = 2
  GroupSize = 1
  TombSyncs = FALSE
  MaxIno = 8
INVARIANTS NoDuplicatesAfterMergeReturned
SYMMETRY NameSym
CHECK_DEADLOCK FALSE
