SPECIFICATION Spec
CONSTANTS
  NAtoms = 3
  KeepEarlier = TRUE
  Mode = "ctor"
INVARIANTS ConstructorsMean
CHECK_DEADLOCK FALSE
