#!/bin/sh
# Applies every kept seeded change to /repo in turn, runs the quick check of its property, reverts. Prints one line per seed.
cd /verif
for d in seeded/S*/; do
  prop=$(python3 -c "import json;print(json.load(open('$d/meta.json'))['property'])")
  res=$(sh tools/try_mutant.sh /verif/${d}patch.diff $prop 2>&1 | grep -E "^(VIOLATION|OK|INFRA|patch does not apply|repo dirty)" | head -1)
  echo "$(basename $d) $prop :: $res"
done
