"""Write-path family (C05..C10): WritePath.tla exhaustively checked by TLC,
the real engine driven through steered/faulted/stress programs by the Go
harness (cmd/wp), the recorded histories judged by WritePathMonitor.tla."""
import json
import os
import shutil
import time

from vcommon import (Infra, drive, BUILD, build_harness, copy_specs, log, monitor_report, run, scratch_dir, tlc,
                     tlc_errors, tlc_stats, tlc_violations, coverage_zero_actions)

PROPS = ["C05", "C06", "C07", "C08", "C09", "C10"]

DESIGN_CFGS = {
    "quick": ["WritePath_A.cfg", "WritePath_B.cfg"],
    "thorough": ["WritePath_A.cfg", "WritePath_B.cfg", "WritePath_C.cfg", "WritePath_D.cfg", "WritePath_E.cfg"],
}
LIVE_CFGS = {"quick": ["WritePath_live.cfg"], "thorough": ["WritePath_live.cfg", "WritePath_live2.cfg"]}

# which design invariants serve which property (evidence bookkeeping)
DESIGN_PROPS = {
    "C05": ["AtMostOnce", "StopNilDrained", "WaitersToldAtEnd", "EventuallyAnswered"],
    "C06": ["AckNilDurable", "AckErrAbsent", "NeverTwiceVisible", "RejectLeavesNoTrace"],
    "C07": ["AckOrder"],
    "C08": ["RefuseAfterStop", "NoLateStoreWork", "WaitersToldAtEnd", "StopNilDrained", "StopReturns"],
    "C09": ["Backpressure"],
    "C10": ["LimitFlushImmediate", "EventuallyAnswered"],
}


def design(tier, work):
    res = {"configs": [], "states": 0, "transitions": 0, "violations": [], "zero_actions": [], "wall_s": 0}
    t0 = time.time()
    for cfg in DESIGN_CFGS[tier]:
        rc, out, secs = tlc(work, "MCWritePath.tla", cfg, workers=16, timeout=1500)
        d, g = tlc_stats(out)
        errs = tlc_errors(out)
        v = tlc_violations(out)
        if v or errs or d == 0:
            res["violations"].append({"cfg": cfg, "violated": v, "errors": errs[:3]})
        res["configs"].append({"cfg": cfg, "distinct": d, "generated": g, "secs": round(secs, 1)})
        res["states"] += d
        res["transitions"] += g
    for cfg in LIVE_CFGS[tier]:
        rc, out, secs = tlc(work, "MCWritePath.tla", cfg, workers=16, timeout=1500)
        d, g = tlc_stats(out)
        errs = tlc_errors(out)
        v = tlc_violations(out)
        if v or errs or d == 0:
            res["violations"].append({"cfg": cfg, "violated": v, "errors": errs[:3]})
        res["configs"].append({"cfg": cfg, "distinct": d, "generated": g, "secs": round(secs, 1), "liveness": True})
        res["states"] += d
        res["transitions"] += g
    if tier == "thorough":
        # vacuity guard: per-action coverage of one exhaustive configuration
        rc, out, secs = tlc(work, "MCWritePath.tla", "WritePath_A.cfg", workers=16, timeout=1500, extra=["-coverage", "1"])
        res["zero_actions"] = coverage_zero_actions(out)
    res["wall_s"] = round(time.time() - t0, 1)
    return res


def run_monitor(work, traces):
    shutil.copyfile(traces, os.path.join(work, "traces.ndjson"))
    rc, out, secs = tlc(work, "WritePathMonitor.tla", "WritePathMonitor.cfg", workers=1, timeout=3000)
    errs = tlc_errors(out)
    if errs:
        raise Infra("monitor failed: %s\n%s" % (errs[:3], out[-2000:]))
    rep = monitor_report(out)
    d, g = tlc_stats(out)
    if d != rep["events"] + 1:
        raise Infra("monitor did not consume the whole trace file (%d states for %d events)" % (d, rep["events"]))
    return rep, secs


def compute(tier, seed):
    t0 = time.time()
    work = scratch_dir("wp")
    try:
        copy_specs(work)
        des = design(tier, work)
        wpbin = build_harness("wp")
        out = os.path.join(work, "run")
        txt, secs = drive([wpbin, "-out", out, "-tier", tier, "-seed", str(seed)], work, "writepath", timeout=3000)
        summary = json.load(open(os.path.join(out, "summary.json")))
        programs = json.load(open(os.path.join(out, "programs.json")))
        byt = {p["trace"]: p for p in programs}
        rep, msecs = run_monitor(work, os.path.join(out, "traces.ndjson"))
        viol = []
        if rep["violations"]:
            # reproduce before reporting: re-run exactly the violating programs
            bad = sorted(set(v["t"] for v in rep["violations"]))
            rp = os.path.join(work, "replay.json")
            json.dump([byt[t] for t in bad], open(rp, "w"))
            # outcomes that depend on which ready select case the runtime picks need not repeat at once: up to four
            # re-executions of the violating programs; a violation seen again in any of them is reproduced
            again = {}
            for attempt in range(4):
                out2 = os.path.join(work, "rerun%d" % attempt)
                rc, txt, _ = run([wpbin, "-out", out2, "-replay", rp, "-seed", str(seed)], timeout=3000, check=False)
                if rc != 0:
                    raise Infra("wp replay failed: " + txt[-2000:])
                rep2, _ = run_monitor(work, os.path.join(out2, "traces.ndjson"))
                for v in rep2["violations"]:
                    again.setdefault(bad[v["t"] - 1], set()).add(v["p"])
                if all(v["p"] in again.get(v["t"], set()) for v in rep["violations"]):
                    break
            events = {}
            for line in open(os.path.join(out, "traces.ndjson")):
                e = json.loads(line)
                if e["t"] in bad:
                    events.setdefault(e["t"], []).append(e)
            for v in rep["violations"]:
                prog = byt[v["t"]]["program"]
                viol.append({"pred": v["p"], "prop": v["p"][:3], "trace": v["t"], "seq": v["seq"],
                             "title": prog["name"],
                             "sig": {"pred": v["p"], "program": prog["name"].split("+")[0]},
                             "program": prog, "reproduced": v["p"] in again.get(v["t"], set()),
                             "events": [e for e in events.get(v["t"], []) if e["seq"] <= v["seq"] + 5][-120:]})
        # structural conformance: the recorded traces must be behaviours of WritePath.tla (drift is reported, not judged)
        import wptrace
        conf = wptrace.validate(work, os.path.join(out, "programs.json"), os.path.join(out, "traces.ndjson"),
                                TRACE_SAMPLE[tier], seed)
        if conf["errors"] and not conf["accepted"]:
            raise Infra("trace validation could not run: %s" % conf["errors"][:2])
        samples = [byt[t]["program"] for t in sorted(byt)[:400:57]]
        fams = {}
        for p in programs:
            k = p["program"]["name"].split("-")[0]
            fams[k] = fams.get(k, 0) + 1
        return {"design": des, "impl": {"traces": summary["traces"], "events": rep["events"], "unsettled": summary["unsettled"],
                                        "infeasible": summary["infeasible"], "stdio_bytes": summary["stdio_bytes"],
                                        "by_family": fams, "monitor_secs": round(msecs, 1), "harness_secs": round(secs, 1),
                                        "conformance": conf},
                "violations": viol, "samples": samples, "wall_s": round(time.time() - t0, 1)}
    finally:
        shutil.rmtree(work, ignore_errors=True)


TRACE_SAMPLE = {"quick": 96, "thorough": 2000}

LEVEL_TEXT = {
    "C05": "exactly-once answering",
    "C06": "truthful acknowledgements",
    "C07": "acknowledgement order",
    "C08": "Stop contract",
    "C09": "bounded backpressure",
    "C10": "flush without Flush",
}

PREDS = {
    "C05": ["C05_AtMostOnce", "C05_StopNilDrainedNow", "C05_NoSilentDrop", "C05_ReceivingCallersAnswered"],
    "C06": ["C06_AckNilDurable", "C06_AckErrAbsent", "C06_NeverTwiceVisible", "C06_RejectLeavesNoTrace", "C06_RefusedAbsent"],
    "C07": ["C07_AckOrder"],
    "C08": ["C08_RefuseAfterStop", "C08_NoLateStoreWork", "C08_StopReturnsByDeadline", "C08_StopLatency", "C08_WaitersTold", "C08_StopNilOnlyAfterAnswered"],
    "C09": ["C09_Backpressure", "C09_CanceledCallersReturn"],
    "C10": ["C10_LimitFlushImmediate", "C10_TimeFlush", "C10_TimedAllAnswered"],
}

# program families (name prefix) that exercise each property
RELEVANT = {
    "C05": None, "C06": None, "C07": ["A", "A2", "A3", "B2", "C", "F", "S", "L"],
    "C08": ["A", "B", "B2", "B3", "D", "D2", "D3", "D4", "E", "E2", "S", "P"], "C09": ["P", "P2", "D", "D2", "D3"], "C10": ["L", "T"],
}


def evidence(pid, tier, res):
    des, impl = res["design"], res["impl"]
    fams = impl["by_family"]
    rel = RELEVANT[pid]
    traces = sum(n for k, n in fams.items() if rel is None or k in rel)
    if des["violations"]:
        res["design_failed"] = des["violations"]
    coverage = {
        "states": des["states"], "transitions": des["transitions"],
        "traces_validated_against_impl": traces,
        "samples": res["samples"][:4],
        "design_configs": des["configs"],
        "design_properties": DESIGN_PROPS[pid],
        "monitor_predicates": PREDS[pid],
        "vacuity_zero_count_actions": des.get("zero_actions", []),
        "impl_traces_total": impl["traces"], "impl_events": impl["events"],
        "impl_traces_by_program_family": fams,
        "unsettled_traces": impl["unsettled"], "infeasible_schedules": impl["infeasible"],
        "structurally_accepted": impl["conformance"]["accepted"], "structurally_validated": impl["conformance"]["validated"],
        "eligible_for_structural_validation": impl["conformance"]["eligible"],
        "drift_traces": impl["conformance"]["rejected"][:10], "trace_validation_errors": impl["conformance"]["errors"][:5],
        "trace_validation_sample": impl["conformance"]["sample_trace"],
        "summary": "%d design states, %d real-engine traces judged" % (des["states"], traces),
    }
    assumptions = [
        "WritePath.tla abstracts a rows batch to one row in one file and store calls to create/close/update stages",
        "verdicts come only from WritePathMonitor.tla over histories recorded from the real engine; acknowledgements "
        "and visibility are observed at quiescent points detected from goroutine states",
        "fail-stop fault model: an injected store error means the call had no effect",
        "structural acceptance (WritePathTrace.tla) covers the programs inside the specification's abstraction (one row per batch, one "
        "partition, row-count trigger, failures at create/close/update); a late sender-side hook is moved before the consumer-side hook it fed",
    ]
    return "model_checking", coverage, assumptions
