SPECIFICATION Spec
CONSTANTS
  Dom <- DomWide
  NBlocks = 1
INVARIANTS AcceptImpliesSafe WriterLayoutAccepted
CHECK_DEADLOCK FALSE
