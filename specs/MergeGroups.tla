----------------------------- MODULE MergeGroups -----------------------------
(***************************************************************************)
(* Transcription of bloomsearch's merge planning (merge.go:                *)
(* identifyFileMergeGroups, hasMergeableBlockPair, processPartitionBlocks, *)
(* blockMergeKey, blocksWithinMergeLimits) into TLA+, with the unstable    *)
(* sort's tie order left nondeterministic, and the layout properties of    *)
(* C12 as invariants of its result.  TLC evaluates the algorithm on every  *)
(* population of the bounded domain.  MergeMonitor.tla evaluates the same  *)
(* invariants on what the real Merge produced.                             *)
(*                                                                         *)
(* A block is [part, keys, rows, usize, dsize]: partition id, minmax key   *)
(* set (as a set), row count, uncompressed bytes, on-disk footprint.       *)
(* A file is a sequence of blocks.                                         *)
(***************************************************************************)
EXTENDS Integers, Sequences, FiniteSets, TLC

CONSTANTS MRGRows,      \* MaxRowGroupRows
          MRGBytes,     \* MaxRowGroupBytes
          MaxFiles,     \* MaxFilesToMergePerOperation
          MaxFileSize   \* MaxFileSize

RECURSIVE SumSeq(_, _)
SumSeq(F(_), n) == IF n = 0 THEN 0 ELSE F(n) + SumSeq(F, n - 1)

FileSize(f) == LET D(i) == f[i].dsize IN SumSeq(D, Len(f))
FileRows(f) == LET R(i) == f[i].rows IN SumSeq(R, Len(f))
AvgBlock(f) == FileSize(f) \div (IF Len(f) > 0 THEN Len(f) ELSE 1)

MergeKey(b) == << b.part, b.keys >>
PairWithin(b1, b2) == b1.rows + b2.rows <= MRGRows /\ b1.usize + b2.usize <= MRGBytes

\* the sort's strict weak order: smaller average block size first, then smaller total size
Less(f, g) == AvgBlock(f) < AvgBlock(g) \/ (AvgBlock(f) = AvgBlock(g) /\ FileSize(f) < FileSize(g))
\* orders of the candidate indices the (unstable) sort may produce
Perms(n) == { p \in [1..n -> 1..n] : \A i, j \in 1..n : i # j => p[i] # p[j] }
SortedOrders(files) ==
  { p \in Perms(Len(files)) : \A i, j \in 1..Len(files) : i < j => ~Less(files[p[j]], files[p[i]]) }

\* hasMergeableBlockPair: some candidate block shares a merge key with a group block within pairwise limits
Mergeable(groupBlocks, f) ==
  \E i \in 1..Len(f) : \E j \in 1..Len(groupBlocks) :
      MergeKey(f[i]) = MergeKey(groupBlocks[j]) /\ PairWithin(f[i], groupBlocks[j])

RECURSIVE Concat(_, _)
Concat(files, idxs) == IF idxs = <<>> THEN <<>> ELSE files[Head(idxs)] \o Concat(files, Tail(idxs))

(***************************************************************************)
(* identifyFileMergeGroups over the candidates in sorted order `ord`.      *)
(* State of the outer loop: i, assigned, groups (seq of seq of file idx),  *)
(* total files in groups.  Inner loop: j, current group, its size.         *)
(***************************************************************************)
RECURSIVE Inner(_, _, _, _, _, _, _)
\* returns << group, assigned >>
Inner(files, ord, j, group, gsize, assigned, total) ==
  IF j > Len(ord) THEN << group, assigned >>
  ELSE IF ord[j] \in assigned THEN Inner(files, ord, j + 1, group, gsize, assigned, total)
  ELSE IF total + Len(group) + 1 > MaxFiles THEN << group, assigned >>
  ELSE LET f == files[ord[j]]
           newSize == gsize + FileSize(f) IN
       IF newSize > MaxFileSize THEN Inner(files, ord, j + 1, group, gsize, assigned, total)
       ELSE IF Mergeable(Concat(files, group), f)
              THEN Inner(files, ord, j + 1, Append(group, ord[j]), newSize, assigned \cup {ord[j]}, total)
              ELSE Inner(files, ord, j + 1, group, gsize, assigned, total)

RECURSIVE Outer(_, _, _, _, _, _)
Outer(files, ord, i, assigned, groups, total) ==
  IF i > Len(ord) THEN groups
  ELSE IF ord[i] \in assigned THEN Outer(files, ord, i + 1, assigned, groups, total)
  ELSE IF total >= MaxFiles THEN groups
  ELSE LET r == Inner(files, ord, i + 1, << ord[i] >>, FileSize(files[ord[i]]), assigned \cup {ord[i]}, total)
           g == r[1] IN
       IF Len(g) > 1 THEN Outer(files, ord, i + 1, r[2], Append(groups, g), total + Len(g))
                     ELSE Outer(files, ord, i + 1, r[2], groups, total)

FileGroups(files, ord) == IF Len(files) < 2 THEN <<>> ELSE Outer(files, ord, 1, {}, <<>>, 0)

(***************************************************************************)
(* processPartitionBlocks over one bucket (blocks sharing a merge key, in  *)
(* their order of appearance): greedy seed + cumulative fit.               *)
(***************************************************************************)
RECURSIVE Collect(_, _, _, _, _, _, _)
\* returns << group (seq of positions in bucket), used >>
Collect(bucket, s, o, group, rows, size, used) ==
  IF o > Len(bucket) THEN << group, used >>
  ELSE IF o \in used \/ ~PairWithin(bucket[s], bucket[o])
         THEN Collect(bucket, s, o + 1, group, rows, size, used)
  ELSE IF rows + bucket[o].rows <= MRGRows /\ size + bucket[o].usize <= MRGBytes
         THEN Collect(bucket, s, o + 1, Append(group, o), rows + bucket[o].rows, size + bucket[o].usize, used \cup {o})
         ELSE Collect(bucket, s, o + 1, group, rows, size, used)

RECURSIVE Seeds(_, _, _, _)
Seeds(bucket, s, used, out) ==
  IF s > Len(bucket) THEN out
  ELSE IF s \in used THEN Seeds(bucket, s + 1, used, out)
  ELSE LET r == Collect(bucket, s, s + 1, << s >>, bucket[s].rows, bucket[s].usize, used \cup {s})
       IN Seeds(bucket, s + 1, r[2], Append(out, r[1]))

BucketGroups(bucket) == Seeds(bucket, 1, {}, <<>>)

\* the buckets of a group's blocks
Keys(blocks) == { MergeKey(blocks[i]) : i \in 1..Len(blocks) }
RECURSIVE Filter(_, _)
Filter(blocks, k) ==
  IF blocks = <<>> THEN <<>>
  ELSE (IF MergeKey(Head(blocks)) = k THEN << Head(blocks) >> ELSE <<>>) \o Filter(Tail(blocks), k)

(***************************************************************************)
(* C12                                                                     *)
(***************************************************************************)
OutBlockOK(bucket, g) ==
  LET R(i) == bucket[g[i]].rows
      U(i) == bucket[g[i]].usize IN
  Len(g) > 1 => (SumSeq(R, Len(g)) <= MRGRows /\ SumSeq(U, Len(g)) <= MRGBytes)

PlanOK(files, ord) ==
  LET groups == FileGroups(files, ord)
      NG(i) == Len(groups[i]) IN
  /\ SumSeq(NG, Len(groups)) <= MaxFiles                                          \* at most MaxFiles sources removed
  /\ \A gi \in 1..Len(groups) :
       LET blocks == Concat(files, groups[gi])
           FS(i) == FileSize(files[groups[gi][i]]) IN
       /\ Len(groups[gi]) >= 2
       /\ SumSeq(FS, Len(groups[gi])) <= MaxFileSize                             \* merged files fit MaxFileSize
       /\ \A k \in Keys(blocks) :
            \A g \in { BucketGroups(Filter(blocks, k))[x] : x \in 1..Len(BucketGroups(Filter(blocks, k))) } :
               OutBlockOK(Filter(blocks, k), g)                                  \* combined blocks within limits, one key
  /\ \A i, j \in 1..Len(groups) : i # j =>                                        \* no file in two groups
       { groups[i][x] : x \in 1..Len(groups[i]) } \cap { groups[j][x] : x \in 1..Len(groups[j]) } = {}

\* bounded population for TLC
CONSTANTS NFiles, RowChoices
Attr == { << 1, {} >>, << 1, {"k"} >>, << 2, {} >> }
BlockDom == { [part |-> a[1], keys |-> a[2], rows |-> r, usize |-> r, dsize |-> r + 1] : a \in Attr, r \in RowChoices }
FileDom == { << b >> : b \in BlockDom } \cup { << b1, b2 >> : b1 \in BlockDom, b2 \in BlockDom }

VARIABLES files, ord
vars == << files, ord >>
Init == files \in [1..NFiles -> FileDom] /\ ord = << >>
Next == ord = << >> /\ files' = files /\ ord' \in SortedOrders(files)
Spec == Init /\ [][Next]_vars
C12_PlanRespectsLimits == ord # << >> => PlanOK(files, ord)
=============================================================================
