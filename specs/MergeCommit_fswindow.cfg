SPECIFICATION Spec
CONSTANTS
  Discipline = "fs"
  MaxFaults = 0
  WithQuery = TRUE
  AllowFSWindow = FALSE
INVARIANTS QuerySnapshotSound
CHECK_DEADLOCK FALSE
