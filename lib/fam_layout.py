"""File-layout family (C19): FileLayoutOps.tla transcribes the readers' framing
checks (Accept) and states what an accepted file guarantees (Safe); TLC checks
Accept => Safe over a small integer domain.  cmd/layout crafts CRC-consistent
footers over a landmark-relative domain and corrupts engine-written files;
FileLayoutMonitor.tla (TLC) judges what the real readers did, evaluating the
same Accept / Safe on every replayed tuple."""
import json
import os
import re
import shutil
import time

from vcommon import Infra, drive, build_harness, copy_specs, monitor_report, run, scratch_dir, tlc, tlc_errors, tlc_stats, tlc_violations

PROPS = ["C19"]
DESIGN = {"quick": ["FileLayout_1.cfg", "FileLayout_2.cfg"], "thorough": ["FileLayout_1.cfg", "FileLayout_2.cfg", "FileLayout_wide.cfg"]}


def monitor(work, obs):
    shutil.copyfile(obs, os.path.join(work, "obs.ndjson"))
    rc, out, secs = tlc(work, "FileLayoutMonitor.tla", "FileLayoutMonitor.cfg", workers=1, timeout=3000, heap="8g")
    errs = tlc_errors(out)
    if errs:
        raise Infra("layout monitor failed: %s\n%s" % (errs[:3], out[-2000:]))
    rep = monitor_report(out)
    m = re.search(r'<<"MONITOR-STATS", (".*")>>', out)
    return rep, (json.loads(json.loads(m.group(1))) if m else {})


def compute(tier, seed):
    t0 = time.time()
    work = scratch_dir("layout")
    try:
        copy_specs(work)
        design = {"runs": [], "states": 0, "transitions": 0, "violations": []}
        for cfg in DESIGN[tier]:
            rc, out, secs = tlc(work, "FileLayout.tla", cfg, workers=16, timeout=5400, heap="12g")
            d, g = tlc_stats(out)
            v = tlc_violations(out) + tlc_errors(out)
            if v or d == 0 or "No error has been found" not in out:
                design["violations"].append({"cfg": cfg, "violated": v or ["did not complete"]})
            design["runs"].append({"cfg": cfg, "distinct": d, "generated": g, "secs": round(secs, 1)})
            design["states"] += d
            design["transitions"] += g
        lbin = build_harness("layout")
        outdir = os.path.join(work, "run")
        txt, hsecs = drive([lbin, "-out", outdir, "-seed", str(seed), "-tier", tier], work, "layout", timeout=5400)
        summary = json.load(open(os.path.join(outdir, "summary.json")))
        rep, stats = monitor(work, os.path.join(outdir, "obs.ndjson"))
        obs, cases = {}, {}
        for line in open(os.path.join(outdir, "obs.ndjson")):
            o = json.loads(line)
            obs[o["id"]] = o
        for line in open(os.path.join(outdir, "cases.ndjson")):
            c = json.loads(line)
            cases[c["id"]] = c
        viol, drift = [], 0
        real = [v for v in rep["violations"] if not v["p"].startswith("DRIFT")]
        drift = len(rep["violations"]) - len(real)
        if real:
            out2 = os.path.join(work, "rerun")
            rc, txt, _ = run([lbin, "-out", out2, "-seed", str(seed), "-tier", tier], timeout=5400, check=False)
            if rc != 0:
                raise Infra("layout harness re-run failed: " + txt[-2000:])
            rep2, _ = monitor(work, os.path.join(out2, "obs.ndjson"))
            again = set((v["id"], v["p"]) for v in rep2["violations"])
            # an outcome that depends on which worker gets which pooled buffer does not repeat case by case; a predicate that
            # is violated in three independent executions of the same cases (whichever cases it hits) is reproduced all the same
            preds2 = set(v["p"] for v in rep2["violations"])
            loose = set()
            wandering = set(v["p"] for v in real if (v["id"], v["p"]) not in again and v["p"] in preds2)
            if wandering:
                out3 = os.path.join(work, "rerun3")
                rc, txt, _ = run([lbin, "-out", out3, "-seed", str(seed), "-tier", tier], timeout=5400, check=False)
                if rc != 0:
                    raise Infra("layout harness second re-run failed: " + txt[-2000:])
                rep3, _ = monitor(work, os.path.join(out3, "obs.ndjson"))
                loose = wandering & set(v["p"] for v in rep3["violations"])
            for v in real:
                o = obs[v["id"]]
                viol.append({"pred": v["p"], "prop": v["p"][:3], "title": "%s case %d varied=%s mut=%s" % (o["class"], o["id"], o["varied"], o["mut"]),
                             "sig": {"pred": v["p"], "class": o["class"]}, "reproduced": (v["id"], v["p"]) in again or v["p"] in loose,
                             "reproduced_how": "same case" if (v["id"], v["p"]) in again else
                                               ("same predicate in three executions" if v["p"] in loose else "no"),
                             "case": cases.get(v["id"]), "observation": o})
        ids = sorted(obs)
        samples = [{"case": cases[i], "accept": obs[i]["accept"], "rows": obs[i]["rows"], "p_qerr": obs[i]["p_qerr"]} for i in ids[::max(1, len(ids) // 5)]][:5]
        return {"design": design, "impl": {"cases": len(obs), "stats": stats, "child_crashes": summary["child_crashes"], "drift": drift,
                                           "harness_secs": round(hsecs, 1)},
                "violations": viol, "samples": samples, "wall_s": round(time.time() - t0, 1)}
    finally:
        shutil.rmtree(work, ignore_errors=True)


def evidence(pid, tier, res):
    des, impl = res["design"], res["impl"]
    if des["violations"]:
        res["design_failed"] = des["violations"]
    st = impl["stats"]
    nontrivial = st.get("framing_rejected", 0) + st.get("corrupt_changed", 0)
    cov = {"evaluations": impl["cases"], "distinct_nontrivial": nontrivial,
           "rule": "framing cases: the engine-written footer with one field, a sampled pair of fields, or a small filter section at every region offset "
                   "replaced by landmark-relative values (negatives, 0, every boundary +-1, near-MaxInt32/64); corruption cases: flip/burst/zero/"
                   "truncate/extend/splice at seeded positions of none/snappy/zstd files. Non-trivial = framing the reader must reject, or a "
                   "mutation that changed the bytes; cases are distinct by construction (deduplicated by id over a seeded generator)",
           "samples": res["samples"], "states": des["states"], "transitions": des["transitions"], "design_runs": des["runs"],
           "monitor_stats": st, "drift_cases": impl["drift"], "child_crashes": impl["child_crashes"],
           "summary": "%d malformed/corrupted files judged (%d framing rejected, %d corrupted), %d design states"
                      % (impl["cases"], st.get("framing_rejected", 0), st.get("corrupt_changed", 0), des["states"])}
    assumptions = ["framing tuples reach the readers through a CRC-consistent footer (ReadFileMetadata); MetaStore-held metadata is varied only in the filter "
                   "fields the engine itself validates; absurd row-data sizes or UncompressedSize handed over by a MetaStore are not exercised",
                   "a read request past the end of a file that is shorter than MetaStore-held metadata says, answered by an error, is a clean failure",
                   "allocation is TotalAlloc over ReadFileMetadata + helpers + one query, bounded by 4 x file size + 2 MiB (pooled buffers have a minimum size)",
                   "byte positions of corruptions are sampled; the corruption classes and the framing theorem come from the specification"]
    return "fault_enumeration", cov, assumptions
