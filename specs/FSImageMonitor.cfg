SPECIFICATION Spec
CONSTANTS
  ObsFile = "images.ndjson"
INVARIANTS Report Stats
POSTCONDITION AllConsumed
CHECK_DEADLOCK FALSE
