SPECIFICATION Spec
CONSTANTS
  NAtoms = 3
  KeepEarlier = FALSE
  Mode = "chain"
INVARIANTS BuilderMeansConjunction
CHECK_DEADLOCK FALSE
