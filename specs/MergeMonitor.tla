---------------------------- MODULE MergeMonitor ----------------------------
(***************************************************************************)
(* Judges what the real Merge did (cmd/merge observations):                *)
(*   kind "plan"  : a Merge over a random population and limits (C12, C11) *)
(*   kind "fault" : a store failure injected at one call position of a     *)
(*                  multi-group merge (C13)                                *)
(*   kind "second": a second Merge while the first is held in a store call *)
(*   kind "query" : a query paused at a store call while a merge advanced  *)
(*                  to a chosen point, then resumed (C14)                  *)
(* The layout predicates are those of MergeGroups.tla (PlanOK) restated    *)
(* over the observed before/after populations; the commit predicates are   *)
(* those of MergeCommit.tla.                                               *)
(***************************************************************************)
EXTENDS MergeGroupsOps, Json

CONSTANT ObsFile
Obs == ndJsonDeserialize(ObsFile)
N == Len(Obs)
VARIABLES l, viol
vars == << l, viol >>

Range(s) == { s[i] : i \in 1..Len(s) }
Count(s, x) == Cardinality({ i \in 1..Len(s) : s[i] = x })
SameBag(s, t) == Len(s) = Len(t) /\ \A x \in Range(s) \cup Range(t) : Count(s, x) = Count(t, x)

\* blocks of a population as a set of << file index, block index >>
BlockIds(pop) == UNION { { << f, b >> : b \in 1..Len(pop[f].blocks) } : f \in 1..Len(pop) }
Blk(pop, id) == pop[id[1]].blocks[id[2]]
Ptrs(pop) == { pop[f].ptr : f \in 1..Len(pop) }
FileByPtr(pop, p) == CHOOSE f \in 1..Len(pop) : pop[f].ptr = p

\* which blocks of `before` contributed rows to block a of `after`
Contrib(o, a) == { b \in BlockIds(o.before) : Range(Blk(o.before, b).rows) \cap Range(Blk(o.after, a).rows) # {} }
NewFiles(o) == { f \in 1..Len(o.after) : o.after[f].ptr \notin Ptrs(o.before) }
RemovedPtrs(o) == Ptrs(o.before) \ Ptrs(o.after)
\* source files of an output file: files of `before` that contributed rows to it
SourceFiles(o, f) == { b[1] : b \in UNION { Contrib(o, << f, k >>) : k \in 1..Len(o.after[f].blocks) } }
\* the population the planner met, in the specification's terms (the planner reads the metadata's sizes)
SpecFiles(o) == [f \in 1..Len(o.before) |->
                   [b \in 1..Len(o.before[f].blocks) |->
                      LET x == o.before[f].blocks[b] IN
                      [part |-> x.part, keys |-> Range(x.keys), rows |-> x.nrows, usize |-> x.msize, dsize |-> x.dsize]]]
Lims(o) == [mr |-> o.limits.mrg_rows, mb |-> o.limits.mrg_bytes, mf |-> o.limits.max_files, ms |-> o.limits.max_file_size]
GroupSets(gs) == { { gs[i][x] : x \in 1..Len(gs[i]) } : i \in 1..Len(gs) }
RECURSIVE SumSet(_, _)
SumSet(F(_), S) == IF S = {} THEN 0 ELSE LET x == CHOOSE y \in S : TRUE IN F(x) + SumSet(F, S \ {x})

Committed(o) == \E i \in 1..Len(o.updates) : o.updates[i].ok = 1 /\ o.updates[i].deletes > 0

(***************************************************************************)
(* C12                                                                     *)
(***************************************************************************)
C12_CombinedWithinLimits(o) ==
  \A a \in BlockIds(o.after) : Cardinality(Contrib(o, a)) > 1 =>
      (Blk(o.after, a).nrows <= o.limits.mrg_rows /\ Blk(o.after, a).usize <= o.limits.mrg_bytes
       /\ Len(Blk(o.after, a).rows) <= o.limits.mrg_rows)
C12_CombinedHomogeneous(o) ==
  \A a \in BlockIds(o.after) : \A b \in Contrib(o, a) :
      Blk(o.before, b).part = Blk(o.after, a).part
      /\ (Cardinality(Contrib(o, a)) > 1 => \A b2 \in Contrib(o, a) : Range(Blk(o.before, b).keys) = Range(Blk(o.before, b2).keys))
C12_AtMostMaxFilesRemoved(o) ==
  /\ Cardinality(RemovedPtrs(o)) <= o.limits.max_files
  /\ \A i \in 1..Len(o.updates) : o.updates[i].deletes <= o.limits.max_files
C12_OutputWithinMaxFileSize(o) ==
  \A f \in NewFiles(o) : LET S(x) == o.before[x].size IN SumSet(S, SourceFiles(o, f)) <= o.limits.max_file_size

(***************************************************************************)
(* C11 (structural half, for every merge this driver ran)                  *)
(***************************************************************************)
C11_BagUnchanged(o) == (o.kind = "plan" /\ o.ret = "nil") => (SameBag(o.rows_before, o.rows_after) /\ ~o.qerr_after)
C11_KeysKept(o) ==
  o.kind = "plan" => \A a \in BlockIds(o.after) : \A b \in Contrib(o, a) :
      Range(Blk(o.before, b).keys) = Range(Blk(o.after, a).keys)

(***************************************************************************)
(* C13                                                                     *)
(***************************************************************************)
IsFaulty(o) == o.kind \in {"fault", "second"}
\* committed: every source unreferenced, every row still there exactly once;
\* not committed: the referenced files are exactly those of before, untouched
C13_AllOrNothing(o) ==
  IsFaulty(o) =>
     IF Committed(o)
       THEN SameBag(o.rows_before, o.rows_after) /\ ~o.qerr_after
       ELSE /\ Ptrs(o.after) = Ptrs(o.before)
            /\ SameBag(o.rows_before, o.rows_after) /\ ~o.qerr_after
            /\ o.orphans = 0
C13_SourcesTombstonedOnlyAfterCommit(o) ==
  \A i \in 1..Len(o.tombs) : (o.tombs[i].ptr \in Ptrs(o.before)) => o.tombs[i].after_commit
C13_ReturnTruthful(o) ==
  (o.kind \in {"fault", "plan"}) =>
     LET tombFailed == \E i \in 1..Len(o.tombs) : o.tombs[i].after_commit /\ ~o.tombs[i].ok /\ o.tombs[i].ptr \in Ptrs(o.before)
         noGroups == Len(o.updates) = 0 /\ Ptrs(o.after) = Ptrs(o.before) IN
     /\ (o.ret = "nil") => ((Committed(o) /\ ~tombFailed) \/ noGroups)
     /\ (o.ret = "cleanup") <=> (Committed(o) /\ tombFailed)
     /\ (o.ret = "cleanup") => ~o.stats_nil
     /\ (o.ret = "err") => (~Committed(o) /\ o.stats_nil)
     /\ Committed(o) => o.ret \in {"nil", "cleanup"}
C13_SingleFlight(o) == (o.kind = "second" /\ o.reached) => o.second = "inprogress"

(***************************************************************************)
(* C14                                                                     *)
(***************************************************************************)
C14_QuerySnapshotSound(o) ==
  (o.kind = "query" /\ ~o.query.err) =>
      /\ \A r \in Range(o.query.acked) : Count(o.query.res, r) = 1
      /\ Range(o.query.res) \subseteq Range(o.query.acked)
C14_NothingInvented(o) == o.kind = "query" => Range(o.query.res) \subseteq Range(o.query.acked)

\* conformance of the real planner with its transcription: the sets of source files the real Merge combined are the
\* groups the specification's planner forms for some order the (unstable) sort may produce (reported as drift)
DRIFT_FileGroupsAsSpecified(o) ==
  (o.kind = "plan" /\ o.ret = "nil" /\ Len(o.before) <= 5) =>
     { SourceFiles(o, f) : f \in NewFiles(o) } \in { GroupSets(FileGroups(Lims(o), SpecFiles(o), ord)) : ord \in SortedOrders(SpecFiles(o)) }

C27_Silent(o) == o.stdio = 0

Props(o) ==
  [ C12_CombinedWithinLimits |-> C12_CombinedWithinLimits(o), C12_CombinedHomogeneous |-> C12_CombinedHomogeneous(o),
    C12_AtMostMaxFilesRemoved |-> C12_AtMostMaxFilesRemoved(o), C12_OutputWithinMaxFileSize |-> C12_OutputWithinMaxFileSize(o),
    C11_BagUnchanged |-> C11_BagUnchanged(o), C11_KeysKept |-> C11_KeysKept(o),
    C13_AllOrNothing |-> C13_AllOrNothing(o), C13_SourcesTombstonedOnlyAfterCommit |-> C13_SourcesTombstonedOnlyAfterCommit(o),
    C13_ReturnTruthful |-> C13_ReturnTruthful(o), C13_SingleFlight |-> C13_SingleFlight(o),
    C14_QuerySnapshotSound |-> C14_QuerySnapshotSound(o), C14_NothingInvented |-> C14_NothingInvented(o),
    DRIFT_FileGroupsAsSpecified |-> DRIFT_FileGroupsAsSpecified(o),
    C27_Silent |-> C27_Silent(o) ]

Init == l = 1 /\ viol = {}
Next == /\ l <= N
        /\ LET o == Obs[l] pr == Props(o) IN
             viol' = viol \cup { [p |-> n, id |-> o.id] : n \in { x \in DOMAIN pr : ~pr[x] } }
        /\ l' = l + 1
Spec == Init /\ [][Next]_vars
Report == (l = N + 1) => PrintT(<<"MONITOR-REPORT", ToJson([events |-> N, violations |-> viol])>>)
Stats == (l = N + 1) => PrintT(<<"MONITOR-STATS", ToJson([
    planner_conformance_checked |-> Cardinality({ i \in 1..N : Obs[i].kind = "plan" /\ Obs[i].ret = "nil" /\ Len(Obs[i].before) <= 5 /\ NewFiles(Obs[i]) # {} }),
    merged |-> Cardinality({ i \in 1..N : Obs[i].kind = "plan" /\ Committed(Obs[i]) }),
    combined |-> Cardinality({ i \in 1..N : \E a \in BlockIds(Obs[i].after) : Cardinality(Contrib(Obs[i], a)) > 1 }),
    faults_reached |-> Cardinality({ i \in 1..N : Obs[i].kind = "fault" /\ Obs[i].reached }),
    faults_committed |-> Cardinality({ i \in 1..N : Obs[i].kind = "fault" /\ Committed(Obs[i]) }),
    queries_paused |-> Cardinality({ i \in 1..N : Obs[i].kind = "query" /\ Obs[i].reached }),
    query_errors |-> Cardinality({ i \in 1..N : Obs[i].kind = "query" /\ Obs[i].query.err }) ])>>)
AllConsumed == TLCGet("stats").diameter = N + 1
=============================================================================
