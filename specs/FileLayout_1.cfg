SPECIFICATION Spec
CONSTANTS
  Dom <- DomMid
  NBlocks = 1
INVARIANTS AcceptImpliesSafe WriterLayoutAccepted
CHECK_DEADLOCK FALSE
