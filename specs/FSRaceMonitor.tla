--------------------------- MODULE FSRaceMonitor ---------------------------
(***************************************************************************)
(* Judges the concurrent histories of cmd/fs -mode races: one store call    *)
(* held at a filesystem mutation boundary while other writers run whole     *)
(* calls on the same names (the implementation-side counterpart of          *)
(* FSStore.tla's concurrent writers with forced collisions). After every    *)
(* completed call the scan must list exactly the files whose Close          *)
(* succeeded and that were not tombstoned since - NeverExposes / NoClobber  *)
(* / ScanExact of FSStore.tla and FSCalls.tla, observed from outside.       *)
(* The promise is recomputed here from the calls' own results; names whose  *)
(* fate a failed or overlapping call leaves open are taken out of the       *)
(* comparison by the driver (`scan` and `want` are already filtered).       *)
(***************************************************************************)
EXTENDS Integers, Sequences, FiniteSets, TLC, Json

CONSTANT ObsFile
Obs == ndJsonDeserialize(ObsFile)
NObs == Len(Obs)
VARIABLES l, viol
vars == << l, viol >>

SetOf(s) == { s[i] : i \in 1..Len(s) }
\* the promise after the first i steps, from the results alone: a successful Close adds its name, a successful
\* tombstone (not the held one, whose overlap the driver accounts for) removes it
RECURSIVE Promise(_, _)
Promise(o, i) ==
  IF i = 0 THEN {} ELSE
  LET s == o.steps[i] p == Promise(o, i - 1) IN
    IF s.res # "ok" THEN p
    ELSE IF s.op \in {"close", "close (held)"} THEN p \cup {s.name}
    ELSE IF s.op = "tombstone" THEN p \ {s.name}
    ELSE p

C16_RaceScanExact(o) == \A i \in 1..Len(o.steps) : SetOf(o.steps[i].scan) = SetOf(o.steps[i].want)
C16_RaceBytesExact(o) == \A i \in 1..Len(o.steps) : o.steps[i].bytes = 0
C16_RaceNeverExposes(o) == \A i \in 1..Len(o.steps) : o.steps[i].stray = 0
C16_RaceTombstoneLeavesNothing(o) == o.final_tmp = 0
\* the driver's bookkeeping never promises a name the results do not (its filtered promise is a subset of the recomputed one)
DRIFT_RacePromiseFromResults(o) == \A i \in 1..Len(o.steps) : SetOf(o.steps[i].want) \subseteq Promise(o, i)
C27_Silent(o) == o.stdio = 0

Props(o) ==
  [ C16_RaceScanExact |-> C16_RaceScanExact(o), C16_RaceBytesExact |-> C16_RaceBytesExact(o),
    C16_RaceNeverExposes |-> C16_RaceNeverExposes(o), C16_RaceTombstoneLeavesNothing |-> C16_RaceTombstoneLeavesNothing(o),
    DRIFT_RacePromiseFromResults |-> DRIFT_RacePromiseFromResults(o), C27_Silent |-> C27_Silent(o) ]

Init == l = 1 /\ viol = {}
Next == /\ l <= NObs
        /\ LET o == Obs[l] pr == Props(o) IN
             viol' = viol \cup { [p |-> n, id |-> o.id] : n \in { x \in DOMAIN pr : ~pr[x] } }
        /\ l' = l + 1
Spec == Init /\ [][Next]_vars
Report == (l = NObs + 1) => PrintT(<<"MONITOR-REPORT", ToJson([events |-> NObs, violations |-> viol])>>)
Count(P(_)) == Cardinality({ i \in 1..NObs : P(Obs[i]) })
Reached(o) == o.reached
HeldCreate(o) == o.reached /\ o.held_op = "create"
Stats == (l = NObs + 1) => PrintT(<<"MONITOR-STATS", ToJson([races |-> NObs, reached |-> Count(Reached), held_create |-> Count(HeldCreate)])>>)
AllConsumed == TLCGet("stats").diameter = NObs + 1
=============================================================================
