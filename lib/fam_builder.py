"""Builder family (C25): BuilderOps.tla gives expression trees their meaning
(Eval over truth assignments) and models the constructors' flattening and the
builder; Builder.tla checks ConstructorsMean and BuilderMeansConjunction with
TLC over bounded trees / call sequences.  cmd/builder runs seeded programs
over the real API (shared bases, JSON images composed further, nil-condition /
unknown / empty nodes, builder chains) and evaluates everything on every truth
assignment; BuilderMonitor.tla (TLC) compares with Eval of the written tree."""
import json
import os
import re
import shutil
import time

from vcommon import Infra, drive, build_harness, copy_specs, monitor_report, run, scratch_dir, tlc, tlc_errors, tlc_stats, tlc_violations

PROPS = ["C25"]
DESIGN = ["Builder_ctor.cfg", "Builder_chain.cfg"]
EXPECTED = [("Builder_defect.cfg", "BuilderMeansConjunction")]


def monitor(work, obs):
    shutil.copyfile(obs, os.path.join(work, "obs.ndjson"))
    rc, out, secs = tlc(work, "BuilderMonitor.tla", "BuilderMonitor.cfg", workers=1, timeout=3000, heap="8g")
    errs = tlc_errors(out)
    if errs:
        raise Infra("builder monitor failed: %s\n%s" % (errs[:3], out[-2000:]))
    rep = monitor_report(out)
    m = re.search(r'<<"MONITOR-STATS", (".*")>>', out)
    return rep, (json.loads(json.loads(m.group(1))) if m else {})


def compute(tier, seed):
    t0 = time.time()
    work = scratch_dir("builder")
    try:
        copy_specs(work)
        design = {"runs": [], "states": 0, "transitions": 0, "violations": []}
        for cfg in DESIGN:
            rc, out, secs = tlc(work, "Builder.tla", cfg, workers=16, timeout=3000, heap="12g")
            d, g = tlc_stats(out)
            v = tlc_violations(out) + tlc_errors(out)
            if v or d == 0 or "No error has been found" not in out:
                design["violations"].append({"cfg": cfg, "violated": v or ["did not complete"]})
            design["runs"].append({"cfg": cfg, "distinct": d, "generated": g, "secs": round(secs, 1)})
            design["states"] += d
            design["transitions"] += g
        for cfg, inv in EXPECTED:
            rc, out, secs = tlc(work, "Builder.tla", cfg, workers=4, timeout=600)
            got = tlc_violations(out) + re.findall(r"Invariant (\S+) is violated by the initial state", out)
            design["runs"].append({"cfg": cfg, "expected_violation": inv, "violated": got})
            if inv not in got:
                design["violations"].append({"cfg": cfg, "violated": ["expected counterexample of %s not found" % inv]})
        bbin = build_harness("builder")
        outdir = os.path.join(work, "run")
        txt, hsecs = drive([bbin, "-out", outdir, "-seed", str(seed), "-tier", tier], work, "builder", timeout=3000)
        rep, stats = monitor(work, os.path.join(outdir, "obs.ndjson"))
        obs = {}
        for line in open(os.path.join(outdir, "obs.ndjson")):
            o = json.loads(line)
            obs[o["id"]] = o
        viol = []
        if rep["violations"]:
            out2 = os.path.join(work, "rerun")
            run([bbin, "-out", out2, "-seed", str(seed), "-tier", tier], timeout=3000)
            rep2, _ = monitor(work, os.path.join(out2, "obs.ndjson"))
            again = set((v["id"], v["p"]) for v in rep2["violations"])
            for v in rep["violations"]:
                viol.append({"pred": v["p"], "prop": v["p"][:3], "title": "program %d" % v["id"], "sig": {"pred": v["p"]},
                             "reproduced": (v["id"], v["p"]) in again, "program": obs[v["id"]]})
        ids = sorted(obs)
        samples = []
        for i in ids[:200:50]:
            o = obs[i]
            samples.append({"defs": [{"kind": d["kind"], "written": d["written"], "obs": d["obs"]} for d in o["defs"][:2]],
                            "chains": [{"calls": c["calls"], "obs": c["obs"]} for c in o["chains"][:2]]})
        return {"design": design, "impl": {"programs": len(obs), "stats": stats, "harness_secs": round(hsecs, 1)},
                "violations": viol, "samples": samples, "wall_s": round(time.time() - t0, 1)}
    finally:
        shutil.rmtree(work, ignore_errors=True)


def evidence(pid, tier, res):
    des, impl = res["design"], res["impl"]
    if des["violations"]:
        res["design_failed"] = des["violations"]
    st = impl["stats"]
    cov = {"states": des["states"], "transitions": des["transitions"],
           "traces_validated_against_impl": st.get("definitions", 0) + st.get("chains", 0),
           "samples": res["samples"], "design_runs": des["runs"], "monitor_stats": st, "programs": impl["programs"],
           "summary": "%d programs (%d expressions, %d builder chains) over the real API judged on all truth assignments, %d design states"
                      % (impl["programs"], st.get("definitions", 0), st.get("chains", 0), des["states"])}
    assumptions = ["chains with at most one Match / MatchRegex / MatchPrefilter (a repeated Match is left unspecified and not generated)",
                   "a condition-less regex node under OR and an unknown regex expression type are not generated: their meaning is not defined "
                   "(the regex compiler drops the former and rejects the latter, bloom evaluation treats the former as TRUE)",
                   "bloom and regex trees are evaluated by querying a store with one row per truth assignment (row-level matching is exact), "
                   "prefilter trees by EvaluateDataBlockMetadata on one synthetic block per assignment"]
    return "model_checking", cov, assumptions
