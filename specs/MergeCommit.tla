----------------------------- MODULE MergeCommit -----------------------------
(***************************************************************************)
(* The commit protocol of Merge (merge.go: merge / executeMergeGroup) with *)
(* a failure possible at every store call, a second concurrent Merge       *)
(* caller, and a concurrent query under the two shipped MetaStore          *)
(* disciplines:                                                            *)
(*   "mem": MemoryMetaStore - Update is atomic, a query snapshots the      *)
(*          file set under the read lock and opens the files afterwards;   *)
(*   "fs" : FileSystemDataStore as MetaStore - a file is referenced as     *)
(*          soon as its writer's Close published it, Update only removes   *)
(*          the sources one by one, a query lists the directory and then   *)
(*          opens each entry, silently skipping entries it cannot read.    *)
(* Two merge groups of two source files each (1,2 -> 5 and 3,4 -> 6); each *)
(* source holds one distinct row.  C13 and C14 are the invariants below.   *)
(***************************************************************************)
EXTENDS Integers, Sequences, FiniteSets, TLC

CONSTANTS Discipline,   \* "mem" | "fs"
          MaxFaults,    \* store calls that may fail during the merge
          WithQuery,    \* BOOLEAN: a concurrent query exists
          AllowFSWindow \* BOOLEAN: tolerate the known publish-before-remove window of the "fs" discipline

Sources == {1, 2, 3, 4}
Groups == << {1, 2}, {3, 4} >>
OutOf(g) == 4 + g
Files == 1..6
RowsOf(f) == IF f \in Sources THEN {f} ELSE Groups[f - 4]

VARIABLES
  data,      \* [Files -> "none" | "tmp" | "pub" | "gone"]
  meta,      \* set of referenced files ("mem"); for "fs" the referenced set is the published set
  mpc, g, step, outs, faults, committed, tombFailed, ret, tombedBeforeCommit,
  m2,        \* the second Merge caller: "idle" | "refused" | "ran"
  qpc, qsnap, qres, qerr

vars == << data, meta, mpc, g, step, outs, faults, committed, tombFailed, ret, tombedBeforeCommit, m2, qpc, qsnap, qres, qerr >>

Referenced == IF Discipline = "mem" THEN meta ELSE { f \in Files : data[f] = "pub" }

Init ==
  /\ data = [f \in Files |-> IF f \in Sources THEN "pub" ELSE "none"]
  /\ meta = Sources
  /\ mpc = "idle" /\ g = 1 /\ step = "create" /\ outs = {} /\ faults = MaxFaults
  /\ committed = FALSE /\ tombFailed = FALSE /\ ret = "none" /\ tombedBeforeCommit = FALSE
  /\ m2 = "idle"
  /\ qpc = (IF WithQuery THEN "idle" ELSE "off") /\ qsnap = {} /\ qres = [r \in Sources |-> 0] /\ qerr = FALSE

QUnch == << qpc, qsnap, qres, qerr >>
MUnch == << mpc, g, step, outs, faults, committed, tombFailed, ret, tombedBeforeCommit >>

Fail == faults > 0 /\ faults' = faults - 1
NoFail == UNCHANGED faults

\* Merge takes the single-flight lock and collects the candidate files
MStart(ok) ==
  /\ mpc = "idle"
  /\ IF ok THEN NoFail /\ mpc' = "group" /\ UNCHANGED ret
           ELSE Fail /\ mpc' = "done" /\ ret' = "err"
  /\ UNCHANGED << data, meta, g, step, outs, committed, tombFailed, tombedBeforeCommit, m2 >> /\ UNCHANGED QUnch

\* a second Merge on the same engine while the first holds the lock
M2Try ==
  /\ m2 = "idle" /\ mpc # "idle"
  /\ m2' = IF mpc = "done" THEN "ran" ELSE "refused"
  /\ UNCHANGED << data, meta >> /\ UNCHANGED MUnch /\ UNCHANGED QUnch

\* abort of the current output and tombstoning of the earlier groups' outputs
AbortAll(d) == [f \in Files |-> IF f = OutOf(g) \/ f \in outs THEN (IF d[f] = "none" THEN "none" ELSE "gone") ELSE d[f]]

\* one store call of executeMergeGroup: create, read (sources), write, close
MGroupStep(ok) ==
  /\ mpc = "group"
  /\ IF ~ok
       THEN /\ Fail
            /\ data' = AbortAll(data) /\ mpc' = "done" /\ ret' = "err"
            /\ UNCHANGED << meta, g, step, outs, committed, tombFailed, tombedBeforeCommit >>
       ELSE /\ NoFail
            /\ CASE step = "create" -> data' = [data EXCEPT ![OutOf(g)] = "tmp"] /\ step' = "read" /\ UNCHANGED << g, outs, mpc >>
                 [] step = "read"   -> (\A s \in Groups[g] : data[s] = "pub") /\ step' = "write" /\ UNCHANGED << data, g, outs, mpc >>
                 [] step = "write"  -> step' = "close" /\ UNCHANGED << data, g, outs, mpc >>
                 [] step = "close"  -> /\ data' = [data EXCEPT ![OutOf(g)] = "pub"]
                                       /\ outs' = outs \cup {OutOf(g)}
                                       /\ IF g = Len(Groups) THEN mpc' = "update" /\ UNCHANGED << g, step >>
                                                             ELSE g' = g + 1 /\ step' = "create" /\ UNCHANGED mpc
            /\ UNCHANGED << meta, committed, tombFailed, ret, tombedBeforeCommit >>
  /\ UNCHANGED m2 /\ UNCHANGED QUnch

AllSources == UNION { Groups[i] : i \in 1..Len(Groups) }

\* MetaStore.Update: atomic swap ("mem"); for "fs" the writes are no-ops and the
\* deletes are removals, performed one source at a time
MUpdate(ok) ==
  /\ mpc = "update"
  /\ IF ~ok
       THEN /\ Fail /\ data' = [f \in Files |-> IF f \in outs THEN "gone" ELSE data[f]]
            /\ mpc' = "done" /\ ret' = "err" /\ UNCHANGED << meta, committed, step >>
       ELSE /\ NoFail
            /\ IF Discipline = "mem"
                 THEN /\ meta' = (meta \ AllSources) \cup outs /\ committed' = TRUE /\ mpc' = "tomb"
                      /\ UNCHANGED << data, ret, step >>
                 ELSE /\ mpc' = "fsremove" /\ step' = "s1" /\ UNCHANGED << data, meta, committed, ret >>
  /\ UNCHANGED << g, outs, tombFailed, tombedBeforeCommit, m2 >> /\ UNCHANGED QUnch

\* "fs": Update removes the sources one by one, then reports success
MFSRemove ==
  /\ mpc = "fsremove"
  /\ LET left == { s \in AllSources : data[s] = "pub" } IN
       IF left = {} THEN committed' = TRUE /\ mpc' = "tomb" /\ UNCHANGED data
       ELSE \E s \in left : data' = [data EXCEPT ![s] = "gone"] /\ UNCHANGED << committed, mpc >>
  /\ UNCHANGED << meta, g, step, outs, faults, tombFailed, ret, tombedBeforeCommit, m2 >> /\ UNCHANGED QUnch

\* post-commit tombstoning of the sources; failures are reported, not fatal
MTomb ==
  /\ mpc = "tomb"
  /\ LET left == { s \in AllSources : data[s] = "pub" } IN
       IF left = {} THEN /\ mpc' = "done" /\ ret' = IF tombFailed THEN "cleanup" ELSE "nil"
                         /\ UNCHANGED << data, faults, tombFailed >>
       ELSE \E s \in left : \E ok \in BOOLEAN :
              IF ok THEN data' = [data EXCEPT ![s] = "gone"] /\ NoFail /\ UNCHANGED << tombFailed, mpc, ret >>
                    ELSE /\ Fail /\ tombFailed' = TRUE
                         /\ data' = [data EXCEPT ![s] = "kept"]   \* stays on disk, never retried
                         /\ UNCHANGED << mpc, ret >>
  /\ UNCHANGED << meta, g, step, outs, committed, tombedBeforeCommit, m2 >> /\ UNCHANGED QUnch

(***************************************************************************)
(* The concurrent query                                                    *)
(***************************************************************************)
QSnapshot ==
  /\ qpc = "idle" /\ qsnap' = Referenced /\ qpc' = "reading"
  /\ UNCHANGED << data, meta, qres, qerr, m2 >> /\ UNCHANGED MUnch

QRead ==
  /\ qpc = "reading"
  /\ IF qsnap = {} THEN qpc' = "done" /\ UNCHANGED << qsnap, qres, qerr >>
     ELSE \E f \in qsnap :
            /\ qsnap' = qsnap \ {f}
            /\ IF data[f] \in {"pub", "kept"}
                 THEN qres' = [r \in Sources |-> qres[r] + (IF r \in RowsOf(f) THEN 1 ELSE 0)] /\ UNCHANGED qerr
                 ELSE \* the file vanished under the query
                      IF Discipline = "mem" THEN qerr' = TRUE /\ UNCHANGED qres
                                            ELSE UNCHANGED << qres, qerr >>      \* the directory scan skips it
            /\ UNCHANGED qpc
  /\ UNCHANGED << data, meta, m2 >> /\ UNCHANGED MUnch

Next ==
  \/ \E ok \in BOOLEAN : MStart(ok) \/ MGroupStep(ok) \/ MUpdate(ok)
  \/ MFSRemove \/ MTomb \/ M2Try \/ QSnapshot \/ QRead
Spec == Init /\ [][Next]_vars

(***************************************************************************)
(* C13                                                                     *)
(***************************************************************************)
Visible == Referenced
RowCount(r) == Cardinality({ f \in Visible : r \in RowsOf(f) /\ data[f] \in {"pub", "kept"} })
AllOrNothing ==
  mpc = "done" =>
     IF committed THEN Visible = { OutOf(i) : i \in 1..Len(Groups) }
                  ELSE /\ Visible = Sources /\ \A s \in Sources : data[s] = "pub"
                       /\ \A f \in Files \ Sources : data[f] \in {"none", "gone"}
ReturnTruthful ==
  mpc = "done" => /\ (ret = "nil" <=> (committed /\ ~tombFailed))
                  /\ (ret = "cleanup" <=> (committed /\ tombFailed))
                  /\ (ret = "err" <=> ~committed)
SourcesOnlyGoAfterCommit == \A s \in Sources : data[s] \in {"gone", "kept"} => (committed \/ mpc = "fsremove")
SingleFlight == m2 = "ran" => mpc = "done"
\* "mem": the referenced set holds every row exactly once at all times
MemAlwaysConsistent == Discipline = "mem" => \A r \in Sources : Cardinality({ f \in meta : r \in RowsOf(f) }) = 1

(***************************************************************************)
(* C14: a query that finishes without error returns every row exactly once *)
(***************************************************************************)
QuerySnapshotSound ==
  (qpc = "done" /\ ~qerr) => \A r \in Sources : qres[r] = 1
\* the weaker statement that holds for "fs" outside the known window: never a row that was not stored
QueryNothingInvented == \A r \in Sources : qres[r] <= 2
=============================================================================
