#!/usr/bin/env python3
"""Regenerates MANIFEST.json from the table below (run by hand after adding a check)."""
import json, os
V = os.path.dirname(os.path.dirname(os.path.abspath(__file__)))
checks = []
def chk(pid, cat, text, note, tech, ref):
    checks.append({"property_id": pid, "quick_cmd": "bin/check %s --tier quick" % pid,
      "thorough_cmd": "bin/check %s --tier thorough" % pid, "evidence_file": "evidence/%s.json" % pid,
      "replay_cmd_template": "bin/check %s --replay {path}" % pid, "engine": "tlc+go-harness",
      "level_claimed": {"category": cat, "text": text, "design_ref": ref}, "level_note": note, "technique": tech})

wp_note = ("Trusted: TLC, the Go runtime's goroutine states (quiescence detection), the harness stores' fail-stop fault model; "
           "WritePath.tla abstracts batches to single rows and store work to create/close/update stages. Verdicts only from histories of the real engine.")
wp_tech = ("TLA+ spec (WritePath.tla) model-checked with TLC; real-engine histories (steered by delay-bounded scheduling, fault/wedge "
           "injection, custom Stop contexts, stress) validated by a TLA+ trace monitor (WritePathMonitor.tla) run by TLC")
se_note = ("Trusted: TLC; the harness's abstract-to-concrete tables (injective, self-checked against the standard library); "
           "encoding/json as the round-trip reference. Expected outcomes are computed only by the TLA+ operators.")
se_tech = ("TLA+ semantics (Search.tla, SearchCatalog.tla) with pipeline theorems model-checked by TLC (SearchDesign.tla); seeded "
           "abstract cases replayed on the real engine and every observation judged by TLC (SearchMonitor.tla)")

chk("C01", "model_checking", "SearchDesign.tla: for every pair of catalogue rows, block layout (one block, two blocks, two files, merged), query (bloom/regex/prefilter trees incl. nil/empty/unknown nodes) and free false-positive choice, a matching row whose own partition and values satisfy the prefilter is in the pipeline's result (NoFalseNegative, GuardImpliedByRegex, PrefilterSound). On the real engine: seeded cases over the catalogue (nested/dotted/metachar/unicode/empty keys, arrays, nulls, bools, numbers of every kind incl. named types, raw JSON, case/whitespace variants), default and custom tokenizer, every compression, fpr 1e-6..0.9, row-group/buffer limits, partition function, minmax key sets, flush groups and up to three merges; SearchMonitor.tla requires every row the specification says matches to be returned.", se_note, se_tech, "DESIGN 4.5, 5 C01")
chk("C02", "model_checking", "Exact/BoundsOrdered on SearchDesign.tla; on the real engine SearchMonitor.tla requires: only matching rows, each at most as often as stored, exactly the matching multiset without a prefilter, and with a prefilter the matching rows of a set of whole blocks between the blocks whose metadata satisfies the prefilter and those whose referenced metadata is present (searched over all subsets), with results larger than several delivery batches.", se_note, se_tech, "DESIGN 5 C02")
chk("C03", "exploration", "Returned rows are mapped to stored rows only by deep equality with the encoding/json round trip of what was ingested (alien = 0); the first result set is deep-mutated and the query re-run sequentially and concurrently (pooled scan buffers reused): all result bags must agree (SearchMonitor.tla C03_*).", se_note + " Byte-level encode/decode fidelity is explored, not proved.", se_tech, "DESIGN 5 C03")
chk("C11", "model_checking", "MergePreservesAnswers on SearchDesign.tla (layout 3 -> 4). Real engine: up to three Merge calls by an engine with different compression/fpr/row-group limits; the store is read back (ReadDataBlockRowData) and SearchMonitor.tla requires the stored bag unchanged, partitions/ranges/key sets as C18, prefilter-free answers equal and prefiltered answers a superset within the matching rows.", se_note, se_tech, "DESIGN 5 C11")
chk("C17", "exploration", "Every file of every case (flush and merge outputs, all compressions) is parsed with ReadFileMetadata; layout facts and per-block facts recomputed from the bytes (offsets, sizes, CRC32C, row counts, uncompressed sizes) are related by SearchMonitor.tla's LayoutOK and the recorded distinct entry counts must equal the cardinalities of the specification's entry sets (Paths/Tokens/FieldTokens of the block's rows, and of the file).", se_note, se_tech, "DESIGN 5 C17")
chk("C18", "model_checking", "PrefilterSound on SearchDesign.tla; on the real engine every block's and file's real filters are tested for every entry the specification assigns to the block's rows, block partition = row partition, key set = exactly the keys its rows provided, ranges cover the values - after flushes and merges.", se_note, se_tech, "DESIGN 5 C18")
chk("C23", "exploration", "Results.Stats of every case is mapped onto the stored blocks; SearchMonitor.tla checks at-most-once, all-or-none per file against the specification's prefilter bounds, processed blocks for returned rows, zero work for skipped blocks, whole-block counts, totals and RowsMatched.", se_note, se_tech, "DESIGN 5 C23")
chk("C24", "exploration", "An instrumented DataStore logs every open/read of the query; the real filters' answers for the leaves of the prune expression are bound into SearchMonitor.tla, which evaluates the tree itself: no open of a file its filters rule out, no row-data read of a block the prefilter or its filters rule out, no region read without conditions, no read outside declared extents.", se_note, se_tech, "DESIGN 5 C24")

chk("C05", "model_checking", "WritePath.tla (callers, RWMutex, ingest actor, flush worker, Stop/deadline/AfterFunc environment, store faults and wedges) is checked exhaustively by TLC for AtMostOnce/StopNilDrained/WaitersToldAtEnd and, under fairness, EventuallyAnswered; the same predicates are evaluated by TLC (WritePathMonitor.tla) on every event of histories recorded from the real engine under single/double goroutine delays at every hook and store call, never-started and late-started engines, faults and seeded stress.", wp_note, wp_tech, "DESIGN 4.1, 5 C05")
chk("C06", "model_checking", "AckNilDurable/AckErrAbsent/RejectLeavesNoTrace/NeverTwiceVisible are invariants of WritePath.tla (TLC, exhaustive) and of the monitor over real histories in which a failure is injected at every call position of every store call kind (pairs in the thorough tier), on in-memory stores with and without Abort and on FileSystemDataStore as both stores; visibility is observed by queries on the same engine and on a fresh engine at every quiescent point, including with the flush worker delayed before MetaStore.Update.", wp_note, wp_tech, "DESIGN 5 C06")
chk("C07", "model_checking", "AckOrder is an action property of WritePath.tla (TLC) and a monitor predicate evaluated whenever an observation round closes: a nil for a non-empty batch or a nil Flush return requires every earlier-accepted (API happens-before) row batch to be answered and, if answered nil, visible; real histories hold the flush worker at each store call while Flush/later batches proceed.", wp_note, wp_tech, "DESIGN 5 C07")
chk("C08", "model_checking", "RefuseAfterStop, NoLateStoreWork, WaitersToldAtEnd are checked on WritePath.tla with DeadlineFire and AfterFuncRun as separate environment steps and wedged stores; StopReturns is checked as liveness without fairness for AfterFunc. Real histories use a custom context whose AfterFunc callbacks run late, wedged store calls, abandoned channels, callers blocked on a full buffer, never-started engines; the monitor requires Stop to have returned at the first quiescent point after the deadline.", wp_note, wp_tech, "DESIGN 5 C08")
chk("C09", "model_checking", "Backpressure (accepted-unanswered <= IBS + 3*(MaxBufferedRows+1) + 1) is an invariant of WritePath.tla with stores wedged at any call; on the real engine the flush worker is wedged at create/close/update with 4..32 producers and the count is taken at quiescence; canceled producers must return.", wp_note, wp_tech, "DESIGN 5 C09")
chk("C10", "model_checking", "LimitFlushImmediate and (under fairness, with no Flush/Stop) EventuallyAnswered on WritePath.tla; on the real engine sequential batch shapes crossing row/byte/partition limits are replayed and the monitor recomputes from the declared shapes whether a limit was reached at each quiescent point; time-based flush is measured with real clocks against MaxBufferedTime + 100 ms + 2 s.", wp_note + " Wall-clock bounds are measured, not modelled.", wp_tech, "DESIGN 5 C10")

chk("C04", "model_checking", "MinMax.tla: over a symbolic ordered domain isomorphic to the int64 boundary values (below MinInt64, MinInt64+k, small integers and half-integers, 2^63-1024, MaxInt64-k, 2^63, 1e19) TLC checks for every block of up to 3 values and all 370 conditions (EQ NE GT GTE LT LTE IN NOT_IN BETWEEN incl. inverted, NOT_BETWEEN) that a satisfying row's block is never pruned, that unions only widen and that ranges cover. The replayer substitutes every Go numeric kind that can hold each point (int..int64, uint..uint64, float32/64, named int/uint/float types, time.Duration, +-Inf) into ConvertToMinMaxInt64 / UpdateMinMaxIndex / EvaluateMinMaxCondition / EvaluateDataBlockMetadata for every point and pair, and ingests/flushes/merges/queries a sample end to end; MinMaxMonitor.tla (TLC) judges with the specification's Sat.", se_note, "TLA+ symbolic-domain spec (MinMax.tla) model-checked by TLC; all points/pairs x all conditions replayed on the real functions and engine; observations judged by TLC (MinMaxMonitor.tla)", "DESIGN 5 C04")

mg_note = ("Trusted: TLC; fail-stop fault injection by harness store wrappers; MergeGroups.tla is a transcription of the planner (conformance of "
           "the real planner's outcome with the transcription is not enforced, only the C12 invariants on the real outcome).")
mg_tech = ("merge planner transcribed into TLA+ (MergeGroups.tla) and commit protocol (MergeCommit.tla) model-checked by TLC; the real Merge run over "
           "random populations, with a failure at every store call position, a concurrent second Merge and paused concurrent queries; observations judged by TLC (MergeMonitor.tla)")
chk("C12", "model_checking", "MergeGroups.tla transcribes identifyFileMergeGroups / hasMergeableBlockPair / processPartitionBlocks with the unstable sort's ties nondeterministic; TLC checks PlanOK (combined blocks within MaxRowGroupRows/Bytes and of one partition and key set, at most MaxFilesToMergePerOperation sources, groups within MaxFileSize) over every population of 3-4 files of 1-2 blocks. The real Merge is run (1-3 times) over random populations and limits; MergeMonitor.tla recomputes which source blocks each output block combines (by row identity) and checks the same limits on recomputed sizes and on the MetaStore.Update log.", mg_note, mg_tech, "DESIGN 5 C12")
chk("C13", "model_checking", "MergeCommit.tla: two-group merge with a failure possible at every store call, a second Merge caller and both MetaStore disciplines; TLC checks AllOrNothing, ReturnTruthful, SourcesOnlyGoAfterCommit, SingleFlight. On the real engine a failure is injected at every position of every call kind (iterator, CreateFile, OpenFile, Read, Write, Close, Update, TombstoneFile) of multi-group merges on in-memory and filesystem stores, and a second Merge is issued while the first is held; the monitor judges return value, MetaStore/DataStore state, tombstone order and a full query.", mg_note, mg_tech, "DESIGN 5 C13")
chk("C14", "model_checking", "MergeCommit.tla's concurrent query: QuerySnapshotSound holds for the MemoryMetaStore discipline (TLC, exhaustive) and fails for FileSystemDataStore-as-MetaStore exactly in the publish-before-remove window (recorded known finding, checked as an expected counterexample). On the real engine a query is paused at iterator start / yields / opens / reads while a merge advances to output Close / Update / tombstones / completion, then resumed, for both MetaStores; the monitor requires every acknowledged row exactly once unless the query reports an error.", mg_note, mg_tech, "DESIGN 5 C14")

EXTRA = os.path.join(V, "tools", "manifest_extra.py")
if os.path.exists(EXTRA):
    exec(open(EXTRA).read())

checks.sort(key=lambda c: c["property_id"])
claimed = set(c["property_id"] for c in checks)
na = [{"property_id": "C26", "reason": "statistical false-positive-rate claim over real-valued rates and large volumes: not a state-machine property; TLA+ has no reals and a trace cannot witness a rate (DESIGN 6)"}]
pending = {
  "C04": "check under construction (MinMax.tla symbolic domain + replay)", "C12": "check under construction (MergeProtocol.tla)",
  "C13": "check under construction (MergeProtocol.tla fault enumeration)", "C14": "check under construction (MergeProtocol.tla steering)",
  "C15": "check under construction (FSStore.tla crash images)", "C16": "check under construction (FSStore.tla replay)",
  "C19": "check under construction (FileLayout.tla)", "C20": "check under construction (QueryPipeline.tla)",
  "C21": "check under construction (QueryPipeline.tla)", "C22": "check under construction (QueryPipeline.tla)",
  "C25": "check under construction (Builder.tla)", "C27": "check under construction (stdio capture across all families)",
}
for pid, why in sorted(pending.items()):
    if pid not in claimed:
        na.append({"property_id": pid, "reason": "not claimed yet: " + why})
m = {"version": 1, "setup_cmd": "bin/setup",
     "hooks": {"guard": "verif", "enable": "go build -tags verif (harness module /verif/harness with replace => /repo)",
               "baseline_off_cmd": "cd /repo && GOFLAGS=-mod=mod GOPROXY=off go test -json -vet=off -count=1 -timeout 25m ./...",
               "source_commits": ["6f9a244", "6881ff5", "4e1e494", "302dff0"], "add_only": True},
     "engines": [{"name": "tlc+go-harness", "path": "bin/check", "serves_properties": sorted(claimed),
                  "kind_free_text": "TLA+ specifications in specs/ checked by TLC; Go harness in harness/ drives the real engine and records NDJSON histories/observations that TLC validates against the specifications"}],
     "checks": checks, "not_applicable": na,
     "notes": "See DESIGN.md. Family results are cached under .build/cache keyed by the content of /repo and /verif."}
json.dump(m, open(os.path.join(V, "MANIFEST.json"), "w"), indent=1)
print("claimed:", sorted(claimed))
