SPECIFICATION Spec
CONSTANTS
  DocSet = {2, 3, 5, 12}
  AttrIdx = {1, 3}
INVARIANTS NoFalseNegative Exact GuardImpliedByRegex PrefilterSound BoundsOrdered MergePreservesAnswers
CHECK_DEADLOCK FALSE
