SPECIFICATION LiveSpec
CONSTANTS
  Qs = {q1, q2}
  NF = 1
  NB = 1
  N = 1
  RB = 1
  FJB = 1
  BJB = 1
  MaxBatches = 2
  MaxFaults = 0
  HasBloom = FALSE
  Closers = {c1}
  MayCancel = FALSE
  Stalled = {q1}
  CloseConsultsCaller = TRUE
INVARIANTS TypeOK ReadsBounded NoSlotWhileParked HandleConservation IdleOnlyWhileReferenced AllClosedAtDone IteratorReturned
  NoWorkerAlive BudgetRestored TerminalImpliesDone ErrOK IterDoneImpliesFinalized CloseRetImpliesFinalized StatsAtMostOnce StatsWholeFiles
PROPERTIES NextEventuallyFalse
CHECK_DEADLOCK FALSE
