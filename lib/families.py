"""Property -> family dispatch, verdict reporting, known findings."""
import json
import os

import vcommon
from vcommon import Infra

import fam_writepath
import fam_search
import fam_minmax
import fam_merge
import fam_query
import fam_fsstore
import fam_layout
import fam_builder
import fam_silent


class WritePathFamily:
    NAME = "writepath"
    PROPS = fam_writepath.PROPS
    compute = staticmethod(fam_writepath.compute)
    evidence = staticmethod(fam_writepath.evidence)


class SearchFamily:
    NAME = "search"
    PROPS = fam_search.PROPS
    compute = staticmethod(fam_search.compute)
    evidence = staticmethod(fam_search.evidence)


class MinMaxFamily:
    NAME = "minmax"
    PROPS = fam_minmax.PROPS
    compute = staticmethod(fam_minmax.compute)
    evidence = staticmethod(fam_minmax.evidence)


class MergeFamily:
    NAME = "merge"
    PROPS = fam_merge.PROPS
    compute = staticmethod(fam_merge.compute)
    evidence = staticmethod(fam_merge.evidence)


class QueryFamily:
    NAME = "query"
    PROPS = fam_query.PROPS
    compute = staticmethod(fam_query.compute)
    evidence = staticmethod(fam_query.evidence)


class FSStoreFamily:
    NAME = "fsstore"
    PROPS = fam_fsstore.PROPS
    compute = staticmethod(fam_fsstore.compute)
    evidence = staticmethod(fam_fsstore.evidence)


class LayoutFamily:
    NAME = "layout"
    PROPS = fam_layout.PROPS
    compute = staticmethod(fam_layout.compute)
    evidence = staticmethod(fam_layout.evidence)


class BuilderFamily:
    NAME = "builder"
    PROPS = fam_builder.PROPS
    compute = staticmethod(fam_builder.compute)
    evidence = staticmethod(fam_builder.evidence)


class SilentFamily:
    NAME = "silent"
    PROPS = fam_silent.PROPS
    compute = staticmethod(fam_silent.compute)
    evidence = staticmethod(fam_silent.evidence)


FAMILIES = [WritePathFamily, SearchFamily, MinMaxFamily, MergeFamily, QueryFamily, FSStoreFamily, LayoutFamily, BuilderFamily, SilentFamily]

# families whose monitors also judge predicates of a property owned by another family: their
# violations of that property are reported by the property's check as well
# C11: MergeMonitor.tla evaluates C11_BagUnchanged / C11_KeysKept on populations of many files (several merge groups per call),
# which the search cases (at most three files) do not build
# C03: QueryMonitor.tla's C03_KeptRowsIntact (rows held across Close / cancel and a later scan of the same blocks)
SECONDARY = {"C23": [QueryFamily], "C06": [FSStoreFamily], "C11": [MergeFamily], "C03": [QueryFamily], "C14": [FSStoreFamily]}

# every harness runs with captured stdout/stderr and every monitor carries C27_Silent: for C27 the other
# families' verdicts are folded in when their result for this tree is already cached (never computed for it)
OPPORTUNISTIC = {"C27": [WritePathFamily, SearchFamily, MinMaxFamily, MergeFamily, QueryFamily, FSStoreFamily, LayoutFamily, BuilderFamily]}



def family_of(pid):
    for f in FAMILIES:
        if pid in f.PROPS:
            return f
    raise Infra("no check implemented for %s" % pid)


def matches(finding, v):
    """A known finding suppresses exactly the violations its signature names."""
    if finding.get("property") != v["prop"] or finding.get("status") != "open":
        return False
    sig = finding.get("signature", {})
    for k, want in sig.items():
        have = v.get("sig", {}).get(k)
        if isinstance(want, list):
            if have not in want:
                return False
        elif have != want:
            return False
    return True


def report(fam, pid, tier, seed, res, wall, extra=()):
    known = vcommon.load_known()
    mine = [v for v in res.get("violations", []) if v["prop"] == pid]
    for name, r2 in extra:
        mine += [dict(v, family=name) for v in r2.get("violations", []) if v["prop"] == pid]
    unrepro = [v for v in mine if not v.get("reproduced", True)]
    real = [v for v in mine if v.get("reproduced", True)]
    new, seen_known = [], {}
    for v in real:
        k = next((f for f in known if matches(f, v)), None)
        if k is not None:
            seen_known.setdefault(k["id"], (k, 0))
            seen_known[k["id"]] = (k, seen_known[k["id"]][1] + 1)
        else:
            new.append(v)
    level, coverage, assumptions = fam.evidence(pid, tier, res)
    for d in coverage.get("drift_traces", []) or []:
        print("DRIFT family=%s trace=%s program=%s explained=%s/%s first-unexplained=%s (model drift: reported, not a verdict)"
              % (fam.NAME, d.get("trace"), d.get("program"), d.get("explained"), d.get("events"), json.dumps(d.get("first_unexplained"))))
    coverage["known_findings_seen"] = {k: n for k, (f, n) in seen_known.items()}
    for name, r2 in extra:
        coverage["also_judged_by_" + name] = {"observations": r2.get("impl", {}).get("obs"), "design_states": r2.get("design", {}).get("states")}
        if r2.get("design", {}).get("violations") and not res.get("design_failed"):
            res["design_failed"] = r2["design"]["violations"]
    coverage["unreproduced_alarms"] = len(unrepro)
    coverage["family_result_from_cache"] = bool(res.get("from_cache"))
    vcommon.write_evidence(pid, tier, seed, level, coverage, res.get("wall_s", wall), len(new), assumptions)
    for k, (f, n) in sorted(seen_known.items()):
        print("KNOWN-FINDING: property=%s %s (%d occurrence(s) this run; %s)" % (pid, f["what"], n, k))
    if res.get("design_failed") and pid in res.get("design_failed_props", [pid]):
        print("INFRA-ERROR property=%s: the design-level TLC run of the unchanged specification failed: %s"
              % (pid, json.dumps(res["design_failed"])[:600]))
        return 2
    if new:
        seen = set()
        for i, v in enumerate(new):
            key = (v.get("pred"), json.dumps(v.get("sig", {}), sort_keys=True))
            if key in seen and i > 5:
                continue
            seen.add(key)
            path = vcommon.write_replay(pid, i, v)
            print("VIOLATION property=%s replay=%s" % (pid, path))
            print("  violated: %s  case: %s" % (v.get("pred"), v.get("title", "")[:200]))
        return 1
    if unrepro and not real:
        print("INFRA-ERROR property=%s: %d alarm(s) did not reproduce on re-execution; not a verdict" % (pid, len(unrepro)))
        return 2
    print("OK property=%s tier=%s seed=%s (%s)" % (pid, tier, seed, coverage.get("summary", "")))
    return 0


def replay(fam, pid, path, seed):
    v = json.load(open(path))
    if not hasattr(fam, "replay"):
        raise Infra("family %s has no replay" % fam.NAME)
    return fam.replay(pid, v, seed)
