---------------------------- MODULE WritePath ----------------------------
(***************************************************************************)
(* Faithful model of bloomsearch's write path: IngestRows / Flush / Start  *)
(* / Stop callers, the single-threaded ingest actor, the FIFO flush        *)
(* worker, the stores, the done channels and the Stop deadline machinery   *)
(* (engine.go, ingest.go, flush.go, chan_helpers.go).                      *)
(*                                                                         *)
(* One action per critical section / linearization point; action names    *)
(* are the names of the verif hook points and of the store-wrapper events *)
(* the Go harness records, so TLC behaviours can be replayed on the real  *)
(* engine and recorded traces can be checked against this module          *)
(* (WritePathTrace.tla).  The properties C05..C10 are stated at the end,  *)
(* over observable state only; WritePathMonitor.tla evaluates the same    *)
(* text on traces of the real engine.                                     *)
(***************************************************************************)
EXTENDS Naturals, Sequences, FiniteSets, TLC

CONSTANTS
  Batches,        \* set of batch ids (one API call each)
  Kind,           \* [Batches -> {"rows","empty","bad","force"}]
  Chan,           \* [Batches -> {"nil","buf","unbuf","aband","late"}]
  Prev,           \* [Batches -> SUBSET Batches]: calls that returned before this call starts (program order)
  IBS,            \* IngestBufferSize
  MBR,            \* MaxBufferedRows (each "rows" batch carries one row)
  WithStart,      \* BOOLEAN: a Start caller exists
  StartFirst,     \* BOOLEAN: Start has completed before any other call (the engine is running initially)
  StopMode,       \* "none" | "nodeadline" | "deadline"
  MaxFaults,      \* store calls that may fail
  MaxWedges,      \* store calls that may wedge (ctx-ignoring store)
  FixStopCancels, \* TRUE (repaired code): Stop watches its context itself and cancels flush work before a
                  \*   deadline return; FALSE (original): cancellation only via context.AfterFunc, which may run late
  FixStopUnblocks,\* TRUE (repaired code): Stop closes a "stopping" channel before waiting for the state lock; callers
                  \*   blocked on a full ingest buffer return ErrEngineStopped; FALSE (original): they wait for room
  FixStopExpiry,  \* TRUE (repaired code): Stop re-checks its context when the workers have exited and reports the
                  \*   deadline if it expired meanwhile; FALSE (original): both select cases ready, either may be taken
  FixStopDrains   \* TRUE (repaired code): Stop on a never-started engine runs the workers so accepted batches are
                  \*   drained; FALSE (original): nobody drains ingestChan

VARIABLES
  \* engine lifecycle / lock (sync.RWMutex with writer preference)
  readers, wWaiting, started, stopped, bctx, fctx,
  \* API callers
  cpc, cres,
  \* channels
  ich, fch,
  \* ingest actor
  apc, aret, buf, waiters, areq,
  \* flush worker
  fpc, fret, freq, fstage, fidx, fval, ffile, flate, wedged,
  \* stores
  files, meta, nfile, faults, wedges,
  \* done channels and observables
  answers, accSeq, creates, lateCreates, lateOn,
  \* Stop caller and its context
  spc, deadline, afRan,
  \* last action (scenario export only; hidden by the VIEW)
  act

vars == << readers, wWaiting, started, stopped, bctx, fctx, cpc, cres, ich, fch,
           apc, aret, buf, waiters, areq, fpc, fret, freq, fstage, fidx, fval,
           ffile, flate, wedged, files, meta, nfile, faults, wedges, answers,
           accSeq, creates, lateCreates, lateOn, spc, deadline, afRan, act >>

view == << readers, wWaiting, started, stopped, bctx, fctx, cpc, cres, ich, fch,
           apc, aret, buf, waiters, areq, fpc, fret, freq, fstage, fidx, fval,
           ffile, flate, wedged, files, meta, nfile, faults, wedges, answers,
           accSeq, creates, lateCreates, lateOn, spc, deadline, afRan >>

NoReq == [rows |-> {}, w |-> <<>>]
Files == 1..(Cardinality(Batches) + 1)

Init ==
  /\ readers = {} /\ wWaiting = FALSE /\ started = StartFirst /\ stopped = FALSE
  /\ bctx = FALSE /\ fctx = FALSE
  /\ cpc = [b \in Batches |-> "idle"] /\ cres = [b \in Batches |-> "none"]
  /\ ich = <<>> /\ fch = <<>>
  /\ apc = (IF StartFirst THEN "idle" ELSE "notstarted") /\ aret = "idle" /\ buf = {} /\ waiters = <<>> /\ areq = NoReq
  /\ fpc = (IF StartFirst THEN "idle" ELSE "notstarted") /\ fret = "idle" /\ freq = NoReq /\ fstage = "none"
  /\ fidx = 0 /\ fval = "nil" /\ ffile = 0 /\ flate = FALSE /\ wedged = FALSE
  /\ files = [f \in Files |-> [st |-> "none", rows |-> {}]] /\ meta = {} /\ nfile = 0
  /\ faults = MaxFaults /\ wedges = MaxWedges
  /\ answers = [b \in Batches |-> <<>>] /\ accSeq = <<>> /\ creates = 0 /\ lateCreates = 0 /\ lateOn = {}
  /\ spc = "none" /\ deadline = IF StopMode = "deadline" THEN "pending" ELSE "none"
  /\ afRan = FALSE
  /\ act = [n |-> "init", b |-> 0]

Act(n, b) == act' = [n |-> n, b |-> b]

(***************************************************************************)
(* Done channels.  "buf" has capacity 2 in the model and in the harness    *)
(* so that a second answer is observable instead of wedging the sender;    *)
(* "unbuf" has a receiver permanently parked; "aband" is never received;    *)
(* "late" is unbuffered and its receiver starts receiving at some later     *)
(* moment of the caller's choosing (RecvStart).                             *)
(***************************************************************************)
CanSend(b) == \/ Chan[b] = "unbuf"
              \/ Chan[b] = "late" /\ b \in lateOn
              \/ Chan[b] = "buf" /\ Len(answers[b]) < 2
Receivable(b) == Chan[b] \in {"buf", "unbuf", "late"}

\* sendWithContext: a ready channel always receives the value; a blocked send
\* is abandoned once the flush context is canceled.
SendEnabled(b) == Chan[b] = "nil" \/ CanSend(b) \/ fctx
SendEffect(b, v) == IF Chan[b] # "nil" /\ CanSend(b)
                      THEN [answers EXCEPT ![b] = Append(@, v)]
                      ELSE answers

RECURSIVE SendAll(_, _, _)
\* sendToChannelsWithContext with an already-canceled context: every ready
\* channel gets the value, the others are given up immediately.
SendAll(ans, ws, v) ==
  IF ws = <<>> THEN ans
  ELSE LET b == Head(ws)
           ok == Chan[b] = "unbuf" \/ (Chan[b] = "late" /\ b \in lateOn) \/ (Chan[b] = "buf" /\ Len(ans[b]) < 2)
       IN SendAll(IF ok THEN [ans EXCEPT ![b] = Append(@, v)] ELSE ans, Tail(ws), v)

(***************************************************************************)
(* API callers                                                             *)
(***************************************************************************)
CanStartCall(b) == cpc[b] = "idle" /\ \A p \in Prev[b] : cpc[p] = "done"

\* RLock + stopped check (hook ingest.checked sits right after it)
ClientCheck(b) ==
  /\ CanStartCall(b) /\ ~wWaiting
  /\ IF stopped
       THEN /\ cpc' = [cpc EXCEPT ![b] = "done"] /\ cres' = [cres EXCEPT ![b] = "stopped"]
            /\ UNCHANGED readers
       ELSE /\ cpc' = [cpc EXCEPT ![b] = "checked"] /\ readers' = readers \cup {b}
            /\ UNCHANGED cres
  /\ Act("ingest.checked", b)
  /\ UNCHANGED << wWaiting, started, stopped, bctx, fctx, ich, fch, apc, aret, buf, waiters, areq,
                  fpc, fret, freq, fstage, fidx, fval, ffile, flate, wedged, files, meta, nfile,
                  faults, wedges, answers, accSeq, creates, lateCreates, lateOn, spc, deadline, afRan >>

\* the channel send lands (still under the read lock)
ClientSend(b) ==
  /\ cpc[b] = "checked" /\ Len(ich) < IBS
  /\ ich' = Append(ich, b) /\ accSeq' = Append(accSeq, b)
  /\ readers' = readers \ {b}
  /\ cres' = [cres EXCEPT ![b] = "nil"]
  /\ cpc' = [cpc EXCEPT ![b] = IF Kind[b] = "force" THEN "waitflush" ELSE "done"]
  /\ Act("ingest.sent", b)
  /\ UNCHANGED << wWaiting, started, stopped, bctx, fctx, fch, apc, aret, buf, waiters, areq,
                  fpc, fret, freq, fstage, fidx, fval, ffile, flate, wedged, files, meta, nfile,
                  faults, wedges, answers, creates, lateCreates, lateOn, spc, deadline, afRan >>

\* the caller was waiting for room in the ingest buffer when Stop began
ClientStopping(b) ==
  /\ FixStopUnblocks /\ cpc[b] = "checked" /\ spc \notin {"none", "armed"}
  /\ readers' = readers \ {b}
  /\ cres' = [cres EXCEPT ![b] = "stopped"] /\ cpc' = [cpc EXCEPT ![b] = "done"]
  /\ Act("ingest.stopping", b)
  /\ UNCHANGED << wWaiting, started, stopped, bctx, fctx, ich, fch, apc, aret, buf, waiters, areq,
                  fpc, fret, freq, fstage, fidx, fval, ffile, flate, wedged, files, meta, nfile,
                  faults, wedges, answers, accSeq, creates, lateCreates, lateOn, spc, deadline, afRan >>

\* Flush() returns what its private buffered channel received
FlushReturn(b) ==
  /\ cpc[b] = "waitflush" /\ Len(answers[b]) >= 1
  /\ cpc' = [cpc EXCEPT ![b] = "done"]
  /\ cres' = [cres EXCEPT ![b] = IF answers[b][1] = "nil" THEN "flushed" ELSE "flusherr"]
  /\ Act("flush.ret", b)
  /\ UNCHANGED << readers, wWaiting, started, stopped, bctx, fctx, ich, fch, apc, aret, buf, waiters,
                  areq, fpc, fret, freq, fstage, fidx, fval, ffile, flate, wedged, files, meta, nfile,
                  faults, wedges, answers, accSeq, creates, lateCreates, lateOn, spc, deadline, afRan >>

\* Start: write lock, idempotent, no-op after Stop
StartCall ==
  /\ WithStart /\ ~started /\ ~stopped /\ readers = {} /\ ~wWaiting
  /\ started' = TRUE /\ apc' = "idle" /\ fpc' = "idle"
  /\ Act("start.spawn", 0)
  /\ UNCHANGED << readers, wWaiting, stopped, bctx, fctx, cpc, cres, ich, fch, aret, buf, waiters, areq,
                  fret, freq, fstage, fidx, fval, ffile, flate, wedged, files, meta, nfile,
                  faults, wedges, answers, accSeq, creates, lateCreates, lateOn, spc, deadline, afRan >>

(***************************************************************************)
(* Ingest actor (ingestWorker / processIngestRequest / flushBufferedData / *)
(* triggerFlush).  Processing one request is one step of the single-       *)
(* threaded actor up to its first blocking point.                          *)
(***************************************************************************)
NextPc(r) == IF r = "exit" THEN "done" ELSE r

\* flushBufferedData + the start of triggerFlush
BeginFlush(nbuf, nw, ret) ==
  IF nbuf = {} /\ nw = <<>>
    THEN /\ apc' = NextPc(ret) /\ UNCHANGED << aret, areq >> /\ buf' = nbuf /\ waiters' = nw
    ELSE /\ areq' = [rows |-> nbuf, w |-> nw] /\ buf' = {} /\ waiters' = <<>>
         /\ apc' = "enq" /\ aret' = ret

\* direct ack of an empty or rejected batch from the actor (blocking send)
Process(b, ret) ==
  CASE Kind[b] = "force" ->
         /\ BeginFlush(buf, Append(waiters, b), ret) /\ UNCHANGED answers
    [] Kind[b] \in {"empty", "bad"} ->
         \* the actor takes the request, then blocks in the direct ack
         /\ apc' = "directack" /\ aret' = ret /\ areq' = [rows |-> {}, w |-> <<b>>]
         /\ UNCHANGED << answers, buf, waiters >>
    [] OTHER ->
         /\ UNCHANGED answers
         /\ IF Cardinality(buf \cup {b}) >= MBR
              THEN BeginFlush(buf \cup {b}, Append(waiters, b), ret)
              ELSE /\ buf' = buf \cup {b} /\ waiters' = Append(waiters, b)
                   /\ apc' = NextPc(ret) /\ UNCHANGED << aret, areq >>

ActorRecv ==
  /\ apc = "idle" /\ ich # <<>>
  /\ Process(Head(ich), "idle") /\ ich' = Tail(ich)
  /\ Act("actor.recv", Head(ich))
  /\ UNCHANGED << readers, wWaiting, started, stopped, bctx, fctx, cpc, cres, fch,
                  fpc, fret, freq, fstage, fidx, fval, ffile, flate, wedged, files, meta, nfile,
                  faults, wedges, accSeq, creates, lateCreates, lateOn, spc, deadline, afRan >>

\* time-based flush (MaxBufferedTime elapsed at a ticker fire)
ActorTick ==
  /\ apc = "idle" /\ buf # {}
  /\ BeginFlush(buf, waiters, "idle")
  /\ Act("actor.tick", 0)
  /\ UNCHANGED << readers, wWaiting, started, stopped, bctx, fctx, cpc, cres, ich, fch,
                  fpc, fret, freq, fstage, fidx, fval, ffile, flate, wedged, files, meta, nfile,
                  faults, wedges, answers, accSeq, creates, lateCreates, lateOn, spc, deadline, afRan >>

ActorCtxDone ==
  /\ apc = "idle" /\ bctx
  /\ apc' = "drain"
  /\ Act("actor.ctxdone", 0)
  /\ UNCHANGED << readers, wWaiting, started, stopped, bctx, fctx, cpc, cres, ich, fch, aret, buf,
                  waiters, areq, fpc, fret, freq, fstage, fidx, fval, ffile, flate, wedged, files,
                  meta, nfile, faults, wedges, answers, accSeq, creates, lateCreates, lateOn, spc, deadline, afRan >>

ActorDrainRecv ==
  /\ apc = "drain" /\ ich # <<>>
  /\ Process(Head(ich), "drain") /\ ich' = Tail(ich)
  /\ Act("actor.recv", Head(ich))
  /\ UNCHANGED << readers, wWaiting, started, stopped, bctx, fctx, cpc, cres, fch,
                  fpc, fret, freq, fstage, fidx, fval, ffile, flate, wedged, files, meta, nfile,
                  faults, wedges, accSeq, creates, lateCreates, lateOn, spc, deadline, afRan >>

ActorFinalFlush ==
  /\ apc = "drain" /\ ich = <<>>
  /\ BeginFlush(buf, waiters, "exit")
  /\ Act("actor.finalflush", 0)
  /\ UNCHANGED << readers, wWaiting, started, stopped, bctx, fctx, cpc, cres, ich, fch,
                  fpc, fret, freq, fstage, fidx, fval, ffile, flate, wedged, files, meta, nfile,
                  faults, wedges, answers, accSeq, creates, lateCreates, lateOn, spc, deadline, afRan >>

\* sendOptionalWithContext of the nil (empty batch) or the error (rejected batch)
ActorDirectAck ==
  /\ apc = "directack" /\ SendEnabled(areq.w[1])
  /\ answers' = SendEffect(areq.w[1], IF Kind[areq.w[1]] = "empty" THEN "nil" ELSE "err")
  /\ areq' = NoReq /\ apc' = NextPc(aret)
  /\ Act(IF Kind[areq.w[1]] = "empty" THEN "actor.ack_empty" ELSE "actor.ack_reject", areq.w[1])
  /\ UNCHANGED << readers, wWaiting, started, stopped, bctx, fctx, cpc, cres, ich, fch, aret, buf,
                  waiters, fpc, fret, freq, fstage, fidx, fval, ffile, flate, wedged, files, meta,
                  nfile, faults, wedges, accSeq, creates, lateCreates, lateOn, spc, deadline, afRan >>

ActorEnqueued ==
  /\ apc = "enq" /\ Len(fch) < 1
  /\ fch' = Append(fch, areq) /\ areq' = NoReq /\ apc' = NextPc(aret)
  /\ Act("actor.enqueued", 0)
  /\ UNCHANGED << readers, wWaiting, started, stopped, bctx, fctx, cpc, cres, ich, aret, buf, waiters,
                  fpc, fret, freq, fstage, fidx, fval, ffile, flate, wedged, files, meta, nfile,
                  faults, wedges, answers, accSeq, creates, lateCreates, lateOn, spc, deadline, afRan >>

ActorEnqueueAborted ==
  /\ apc = "enq" /\ fctx
  /\ answers' = SendAll(answers, areq.w, "err")
  /\ areq' = NoReq /\ apc' = NextPc(aret)
  /\ Act("actor.enqueue_aborted", 0)
  /\ UNCHANGED << readers, wWaiting, started, stopped, bctx, fctx, cpc, cres, ich, fch, aret, buf,
                  waiters, fpc, fret, freq, fstage, fidx, fval, ffile, flate, wedged, files, meta,
                  nfile, faults, wedges, accSeq, creates, lateCreates, lateOn, spc, deadline, afRan >>

(***************************************************************************)
(* Flush worker (flushWorker / handleFlush / abortFileWriter)              *)
(***************************************************************************)
FlusherTake(from) ==
  /\ fpc = from /\ fch # <<>>
  /\ freq' = Head(fch) /\ fch' = Tail(fch)
  /\ fpc' = "work" /\ fret' = from /\ fstage' = "check" /\ fidx' = 1
  /\ flate' = (spc = "ret_deadline")
  /\ Act("flusher.recv", 0)
  /\ UNCHANGED << readers, wWaiting, started, stopped, bctx, fctx, cpc, cres, ich, apc, aret, buf,
                  waiters, areq, fval, ffile, wedged, files, meta, nfile, faults, wedges, answers,
                  accSeq, creates, lateCreates, lateOn, spc, deadline, afRan >>

FlusherRecv == FlusherTake("idle") \/ FlusherTake("shut") \/ FlusherTake("drainall")

FlusherShutdown ==
  /\ fpc = "idle" /\ bctx /\ fpc' = "shut"
  /\ Act("flusher.shutdown", 0)
  /\ UNCHANGED << readers, wWaiting, started, stopped, bctx, fctx, cpc, cres, ich, fch, apc, aret, buf,
                  waiters, areq, fret, freq, fstage, fidx, fval, ffile, flate, wedged, files, meta,
                  nfile, faults, wedges, answers, accSeq, creates, lateCreates, lateOn, spc, deadline, afRan >>

FlusherIngestDone ==
  /\ fpc = "shut" /\ apc = "done" /\ fpc' = "drainall"
  /\ Act("flusher.ingestdone", 0)
  /\ UNCHANGED << readers, wWaiting, started, stopped, bctx, fctx, cpc, cres, ich, fch, apc, aret, buf,
                  waiters, areq, fret, freq, fstage, fidx, fval, ffile, flate, wedged, files, meta,
                  nfile, faults, wedges, answers, accSeq, creates, lateCreates, lateOn, spc, deadline, afRan >>

FlusherExit ==
  /\ fpc = "drainall" /\ fch = <<>> /\ fpc' = "done"
  /\ Act("flusher.exit", 0)
  /\ UNCHANGED << readers, wWaiting, started, stopped, bctx, fctx, cpc, cres, ich, fch, apc, aret, buf,
                  waiters, areq, fret, freq, fstage, fidx, fval, ffile, flate, wedged, files, meta,
                  nfile, faults, wedges, answers, accSeq, creates, lateCreates, lateOn, spc, deadline, afRan >>

FUnch == << readers, wWaiting, started, stopped, bctx, fctx, cpc, cres, ich, fch, apc, aret, buf,
            waiters, areq, fret, freq, flate, accSeq, spc, deadline, afRan >>

\* handleFlush entry: abandoned / ack-only / real flush
FlushCheck ==
  /\ fpc = "work" /\ fstage = "check"
  /\ IF fctx THEN fstage' = "ack" /\ fval' = "err" /\ Act("flush.abandoned", 0)
     ELSE IF freq.rows = {} THEN fstage' = "ack" /\ fval' = "nil" /\ Act("flush.ackonly", 0)
     ELSE fstage' = "create" /\ fval' = "nil" /\ Act("flush.begin", 0)
  /\ UNCHANGED << fpc, fidx, ffile, wedged, files, meta, nfile, faults, wedges, answers, creates, lateCreates, lateOn >>
  /\ UNCHANGED FUnch

\* a store call may wedge (ctx-ignoring store) before it takes effect
StoreWedge ==
  /\ fpc = "work" /\ fstage \in {"create", "close", "update"} /\ ~wedged /\ wedges > 0
  /\ wedged' = TRUE /\ wedges' = wedges - 1
  /\ Act("store.wedge", 0)
  /\ UNCHANGED << fpc, fstage, fidx, fval, ffile, files, meta, nfile, faults, answers, creates, lateCreates, lateOn >>
  /\ UNCHANGED FUnch

StoreUnwedge ==
  /\ wedged /\ wedged' = FALSE
  /\ Act("store.unwedge", 0)
  /\ UNCHANGED << fpc, fstage, fidx, fval, ffile, files, meta, nfile, faults, wedges, answers, creates, lateCreates, lateOn >>
  /\ UNCHANGED FUnch

FlushCreate(ok) ==
  /\ fpc = "work" /\ fstage = "create" /\ ~wedged
  /\ creates' = creates + 1
  /\ lateCreates' = IF flate THEN lateCreates + 1 ELSE lateCreates
  /\ UNCHANGED lateOn
  /\ IF ok
       THEN /\ nfile' = nfile + 1 /\ ffile' = nfile + 1
            /\ files' = [files EXCEPT ![nfile + 1] = [st |-> "tmp", rows |-> freq.rows]]
            /\ fstage' = "close" /\ UNCHANGED << faults, fval >>
            /\ Act("store.create.ok", 0)
       ELSE /\ faults > 0 /\ faults' = faults - 1
            /\ fstage' = "ack" /\ fval' = "err" /\ UNCHANGED << nfile, ffile, files >>
            /\ Act("store.create.err", 0)
  /\ UNCHANGED << fpc, fidx, wedged, meta, wedges, answers >>
  /\ UNCHANGED FUnch

\* Write*/Close: on failure the writer is aborted and the pointer tombstoned
FlushClose(ok) ==
  /\ fpc = "work" /\ fstage = "close" /\ ~wedged
  /\ IF ok
       THEN /\ files' = [files EXCEPT ![ffile].st = "pub"]
            /\ fstage' = "update" /\ UNCHANGED << faults, fval >>
            /\ Act("store.close.ok", 0)
       ELSE /\ faults > 0 /\ faults' = faults - 1
            /\ files' = [files EXCEPT ![ffile].st = "gone"]
            /\ fstage' = "ack" /\ fval' = "err"
            /\ Act("store.close.err", 0)
  /\ UNCHANGED << fpc, fidx, ffile, wedged, meta, nfile, wedges, answers, creates, lateCreates, lateOn >>
  /\ UNCHANGED FUnch

FlushUpdate(ok) ==
  /\ fpc = "work" /\ fstage = "update" /\ ~wedged
  /\ IF ok
       THEN /\ meta' = meta \cup {ffile} /\ fstage' = "ack" /\ fval' = "nil"
            /\ UNCHANGED << faults, files >>
            /\ Act("store.update.ok", 0)
       ELSE /\ faults > 0 /\ faults' = faults - 1
            /\ files' = [files EXCEPT ![ffile].st = "gone"]
            /\ fstage' = "ack" /\ fval' = "err" /\ UNCHANGED meta
            /\ Act("store.update.err", 0)
  /\ UNCHANGED << fpc, fidx, ffile, wedged, nfile, wedges, answers, creates, lateCreates, lateOn >>
  /\ UNCHANGED FUnch

\* one blocking send per waiter, in order
FlushAck ==
  /\ fpc = "work" /\ fstage = "ack"
  /\ IF fidx > Len(freq.w)
       THEN /\ fpc' = fret /\ fstage' = "none" /\ UNCHANGED << answers, fidx >>
            /\ Act("flush.done", 0)
       ELSE /\ SendEnabled(freq.w[fidx])
            /\ answers' = SendEffect(freq.w[fidx], fval)
            /\ fidx' = fidx + 1 /\ UNCHANGED << fpc, fstage >>
            /\ Act("flush.ack", freq.w[fidx])
  /\ UNCHANGED << fval, ffile, wedged, files, meta, nfile, faults, wedges, creates, lateCreates, lateOn >>
  /\ UNCHANGED FUnch

(***************************************************************************)
(* Stop and its context                                                    *)
(***************************************************************************)
SUnch == << started, cpc, cres, ich, fch, apc, aret, buf, waiters, areq, fpc, fret, freq, fstage,
            fidx, fval, ffile, flate, wedged, files, meta, nfile, faults, wedges, accSeq,
            creates, lateCreates, lateOn >>

StopArm ==
  /\ StopMode # "none" /\ spc = "none" /\ spc' = "armed"
  /\ Act("stop.armed", 0)
  /\ UNCHANGED << readers, wWaiting, stopped, bctx, fctx, answers, deadline, afRan >> /\ UNCHANGED SUnch

\* closes the stopping channel (when repaired) ...
StopClosing ==
  /\ spc = "armed" /\ spc' = "closing"
  /\ Act("stop.closing", 0)
  /\ UNCHANGED << readers, wWaiting, stopped, bctx, fctx, answers, deadline, afRan >> /\ UNCHANGED SUnch

\* ... and only then asks for the write lock: a caller can still take the read lock in between, pass the
\* stopped check and find the stopping channel closed (seen in traces of the real engine)
StopLockReq ==
  /\ spc = "closing" /\ spc' = "waitlock" /\ wWaiting' = TRUE
  /\ Act("stop.lockreq", 0)
  /\ UNCHANGED << readers, stopped, bctx, fctx, answers, deadline, afRan >> /\ UNCHANGED SUnch

\* FixStopDrains: a never-started engine gets its workers from Stop itself
\* (under the state lock), so whatever was accepted is drained exactly like on
\* a started engine.
StopFlag ==
  /\ spc = "waitlock" /\ readers = {}
  /\ stopped' = TRUE /\ wWaiting' = FALSE /\ spc' = "flagged"
  /\ IF FixStopDrains /\ ~started
       THEN /\ started' = TRUE /\ apc' = "idle" /\ fpc' = "idle"
            /\ UNCHANGED << cpc, cres, ich, fch, aret, buf, waiters, areq, fret, freq, fstage,
                            fidx, fval, ffile, flate, wedged, files, meta, nfile, faults, wedges,
                            accSeq, creates, lateCreates, lateOn >>
       ELSE UNCHANGED SUnch
  /\ Act("stop.flagged", 0)
  /\ UNCHANGED << readers, bctx, fctx, answers, deadline, afRan >>

StopCancel ==
  /\ spc = "flagged" /\ bctx' = TRUE /\ spc' = "waiting"
  /\ Act("stop.canceled", 0)
  /\ UNCHANGED << readers, wWaiting, stopped, fctx, answers, deadline, afRan >> /\ UNCHANGED SUnch

WorkersDone == (apc \in {"done", "notstarted"}) /\ (fpc \in {"done", "notstarted"})

StopRetNil ==
  /\ spc = "waiting" /\ WorkersDone /\ (FixStopExpiry => deadline # "fired") /\ spc' = "ret_nil"
  /\ Act("stop.ret_nil", 0)
  /\ UNCHANGED << readers, wWaiting, stopped, bctx, fctx, answers, deadline, afRan >> /\ UNCHANGED SUnch

StopRetDeadline ==
  /\ spc = "waiting" /\ deadline = "fired" /\ spc' = "ret_deadline"
  /\ fctx' = (fctx \/ FixStopCancels)
  /\ Act("stop.ret_deadline", 0)
  /\ UNCHANGED << readers, wWaiting, stopped, bctx, answers, deadline, afRan >> /\ UNCHANGED SUnch

\* FixStopCancels: Stop's own watcher goroutine (armed before anything can block)
StopWatch ==
  /\ FixStopCancels /\ deadline = "fired" /\ spc \notin {"none", "ret_nil"} /\ ~fctx
  /\ fctx' = TRUE
  /\ Act("stop.watch", 0)
  /\ UNCHANGED << readers, wWaiting, stopped, bctx, answers, spc, deadline, afRan >> /\ UNCHANGED SUnch

DeadlineFire ==
  /\ deadline = "pending" /\ spc # "none" /\ deadline' = "fired"
  /\ Act("ctx.deadline", 0)
  /\ UNCHANGED << readers, wWaiting, stopped, bctx, fctx, answers, spc, afRan >> /\ UNCHANGED SUnch

\* the context runs the AfterFunc callback whenever it likes after expiry,
\* unless Stop already finished gracefully (stopAfter())
AfterFuncRun ==
  /\ deadline = "fired" /\ ~afRan /\ spc \notin {"none", "ret_nil"}
  /\ afRan' = TRUE /\ fctx' = TRUE
  /\ Act("ctx.afterfunc", 0)
  /\ UNCHANGED << readers, wWaiting, stopped, bctx, answers, spc, deadline >> /\ UNCHANGED SUnch

\* the caller of a "late" channel starts receiving
RecvStart(b) ==
  /\ Chan[b] = "late" /\ b \notin lateOn /\ cpc[b] # "idle"
  /\ lateOn' = lateOn \cup {b}
  /\ Act("recvstart", b)
  /\ UNCHANGED << readers, wWaiting, started, stopped, bctx, fctx, cpc, cres, ich, fch, apc, aret, buf, waiters,
                  areq, fpc, fret, freq, fstage, fidx, fval, ffile, flate, wedged, files, meta, nfile,
                  faults, wedges, answers, accSeq, creates, lateCreates, spc, deadline, afRan >>

Next ==
  \/ \E b \in Batches : RecvStart(b)
  \/ \E b \in Batches : ClientCheck(b) \/ ClientSend(b) \/ ClientStopping(b) \/ FlushReturn(b)
  \/ StartCall
  \/ ActorRecv \/ ActorTick \/ ActorCtxDone \/ ActorDrainRecv \/ ActorFinalFlush
  \/ ActorEnqueued \/ ActorEnqueueAborted \/ ActorDirectAck
  \/ FlusherRecv \/ FlusherShutdown \/ FlusherIngestDone \/ FlusherExit
  \/ FlushCheck \/ StoreWedge \/ StoreUnwedge
  \/ \E ok \in BOOLEAN : FlushCreate(ok) \/ FlushClose(ok) \/ FlushUpdate(ok)
  \/ FlushAck
  \/ StopArm \/ StopClosing \/ StopLockReq \/ StopFlag \/ StopCancel \/ StopRetNil \/ StopRetDeadline
  \/ StopWatch \/ DeadlineFire \/ AfterFuncRun

Spec == Init /\ [][Next]_vars

\* Fairness for liveness: the engine's own goroutines and the API callers make
\* progress; failures, wedges, the deadline and Stop itself are not forced,
\* but a wedged call is eventually released.
EngineStep ==
  \/ \E b \in Batches : RecvStart(b)
  \/ \E b \in Batches : ClientCheck(b) \/ ClientSend(b) \/ ClientStopping(b) \/ FlushReturn(b)
  \/ StartCall
  \/ ActorRecv \/ ActorTick \/ ActorCtxDone \/ ActorDrainRecv \/ ActorFinalFlush
  \/ ActorEnqueued \/ ActorEnqueueAborted \/ ActorDirectAck
  \/ FlusherRecv \/ FlusherShutdown \/ FlusherIngestDone \/ FlusherExit
  \/ FlushCheck \/ StoreUnwedge
  \/ FlushCreate(TRUE) \/ FlushClose(TRUE) \/ FlushUpdate(TRUE) \/ FlushAck
  \/ StopClosing \/ StopLockReq \/ StopFlag \/ StopCancel \/ StopRetNil \/ StopWatch

\* LiveSpec: everything the engine does is eventually done; a wedged store call
\* is eventually released.  LiveSpecWedged: wedged calls may stay wedged for
\* ever, but the deadline fires and Stop's deadline branch is taken when enabled.
LiveSpec == Spec /\ WF_vars(EngineStep)
LiveSpecWedged ==
  Spec /\ WF_vars(EngineStep /\ ~StoreUnwedge) /\ WF_vars(StopArm) /\ WF_vars(DeadlineFire) /\ WF_vars(StopRetDeadline)

(***************************************************************************)
(* Observables and properties (the text WritePathMonitor evaluates too)    *)
(***************************************************************************)
Accepted(b) == cres[b] \in {"nil", "flushed", "flusherr"} \/ cpc[b] = "waitflush"
Vis(b) == Cardinality({f \in meta : files[f].st = "pub" /\ b \in files[f].rows})
Pos(b) == CHOOSE i \in 1..Len(accSeq) : accSeq[i] = b
AcceptedBefore(b2, b) == Accepted(b2) /\ Accepted(b) /\ Pos(b2) < Pos(b)

TypeOK ==
  /\ readers \subseteq Batches /\ Len(ich) <= IBS /\ Len(fch) <= 1
  /\ \A b \in Batches : Len(answers[b]) <= 2

\* C05
AtMostOnce == \A b \in Batches : Len(answers[b]) <= 1
StopNilDrained ==
  spc = "ret_nil" => \A b \in Batches : Accepted(b) /\ Receivable(b) => Len(answers[b]) = 1

\* C06
AckNilDurable == \A b \in Batches : Kind[b] = "rows" /\ answers[b] # <<>> /\ answers[b][1] = "nil" => Vis(b) = 1
AckErrAbsent  == \A b \in Batches : Kind[b] \in {"rows", "bad"} /\ answers[b] # <<>> /\ answers[b][1] = "err" => Vis(b) = 0
NeverTwiceVisible == \A b \in Batches : Vis(b) <= 1
RejectLeavesNoTrace == \A b \in Batches : Kind[b] \in {"bad", "empty", "force"} => Vis(b) = 0

\* C07 (action property): a nil for a non-empty batch or a Flush is a barrier
NewNil(b) == Len(answers'[b]) > Len(answers[b]) /\ answers'[b][Len(answers'[b])] = "nil"
AckOrderStep ==
  \A b \in Batches : Kind[b] \in {"rows", "force"} /\ NewNil(b) =>
     \A b2 \in Batches : Kind[b2] = "rows" /\ AcceptedBefore(b2, b) =>
        /\ Receivable(b2) => Len(answers'[b2]) >= 1
        /\ (Len(answers'[b2]) >= 1 /\ answers'[b2][1] = "nil") => Vis(b2)' = 1
        \* a nil-channel batch has no answer to wait for, but it still must be durable or failed
AckOrder == [][AckOrderStep]_vars

\* C08
RefuseAfterStop == [][stopped => accSeq' = accSeq \/ \E b \in readers : accSeq' = Append(accSeq, b)]_vars
NoLateStoreWork == lateCreates = 0
Terminal == WorkersDone /\ spc \in {"ret_nil", "ret_deadline"} /\ \A b \in Batches : cpc[b] \in {"done", "idle"}
\* a "late" channel whose receiver is not there cannot receive: after a deadline
\* return only channels that can take a value at any time are owed an answer
WaitersToldAtEnd ==
  Terminal => \A b \in Batches :
     (Accepted(b) /\ (Chan[b] \in {"buf", "unbuf"} \/ (spc = "ret_nil" /\ Chan[b] = "late"))) => Len(answers[b]) = 1

\* C09
Unanswered == {b \in Batches : Accepted(b) /\ Chan[b] # "nil" /\ answers[b] = <<>>}
Backpressure == Cardinality(Unanswered) <= IBS + 3 * (MBR + 1) + 1

\* C10
LimitFlushImmediate == apc \in {"idle", "drain"} => Cardinality(buf) < MBR

\* Liveness (LiveSpec only; no Stop, no faults in the live configuration):
EventuallyAnswered ==
  \A b \in Batches : (Accepted(b) /\ Receivable(b)) ~> (Len(answers[b]) = 1)
\* C08: with a deadline, Stop returns whatever is wedged, and whatever the
\* context does with its AfterFunc callbacks (AfterFuncRun is not fair)
StopReturns == (spc = "armed") ~> (spc \in {"ret_nil", "ret_deadline"})
==========================================================================
