#!/bin/sh
# usage: port_seed.sh <patch.diff> [base-commit]
# Re-bases a seeded change onto /repo's HEAD when it no longer applies (the repository gained add-only hook lines since
# the change was made against <base-commit>, default 71d565a): in a scratch worktree of the base the change is applied,
# then the commits base..HEAD are replayed over it as a patch with fuzz (a hook whose surroundings the change rewrote is
# dropped), both builds are checked, and the patch is rewritten in place as a diff against HEAD.
p="$1"; base="${2:-71d565a}"
export GOFLAGS=-mod=mod GOPROXY=off
if git -C /repo apply --check "$p" 2>/dev/null; then echo "clean $p"; exit 0; fi
wt=/tmp/port-$$
git -C /repo worktree add -q --detach $wt $base || exit 2
cd $wt
rc=1
if git apply "$p"; then
  git -C /repo diff $base HEAD -- '*.go' > /tmp/port-$$.hooks
  patch -p1 --fuzz=3 -N -s < /tmp/port-$$.hooks > /tmp/port-$$.log 2>&1
  rej=$(find . -name '*.rej' | wc -l)
  find . -name '*.rej' -delete; find . -name '*.orig' -delete
  if go build ./... && go build -tags verif ./...; then
    git add -A -- '*.go'; git diff --cached HEAD -- '*.go' > /dev/null
    # the ported change as a diff against the repository's HEAD
    head=$(git -C /repo rev-parse HEAD)
    git diff --cached $head -- '*.go' > "$p.new" && mv "$p.new" "$p" && echo "ported $p (files with dropped hook hunks: $rej)" && rc=0
  else echo "BUILD FAILED after porting $p"; fi
else echo "does not apply to $base: $p"; fi
cd /; git -C /repo worktree remove --force $wt; rm -f /tmp/port-$$.hooks /tmp/port-$$.log
exit $rc
