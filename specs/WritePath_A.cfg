SPECIFICATION Spec
CONSTANTS
  Batches = {1, 2, 3}
  Kind <- KindA
  Chan <- ChanA
  Prev <- PrevA
  IBS = 1
  MBR = 2
  WithStart = TRUE
  StartFirst = FALSE
  StopMode = "deadline"
  MaxFaults = 1
  MaxWedges = 1
  FixStopCancels = TRUE
  FixStopUnblocks = TRUE
  FixStopExpiry = TRUE
  FixStopDrains = TRUE
VIEW view
INVARIANTS TypeOK AtMostOnce StopNilDrained AckNilDurable AckErrAbsent NeverTwiceVisible
  RejectLeavesNoTrace NoLateStoreWork WaitersToldAtEnd Backpressure LimitFlushImmediate
PROPERTIES AckOrder RefuseAfterStop
CHECK_DEADLOCK FALSE
