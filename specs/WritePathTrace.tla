-------------------------- MODULE WritePathTrace --------------------------
(***************************************************************************)
(* Trace validation of the real write path against WritePath.tla: a trace   *)
(* recorded by cmd/wp (hook points, store-call returns, harness actions) is *)
(* translated into the labels WritePath's actions carry in `act`; each line  *)
(* must be explained by the action of that name (and batch), and the model  *)
(* actions that have no observation point (the per-waiter acknowledgement   *)
(* sends, the flush worker's internal begin/done, Stop's lock request and   *)
(* watcher, the ticker) may be taken silently in between. The trace is       *)
(* accepted when TLC reaches its end.                                       *)
(***************************************************************************)
EXTENDS WritePath, Json

CONSTANT TraceFile
T == ndJsonDeserialize(TraceFile)
VARIABLE l

\* actor.ack_empty / actor.ack_reject: the hook sits before the blocking send, the action is the completed send
Silent == {"flush.begin", "flush.ack", "flush.done", "stop.closing", "stop.lockreq", "stop.watch", "actor.tick", "actor.ack_empty", "actor.ack_reject"}

TNext ==
  \/ /\ l <= Len(T) /\ Next
     /\ act'.n = T[l].n /\ (T[l].b = 0 \/ act'.b = T[l].b)
     /\ l' = l + 1
  \/ /\ l <= Len(T) /\ Next /\ act'.n \in Silent /\ l' = l
TSpec == Init /\ l = 1 /\ [][TNext]_<< vars, l >>

\* violated exactly when the whole trace has been explained
NotAccepted == l <= Len(T)
\* the furthest line reached (reported when the trace is rejected)
HighWater == IF l > TLCGet(1) THEN TLCSet(1, l) ELSE TRUE
ASSUME TLCSet(1, 0)
ReportHW == PrintT(<< "HIGHWATER", TLCGet(1), Len(T) >>)
=============================================================================
