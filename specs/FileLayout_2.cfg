SPECIFICATION Spec
CONSTANTS
  Dom <- DomPair
  NBlocks = 2
INVARIANTS AcceptImpliesSafe WriterLayoutAccepted
CHECK_DEADLOCK FALSE
