#!/usr/bin/env python3
"""Binding demonstration for WritePathTrace.tla (run by hand): a recorded trace of the real engine is accepted; the same
trace with one event dropped, two events swapped, or one batch id changed is rejected.
usage: wptrace_binding.py <programs.json> <traces.ndjson>   (as written by .build/wp -out DIR)"""
import collections, copy, json, os, sys, tempfile
sys.path.insert(0, os.path.join(os.path.dirname(os.path.dirname(os.path.abspath(__file__))), "lib"))
import wptrace

progs = json.load(open(sys.argv[1]))
traces = collections.defaultdict(list)
for line in open(sys.argv[2]):
    e = json.loads(line)
    traces[e["t"]].append(e)
pr = next(p for p in progs if wptrace.eligible(p["program"]) and p["program"]["name"] == "A-flush-stop")
consts, tr = wptrace.translate(pr["program"], traces[pr["trace"]])
work = tempfile.mkdtemp(prefix="wpbind-")
def run(name, t):
    d = os.path.join(work, name)
    wptrace.write_model(d, consts, t)
    r = wptrace._one((d, 120))
    print("%-34s accepted=%s explained=%s" % (name, r["accepted"], r["hw"]))
    return r["accepted"]
ok = run("original", tr)
i = next(k for k, e in enumerate(tr) if e["n"] == "store.update.ok")
bad1 = run("store.update.ok dropped", tr[:i] + tr[i + 1:])
j = next(k for k, e in enumerate(tr) if e["n"] == "store.create.ok")
t2 = copy.deepcopy(tr); t2[j], t2[j + 1] = t2[j + 1], t2[j]
bad2 = run("create/close swapped", t2)
t3 = copy.deepcopy(tr)
k = next(k for k, e in enumerate(t3) if e["n"] == "actor.recv" and e["b"] == 1); t3[k]["b"] = 4
bad3 = run("actor.recv batch changed", t3)
t4 = [e for e in tr if e["n"] != "stop.flagged"]
bad4 = run("stop.flagged hook removed", t4)
sys.exit(0 if ok and not (bad1 or bad2 or bad3 or bad4) else 1)
