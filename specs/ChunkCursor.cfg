SPECIFICATION Spec
CONSTANTS
  MaxOff = 5
  MaxSize = 2
  MaxCap = 3
  NBlocks = 4
INVARIANTS EveryCandidateDecodedFromItsOwnBytes ReadsInsideSections ReadLenBounded ReadsStartAtSections AtMostOneReadPerCandidate ForwardLayoutOneReadPerCapWindow
CHECK_DEADLOCK FALSE
