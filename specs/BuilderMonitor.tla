--------------------------- MODULE BuilderMonitor ---------------------------
(***************************************************************************)
(* Judges programs run over the real query API (cmd/builder): every        *)
(* expression the caller defined, its JSON image, every built Query and    *)
(* its JSON image must evaluate - on every truth assignment - to what the  *)
(* tree the caller wrote means under BuilderOps.tla's Eval.                *)
(***************************************************************************)
EXTENDS BuilderOps, Json

CONSTANT ObsFile
Obs == ndJsonDeserialize(ObsFile)
NObs == Len(Obs)
VARIABLES l, viol
vars == << l, viol >>

SetOf(s) == { s[i] : i \in 1..Len(s) }
AsgsOf(kind) == IF kind = "pre" THEN 0..3 ELSE 0..15
ConjSet(es, A) == { a \in A : \A i \in 1..Len(es) : Eval(es[i], a) }

C25_ExpressionMeansWhatWasWritten(o) ==
  \A i \in 1..Len(o.defs) : LET d == o.defs[i] IN SetOf(d.obs) = TruthSet(d.written, AsgsOf(d.kind))
C25_ExpressionSurvivesJSON(o) ==
  \A i \in 1..Len(o.defs) : LET d == o.defs[i] IN ~d.json_err /\ SetOf(d.obs_json) = TruthSet(d.written, AsgsOf(d.kind))
C25_ChainMeansConjunction(o) ==
  \A i \in 1..Len(o.chains) : LET c == o.chains[i] IN
     /\ SetOf(c.obs) = ConjSet(c.bloom, 0..15) \cap ConjSet(c.regex, 0..15)
     /\ SetOf(c.pre_obs) = ConjSet(c.pre, 0..3)
     /\ ~c.qerr
C25_QuerySurvivesJSON(o) ==
  \A i \in 1..Len(o.chains) : LET c == o.chains[i] IN
     /\ ~c.json_err
     /\ SetOf(c.obs_json) = ConjSet(c.bloom, 0..15) \cap ConjSet(c.regex, 0..15)
     /\ SetOf(c.pre_obs_json) = ConjSet(c.pre, 0..3)
C25_NoPanic(o) == o.panic = ""
C27_Silent(o) == o.stdio = 0

Props(o) ==
  [ C25_ExpressionMeansWhatWasWritten |-> C25_ExpressionMeansWhatWasWritten(o), C25_ExpressionSurvivesJSON |-> C25_ExpressionSurvivesJSON(o),
    C25_ChainMeansConjunction |-> C25_ChainMeansConjunction(o), C25_QuerySurvivesJSON |-> C25_QuerySurvivesJSON(o),
    C25_NoPanic |-> C25_NoPanic(o), C27_Silent |-> C27_Silent(o) ]

Init == l = 1 /\ viol = {}
Next == /\ l <= NObs
        /\ LET o == Obs[l] pr == Props(o) IN
             viol' = viol \cup { [p |-> n, id |-> o.id] : n \in { x \in DOMAIN pr : ~pr[x] } }
        /\ l' = l + 1
Spec == Init /\ [][Next]_vars
Report == (l = NObs + 1) => PrintT(<<"MONITOR-REPORT", ToJson([events |-> NObs, violations |-> viol])>>)
RECURSIVE SumSeq(_, _)
SumSeq(F(_), n) == IF n = 0 THEN 0 ELSE F(Obs[n]) + SumSeq(F, n - 1)
Stats == (l = NObs + 1) => PrintT(<<"MONITOR-STATS", ToJson([
    definitions |-> SumSeq(LAMBDA o : Len(o.defs), NObs), chains |-> SumSeq(LAMBDA o : Len(o.chains), NObs),
    nonconstant |-> SumSeq(LAMBDA o : Cardinality({ i \in 1..Len(o.defs) : Len(o.defs[i].obs) \notin {0, 4, 16} }), NObs),
    chains_with_match |-> SumSeq(LAMBDA o : Cardinality({ i \in 1..Len(o.chains) : \E j \in 1..Len(o.chains[i].calls) : o.chains[i].calls[j] = "match" }), NObs) ])>>)
AllConsumed == TLCGet("stats").diameter = NObs + 1
=============================================================================
