// Command wp runs write-path programs against the real engine and writes the
// recorded histories (NDJSON) for WritePathMonitor.tla.
package main

import (
	"encoding/json"
	"flag"
	"fmt"
	"math/rand"
	"os"
	"path/filepath"
	"strings"
	"time"

	"verifharness/internal/h"
	"verifharness/internal/wp"
)

type record struct {
	Trace   int64       `json:"trace"`
	Program *wp.Program `json:"program"`
	Result  wp.Result   `json:"result"`
}

func main() {
	out := flag.String("out", "", "output directory")
	seed := flag.Int64("seed", 1, "seed")
	tier := flag.String("tier", "quick", "quick|thorough")
	only := flag.String("only", "", "run only programs whose name contains this")
	families := flag.String("families", "base,fault,bp,limit,timed,stress", "program families")
	replay := flag.String("replay", "", "programs.json to re-run verbatim")
	flag.Parse()
	if *out == "" {
		fmt.Fprintln(os.Stderr, "need -out")
		os.Exit(2)
	}
	os.MkdirAll(*out, 0o755)
	guard := h.CaptureStdio()
	scratch := filepath.Join(*out, "scratch")
	os.MkdirAll(scratch, 0o755)
	defer os.RemoveAll(scratch)

	tr, err := h.NewTracer(filepath.Join(*out, "traces.ndjson"), h.Ev{
		"ev": "", "b": 0, "name": "", "role": "", "res": "", "a": 0, "n": 0, "ptr": "", "parts": []int{}})
	h.Must(err, "tracer")
	rng := rand.New(rand.NewSource(*seed))
	thorough := *tier == "thorough"
	var records []record
	var traceID int64
	start := time.Now()

	runOne := func(p *wp.Program) wp.Result {
		traceID++
		before := guard.Len()
		t0 := time.Now()
		res := wp.Run(p, tr, traceID, scratch)
		if os.Getenv("WP_DEBUG") != "" {
			fmt.Fprintf(h.ErrOut, "%s %v %s\n", p.Name, time.Since(t0), res.Note)
		}
		if n := guard.Len(); n > before {
			res.Stdio = guard.Since(before)
			tr.Emit(h.Ev{"ev": "stdio", "a": n - before})
		}
		records = append(records, record{Trace: traceID, Program: p, Result: res})
		return res
	}
	want := func(name string) bool { return *only == "" || strings.Contains(name, *only) }
	fam := map[string]bool{}
	for _, f := range strings.Split(*families, ",") {
		fam[f] = true
	}

	if *replay != "" {
		b, err := os.ReadFile(*replay)
		h.Must(err, "read replay")
		var recs []record
		h.Must(json.Unmarshal(b, &recs), "parse replay")
		for _, rc := range recs {
			runOne(rc.Program)
		}
	} else {
		if fam["base"] {
			for _, p := range wp.BasePrograms() {
				if !want(p.Name) {
					continue
				}
				res := runOne(p)
				seen := map[string]bool{}
				var points []wp.Delay
				for _, s := range res.Points {
					if d, ok := wp.ParsePoint(s); ok && !seen[s] && d.Role != "unknown" {
						seen[s] = true
						points = append(points, d)
					}
				}
				// every engine hook and every create/close/update/abort/tombstone call is delayed once; of the many
				// Write calls a seeded handful (all of them in the thorough tier)
				rng.Shuffle(len(points), func(a, b int) { points[a], points[b] = points[b], points[a] })
				writes := 0
				for _, d := range points {
					if strings.HasPrefix(d.Point, "store.write") {
						writes++
						if !thorough && writes > 6 {
							continue
						}
					}
					runOne(wp.WithDelays(p, d))
					// a caller held between its stopped-check and its send races Stop through a select whose ready
					// cases are picked at random: look at that window a few more times
					if d.Point == "ingest.checked" || d.Point == "ingest.sent" {
						for k := 0; k < 3; k++ {
							runOne(wp.WithDelays(p, d))
						}
					}
				}
				if thorough {
					for k := 0; k < 40 && len(points) > 1; k++ {
						a, b := points[rng.Intn(len(points))], points[rng.Intn(len(points))]
						if a != b {
							runOne(wp.WithDelays(p, a, b))
						}
					}
				}
			}
		}
		if fam["fault"] {
			for _, p := range wp.FaultPrograms(thorough) {
				if want(p.Name) {
					runOne(p)
				}
			}
		}
		if fam["bp"] {
			for _, p := range wp.BackpressurePrograms() {
				if want(p.Name) {
					runOne(p)
				}
			}
		}
		if fam["limit"] {
			n := 20
			if thorough {
				n = 200
			}
			for _, p := range wp.LimitPrograms(rng, n) {
				if want(p.Name) {
					runOne(p)
				}
			}
		}
		if fam["timed"] {
			for _, p := range wp.TimedPrograms() {
				if want(p.Name) {
					runOne(p)
				}
			}
		}
		if fam["stress"] {
			n := 30
			if thorough {
				n = 400
			}
			for _, p := range wp.StressPrograms(rng, n) {
				if want(p.Name) {
					runOne(p)
				}
			}
		}
	}
	h.Must(tr.Close(), "close tracer")
	h.Must(h.WriteJSON(filepath.Join(*out, "programs.json"), records), "programs.json")
	unsettled, infeasible := 0, 0
	for _, r := range records {
		if !r.Result.Settled {
			unsettled++
		}
		if r.Result.Infeasible {
			infeasible++
		}
	}
	h.Must(h.WriteJSON(filepath.Join(*out, "summary.json"), map[string]any{
		"traces": len(records), "unsettled": unsettled, "infeasible": infeasible,
		"stdio_bytes": guard.Len(), "wall_s": time.Since(start).Seconds(),
	}), "summary.json")
	guard.Restore()
	fmt.Printf("wp: %d traces, %d unsettled, %d infeasible, %d stdio bytes, %.1fs\n",
		len(records), unsettled, infeasible, guard.Len(), time.Since(start).Seconds())
}
