package h

import (
	"bytes"
	"runtime"
	"strings"
	"sync"
	"time"
)

// ---------------------------------------------------------------------------
// Quiescence: every goroutine except the caller is parked in a wait state.

var stackBuf = make([]byte, 1<<20)
var stackMu sync.Mutex

// busyStates are goroutine states that mean "may still make progress on its
// own". Everything else (chan receive/send, select, semacquire, sync.*,
// GC/finalizer idle states) is parked.
func goroutineBusy(state string) bool {
	switch {
	case strings.HasPrefix(state, "running"),
		strings.HasPrefix(state, "runnable"),
		strings.HasPrefix(state, "syscall"),
		strings.HasPrefix(state, "sleep"),
		strings.HasPrefix(state, "GC assist"),
		strings.HasPrefix(state, "preempted"),
		strings.HasPrefix(state, "copystack"):
		return true
	}
	return false
}

// snapshotBusy reports how many goroutines other than the caller are busy.
func snapshotBusy() int {
	stackMu.Lock()
	defer stackMu.Unlock()
	n := runtime.Stack(stackBuf, true)
	for n == len(stackBuf) {
		stackBuf = make([]byte, 2*len(stackBuf))
		n = runtime.Stack(stackBuf, true)
	}
	dump := stackBuf[:n]
	busy := 0
	first := true
	for len(dump) > 0 {
		i := bytes.Index(dump, []byte("goroutine "))
		if i < 0 {
			break
		}
		if i > 0 && dump[i-1] != '\n' {
			dump = dump[i+10:]
			continue
		}
		dump = dump[i:]
		lb := bytes.IndexByte(dump, '[')
		rb := bytes.IndexByte(dump, ']')
		nl := bytes.IndexByte(dump, '\n')
		if lb < 0 || rb < 0 || (nl >= 0 && lb > nl) {
			dump = dump[10:]
			continue
		}
		state := string(dump[lb+1 : rb])
		if first {
			// The first goroutine in an all-goroutines dump is the caller.
			first = false
		} else if goroutineBusy(state) {
			busy++
		}
		if nl < 0 {
			break
		}
		dump = dump[nl+1:]
	}
	return busy
}

// Quiesce waits until two consecutive samples show no busy goroutine and the
// activity counter did not move between them. It returns false on timeout.
func Quiesce(activity func() int64, timeout time.Duration) bool {
	deadline := time.Now().Add(timeout)
	okStreak := 0
	last := activity()
	for {
		runtime.Gosched()
		if snapshotBusy() == 0 {
			cur := activity()
			if cur == last {
				okStreak++
				if okStreak >= 2 {
					return true
				}
			} else {
				okStreak = 0
				last = cur
			}
		} else {
			okStreak = 0
			last = activity()
		}
		if time.Now().After(deadline) {
			return false
		}
		spin(100 * time.Microsecond)
	}
}

// spin waits without time.Sleep-induced timer goroutine noise mattering: the
// caller is excluded from the busy count anyway.
func spin(d time.Duration) {
	time.Sleep(d)
}

// ---------------------------------------------------------------------------
// Gates: named hold points. A goroutine arriving at a held point parks until
// released. Arrival and release are visible to the director.

type parked struct {
	role  string
	point string
	ch    chan struct{}
	seq   int64
}

type Gates struct {
	mu      sync.Mutex
	holds   map[string]int // key role|point -> remaining holds (-1 = always)
	parked  []*parked
	arrived int64
	cond    *sync.Cond
}

func NewGates() *Gates {
	g := &Gates{holds: map[string]int{}}
	g.cond = sync.NewCond(&g.mu)
	return g
}

func gateKey(role, point string) string { return role + "|" + point }

// Hold arms a hold for the next n arrivals of role at point (n<0: all).
func (g *Gates) Hold(role, point string, n int) {
	g.mu.Lock()
	g.holds[gateKey(role, point)] = n
	g.mu.Unlock()
}

// Unhold disarms the hold (already parked goroutines stay parked).
func (g *Gates) Unhold(role, point string) {
	g.mu.Lock()
	delete(g.holds, gateKey(role, point))
	g.mu.Unlock()
}

// Arrive is called by the goroutine reaching a point. It parks when the point
// is held for this role (or for role "*").
func (g *Gates) Arrive(role, point string) {
	g.mu.Lock()
	key := gateKey(role, point)
	n, ok := g.holds[key]
	if !ok {
		key = gateKey("*", point)
		n, ok = g.holds[key]
	}
	if !ok || n == 0 {
		g.mu.Unlock()
		return
	}
	if n > 0 {
		g.holds[key] = n - 1
	}
	p := &parked{role: role, point: point, ch: make(chan struct{})}
	g.arrived++
	p.seq = g.arrived
	g.parked = append(g.parked, p)
	g.cond.Broadcast()
	g.mu.Unlock()
	<-p.ch
}

// Activity is a counter that moves whenever a goroutine parks or is released.
func (g *Gates) Activity() int64 {
	g.mu.Lock()
	defer g.mu.Unlock()
	return g.arrived
}

// IsParked reports whether role is parked at point.
func (g *Gates) IsParked(role, point string) bool {
	g.mu.Lock()
	defer g.mu.Unlock()
	for _, p := range g.parked {
		if (role == "*" || p.role == role) && p.point == point {
			return true
		}
	}
	return false
}

// WaitParked waits until role is parked at point.
func (g *Gates) WaitParked(role, point string, timeout time.Duration) bool {
	deadline := time.Now().Add(timeout)
	for {
		if g.IsParked(role, point) {
			return true
		}
		if time.Now().After(deadline) {
			return false
		}
		time.Sleep(100 * time.Microsecond)
	}
}

// Release releases the oldest goroutine parked by role at point.
func (g *Gates) Release(role, point string) bool {
	g.mu.Lock()
	defer g.mu.Unlock()
	for i, p := range g.parked {
		if (role == "*" || p.role == role) && (point == "*" || p.point == point) {
			g.parked = append(g.parked[:i], g.parked[i+1:]...)
			g.arrived++
			close(p.ch)
			return true
		}
	}
	return false
}

// ReleaseAll disarms every hold and releases every parked goroutine.
func (g *Gates) ReleaseAll() {
	g.mu.Lock()
	g.holds = map[string]int{}
	for _, p := range g.parked {
		close(p.ch)
	}
	g.parked = nil
	g.arrived++
	g.mu.Unlock()
}

// Parked lists "role|point" of the parked goroutines in arrival order.
func (g *Gates) Parked() []string {
	g.mu.Lock()
	defer g.mu.Unlock()
	out := make([]string, len(g.parked))
	for i, p := range g.parked {
		out[i] = gateKey(p.role, p.point)
	}
	return out
}

// Roles maps goroutine ids to role names.
type Roles struct {
	mu sync.Mutex
	m  map[int64]string
}

func NewRoles() *Roles { return &Roles{m: map[int64]string{}} }

func (r *Roles) Set(gid int64, role string) {
	r.mu.Lock()
	r.m[gid] = role
	r.mu.Unlock()
}

func (r *Roles) Get(gid int64) string {
	r.mu.Lock()
	defer r.mu.Unlock()
	return r.m[gid]
}

// WaitNoFrames waits until no goroutine's stack mentions any of the given
// function names.
func WaitNoFrames(names []string, timeout time.Duration) bool {
	deadline := time.Now().Add(timeout)
	for {
		stackMu.Lock()
		n := runtime.Stack(stackBuf, true)
		for n == len(stackBuf) {
			stackBuf = make([]byte, 2*len(stackBuf))
			n = runtime.Stack(stackBuf, true)
		}
		found := false
		for _, name := range names {
			if bytes.Contains(stackBuf[:n], []byte(name)) {
				found = true
				break
			}
		}
		stackMu.Unlock()
		if !found {
			return true
		}
		if time.Now().After(deadline) {
			return false
		}
		time.Sleep(200 * time.Microsecond)
	}
}
