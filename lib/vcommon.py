"""Shared plumbing for the /verif check driver: scratch dirs, harness builds,
TLC runs and output parsing, evidence files, known findings, exit codes.

Exit codes: 0 = property held on everything explored (KNOWN-FINDING lines
allowed); 1 = VIOLATION (reproduced on the real code); 2 = infrastructure
trouble (never a verdict)."""
import hashlib
import json
import os
import re
import shutil
import subprocess
import sys
import tempfile
import time

VERIF = os.path.dirname(os.path.dirname(os.path.abspath(__file__)))
REPO = os.environ.get("VERIF_REPO") or os.environ.get("VP_RUN_REPO") or "/repo"
SPECS = os.path.join(VERIF, "specs")
HARNESS = os.path.join(VERIF, "harness")
BUILD = os.path.join(VERIF, ".build")
EVIDENCE = os.path.join(VERIF, "evidence")
REPLAYS = os.path.join(EVIDENCE, "replays")
KNOWN = os.path.join(VERIF, "known_findings.json")

GOENV = dict(os.environ, GOFLAGS="-mod=mod", GOPROXY="off")
GOENV.pop("GOSUMDB", None)
GOENV.pop("GOTOOLCHAIN", None)


class Infra(Exception):
    """Infrastructure failure: exit 2, never a verdict."""


def log(*a):
    print(*a, file=sys.stderr, flush=True)


def scratch_dir(prefix):
    base = os.environ.get("VERIF_SCRATCH", "/tmp")
    os.makedirs(base, exist_ok=True)
    return tempfile.mkdtemp(prefix="verif-%s-" % prefix, dir=base)


def run(cmd, cwd=None, env=None, timeout=None, check=True, capture=True):
    t0 = time.time()
    try:
        p = subprocess.run(cmd, cwd=cwd, env=env, timeout=timeout, stdout=subprocess.PIPE if capture else None,
                           stderr=subprocess.STDOUT if capture else None, text=True, errors="replace")
    except subprocess.TimeoutExpired as e:
        raise Infra("timeout after %ss: %s" % (timeout, " ".join(cmd[:6])))
    out = p.stdout or ""
    if check and p.returncode != 0:
        raise Infra("command failed (%d): %s\n%s" % (p.returncode, " ".join(cmd[:8]), out[-4000:]))
    return p.returncode, out, time.time() - t0


_ENGINE_FRAME = re.compile(r"github\.com/danthegoodman1/bloomsearch\.")


def run_driver(cmd, work, timeout=5400):
    """Runs a Go driver with its standard output/error capture file next to work. Returns (rc, text, seconds, crash):
    crash is the Go runtime's last words when the process died of a panic / fatal error that involves engine frames
    (the engine crashed on the driver's input: a finding, not an infrastructure failure), else None."""
    cap = os.path.join(work, "stdio-%d.cap" % (int(time.time() * 1000) % 1000000))
    env = dict(os.environ, VERIF_STDIO_CAP=cap)
    rc, txt, secs = run(cmd, timeout=timeout, check=False, env=env)
    crash = None
    if rc != 0:
        try:
            last = open(cap, errors="replace").read()[-20000:]
        except OSError:
            last = ""
        m = re.search(r"(panic: |fatal error: )", last)
        if m and _ENGINE_FRAME.search(last[m.start():]):
            crash = last[m.start():m.start() + 6000]
    return rc, txt, secs, crash


class EngineCrash(Exception):
    """The driver's process died of a panic / fatal error involving engine frames."""

    def __init__(self, family, crash, reproduced):
        Exception.__init__(self, "engine crash in %s driver" % family)
        self.family, self.crash, self.reproduced = family, crash, reproduced


def drive(cmd, work, family, timeout=5400):
    """Runs a Go driver. A death inside the engine is re-run once and raised as EngineCrash (a finding when it repeats);
    any other failure is an infrastructure failure."""
    rc, txt, secs, crash = run_driver(cmd, work, timeout)
    if rc != 0 and crash:
        # a crash that depends on goroutine timing need not repeat at once: up to three re-executions
        again = False
        for _ in range(3):
            rc2, _, _, crash2 = run_driver(cmd, work, timeout)
            if rc2 != 0 and crash2 is not None:
                again = True
                break
        raise EngineCrash(family, crash, again)
    if rc != 0:
        raise Infra("%s harness failed (%d): %s" % (family, rc, txt[-3000:]))
    return txt, secs


def crash_violation(props, family, crash, reproduced):
    """One violation per property of the family: every property presupposes that the engine survives the inputs."""
    return [{"pred": "%s_EngineSurvives" % p, "prop": p, "title": "the %s driver's process died inside the engine" % family,
             "sig": {"pred": "EngineSurvives"}, "reproduced": reproduced, "crash": crash} for p in props]


def build_harness(cmd):
    """Rebuild one harness binary against /repo's current working tree."""
    os.makedirs(BUILD, exist_ok=True)
    shutil.copyfile(os.path.join(REPO, "go.sum"), os.path.join(HARNESS, "go.sum"))
    out = os.path.join(BUILD, cmd)
    modflag = []
    if os.path.realpath(REPO) != "/repo":
        # a snapshot of the repository (vp run --with-repo): same module file with the replace directive pointed at it
        alt = os.path.join(BUILD, "go.alt.mod")
        with open(alt, "w") as fh:
            fh.write(open(os.path.join(HARNESS, "go.mod")).read().replace("=> /repo", "=> " + os.path.realpath(REPO)))
        shutil.copyfile(os.path.join(REPO, "go.sum"), os.path.join(BUILD, "go.alt.sum"))
        modflag = ["-modfile=" + alt]
    rc, txt, _ = run(["go", "build", "-tags", "verif"] + modflag + ["-o", out, "./cmd/" + cmd], cwd=HARNESS, env=GOENV,
                     timeout=900, check=False)
    if rc != 0:
        raise Infra("harness build failed (the repository must compile with -tags verif):\n" + txt[-6000:])
    return out


def tree_key(extra=""):
    """Content hash of everything a family result depends on."""
    h = hashlib.sha256()
    for root, pats in ((REPO, (".go", ".mod", ".sum")), (os.path.join(VERIF, "specs"), None),
                       (os.path.join(VERIF, "harness"), (".go", ".mod")), (os.path.join(VERIF, "lib"), (".py",)),
                       (os.path.join(VERIF, "bin"), None)):
        for dp, dn, fn in os.walk(root):
            dn[:] = sorted(d for d in dn if d not in (".git", "test_data", ".build", "__pycache__", "states"))
            for f in sorted(fn):
                if pats and not f.endswith(pats):
                    continue
                p = os.path.join(dp, f)
                try:
                    with open(p, "rb") as fh:
                        h.update(p.encode())
                        h.update(fh.read())
                except OSError:
                    pass
    if os.path.exists(KNOWN):
        h.update(open(KNOWN, "rb").read())
    h.update(extra.encode())
    return h.hexdigest()[:24]


# --------------------------------------------------------------------------- TLC

TLC_JAR = "/opt/veriftools/tla/tla2tools.jar:/opt/veriftools/tla/CommunityModules-deps.jar"


def tlc(workdir, module, cfg, workers=16, timeout=900, extra=None, heap=None, deque=False):
    """Run TLC in workdir (a scratch copy of the specs). Returns (rc, output, seconds)."""
    meta = os.path.join(workdir, "meta-%s-%d" % (os.path.splitext(cfg)[0], int(time.time() * 1000) % 100000))
    jtmp = os.path.join(workdir, "jtmp")
    os.makedirs(jtmp, exist_ok=True)
    # (TLC leaves a tlc-* directory per run in java.io.tmpdir: keep it inside the scratch directory, which is removed)
    cmd = ["java", "-XX:+UseParallelGC", "-Xss64m", "-Djava.io.tmpdir=" + jtmp]
    if heap:
        cmd.append("-Xmx%s" % heap)
    if deque:
        cmd.append("-Dtlc2.tool.queue.IStateQueue=StateDeque")
    cmd += ["-cp", TLC_JAR, "tlc2.TLC", "-metadir", meta, "-workers", str(workers), "-config", cfg]
    cmd += list(extra or [])
    cmd.append(module)
    rc, out, secs = run(cmd, cwd=workdir, timeout=timeout, check=False)
    shutil.rmtree(meta, ignore_errors=True)
    return rc, out, secs


def copy_specs(dst):
    os.makedirs(dst, exist_ok=True)
    for f in os.listdir(SPECS):
        if f.endswith((".tla", ".cfg")):
            shutil.copyfile(os.path.join(SPECS, f), os.path.join(dst, f))
    return dst


_STATES = re.compile(r"(\d+) states generated, (\d+) distinct states found")


def tlc_stats(out):
    m = None
    for m in _STATES.finditer(out):
        pass
    if not m:
        return 0, 0
    return int(m.group(2)), int(m.group(1))  # distinct, generated


def tlc_ok(out):
    return "Model checking completed. No error has been found." in out or "Finished in" in out and "Error:" not in out


def tlc_violations(out):
    """Names of invariants / properties TLC reported as violated."""
    v = re.findall(r"Invariant (\S+) is violated", out)
    v += re.findall(r"Temporal properties were violated", out)
    v += re.findall(r"Action property (\S+) is violated", out)
    return v


def tlc_errors(out):
    errs = [l for l in out.splitlines() if l.startswith("Error:")]
    return [e for e in errs if "is violated" not in e and "behavior up to this point" not in e]


_REPORT = re.compile(r'<<"MONITOR-REPORT", (".*")>>')


def monitor_report(out):
    m = _REPORT.search(out)
    if not m:
        raise Infra("monitor produced no report:\n" + out[-3000:])
    return json.loads(json.loads(m.group(1)))


def coverage_zero_actions(out):
    """From a -coverage run: action names whose count is 0."""
    zero = []
    for line in out.splitlines():
        m = re.match(r"<(\w+) line .*>: (\d+):(\d+)", line.strip())
        if m and m.group(2) == "0":
            zero.append(m.group(1))
    return sorted(set(zero))


# --------------------------------------------------------------------------- evidence / findings

def load_known():
    if not os.path.exists(KNOWN):
        return []
    return json.load(open(KNOWN)).get("findings", [])


def write_evidence(pid, tier, seed, level, coverage, wall, violations, assumptions):
    os.makedirs(EVIDENCE, exist_ok=True)
    ev = {"property_id": pid, "tier": tier, "seed": int(seed), "level": level, "coverage": coverage,
          "assumptions": assumptions, "wall_s": round(wall, 2), "violations": int(violations)}
    tmp = os.path.join(EVIDENCE, ".%s.tmp" % pid)
    with open(tmp, "w") as f:
        json.dump(ev, f, indent=1, sort_keys=True)
    os.replace(tmp, os.path.join(EVIDENCE, "%s.json" % pid))


def write_replay(pid, idx, payload):
    os.makedirs(REPLAYS, exist_ok=True)
    p = os.path.join(REPLAYS, "%s-%d.json" % (pid, idx))
    with open(p, "w") as f:
        json.dump(payload, f, indent=1)
    return p


# --------------------------------------------------------------------------- family cache

def cached_family(name, tier, seed, compute):
    """Families serve several properties; their result is cached under .build,
    keyed by the content of /repo, /verif and the seed, so six checks of one
    family cost one run.  VERIF_NOCACHE=1 disables the cache."""
    os.makedirs(os.path.join(BUILD, "cache"), exist_ok=True)
    key = tree_key("%s|%s|%s" % (name, tier, seed))
    path = os.path.join(BUILD, "cache", "%s-%s-%s.json" % (name, tier, key))
    lock = path + ".lock"
    import fcntl
    with open(lock, "w") as lf:
        fcntl.flock(lf, fcntl.LOCK_EX)
        if os.path.exists(path) and not os.environ.get("VERIF_NOCACHE"):
            try:
                res = json.load(open(path))
                res["from_cache"] = True
                return res
            except Exception:
                pass
        res = compute()
        res["from_cache"] = False
        with open(path + ".tmp", "w") as f:
            json.dump(res, f)
        os.replace(path + ".tmp", path)
        # keep the cache small
        files = sorted((os.path.join(BUILD, "cache", f) for f in os.listdir(os.path.join(BUILD, "cache"))
                        if f.endswith(".json")), key=os.path.getmtime)
        for f in files[:-40]:
            try:
                os.remove(f)
            except OSError:
                pass
        return res


def cached_family_peek(name, tier, seed):
    """The cached result of a family for this tree, or None (never computes)."""
    key = tree_key("%s|%s|%s" % (name, tier, seed))
    path = os.path.join(BUILD, "cache", "%s-%s-%s.json" % (name, tier, key))
    try:
        return json.load(open(path))
    except Exception:
        return None
