// Command query drives the real read path (Query / Results) through
// scenarios derived from QueryPipeline.tla's action space: a pipeline
// goroutine is held at a chosen store call (iterator entry, a yield, an open,
// a read), the consumer / closers / caller context act at that quiescent
// point, store failures are injected at every call position, consumers drain,
// take a few rows or stall, several queries share the concurrency budget with
// every read held until quiescence. One observation per scenario is written
// for QueryMonitor.tla.
package main

import (
	"context"
	"encoding/json"
	"errors"
	"flag"
	"fmt"
	"iter"
	"math/rand"
	"os"
	"runtime"
	"sort"
	"strings"
	"sync"
	"sync/atomic"
	"time"

	bs "github.com/danthegoodman1/bloomsearch"
	"verifharness/internal/h"
)

// ---------------------------------------------------------------------------
// scenario / observation

type scenario struct {
	ID         int      `json:"id"`
	Kind       string   `json:"kind"` // solo | multi
	N          int      `json:"n"`
	Files      int      `json:"files"`
	Blocks     int      `json:"blocks"`
	Rows       int      `json:"rows"` // rows per block
	Bloom      bool     `json:"bloom"`
	Match      string   `json:"match"`       // all | some
	Meta       string   `json:"meta"`        // mem | fs
	Engine     string   `json:"engine"`      // fresh | started | stopped
	Consumer   string   `json:"consumer"`    // drain | take:<k> | stall
	Pause      string   `json:"pause"`       // "" | kind#n
	Actions    []string `json:"actions"`     // at the pause: cancel | close | close2
	Fault      string   `json:"fault"`       // "" | kind#n
	Corrupt    string   `json:"corrupt"`     // "" | f#b : a byte of that block's row data is flipped in the store
	Mid        []string `json:"mid"`         // once the pause is released and a Close issued there has returned, before a stalled consumer resumes: cancel
	After      []string `json:"after"`       // after the first false: next | close | cancel
	Sat        []string `json:"sat"`         // once the pipeline has backed up behind a consumer that is not reading (no goroutine can move): cancel | close
	HookCancel string   `json:"hook_cancel"` // "point#n": the caller cancels from inside the n-th occurrence of that engine hook (right after a slot or reference was released), with one P, so a goroutine the release woke has not run yet
	Cause      bool     `json:"cause"`       // the caller's context is cancelled with a cause of its own (context.WithCancelCause)
	FailPaused bool     `json:"fail_paused"` // the store call held at the pause fails when it is let go (a store that honours the context the caller or Close has cancelled meanwhile)
	NoSections bool     `json:"no_sections"` // the MetaStore describes every block without a filter section (BloomFilterSize 0): nothing to read, every block survives
	Uni        bool     `json:"uni"`         // the whole scenario (probe included) runs on one P: what a worker puts back into a pool is what the next taker gets
	Queries    int      `json:"queries"`     // multi: concurrent queries
	Stalled    int      `json:"stalled"`     // multi: how many of them never call Next
	GateReads  bool     `json:"gate_reads"`
	SlowIter   int      `json:"slow_iter"` // ms the MetaStore iterator takes to wind down once its consumer stops (a slow cursor close)
	Big        int      `json:"big"`       // distinct tokens added to every block: filter sections of MiBs, so the region spans several chunks
}

type handleObs struct {
	File     string `json:"file"`
	Q        int    `json:"q"`
	Closes   int    `json:"closes"`
	AfterUse int    `json:"after_use"` // operations after Close
	MaxUsers int    `json:"max_users"`
}

type qobs struct {
	Q                      int      `json:"q"`
	Nexts                  int      `json:"nexts"`        // Next calls that returned true
	Hung                   bool     `json:"hung"`         // Next did not return false within the allowance
	FirstFalse             int64    `json:"first_false"`  // seq of the first false return (0 = none)
	ErrAtFalse             string   `json:"err_at_false"` // nil | ctx | errs | other
	ErrText                string   `json:"err_text"`
	ErrLater               []string `json:"err_later"`  // Err() after each later step
	NextLater              []bool   `json:"next_later"` // Next() results after the first false
	CloseRets              []string `json:"close_rets"` // nil | err
	CloseHung              bool     `json:"close_hung"`
	CancelSeq              int64    `json:"cancel_seq"`
	CloseCallSeq           int64    `json:"close_call_seq"`
	CloseRetSeq            int64    `json:"close_ret_seq"`
	CanceledBeforeDecision bool     `json:"canceled_before_decision"`
	CancelDuringClose      bool     `json:"cancel_during_close"`
	CancelWhileCloseHeld   bool     `json:"cancel_while_close_held"` // the caller cancelled after Close was called and while a pipeline goroutine was still held: before any decision
	ClosedEarly            bool     `json:"closed_early"`            // Close was called before the first false
	Promised               int      `json:"promised"`                // injected failures returned to the engine while the query was live
	Reported               int      `json:"reported"`                // of those, how many errors.Is finds in Err
	Injected               int      `json:"injected"`
	Rows                   []string `json:"-"`
	Expect                 []string `json:"-"`
	RowsN                  int      `json:"rows_n"`
	ExpectN                int      `json:"expect_n"`
	DupRows                int      `json:"dup_rows"` // returned more often than stored
	Outside                int      `json:"outside"`  // returned but not matching
	Missing                int      `json:"missing"`  // matching but not returned
	Sample                 []string `json:"sample"`
	Alien                  int      `json:"alien"`
	RowNilAfter            bool     `json:"row_nil_after"`
	IterOpenAtDone         bool     `json:"iter_open_at_done"`
	IterOpenAtFalse        bool     `json:"iter_open_at_false"`     // sampled the moment Next returned false
	IterOpenAtCloseRet     bool     `json:"iter_open_at_close_ret"` // sampled the moment Close returned
	Stats                  statsObs `json:"stats"`
	Stalled                bool     `json:"stalled"`
	CorruptScanned         bool     `json:"corrupt_scanned"` // the corrupted block has a processed stats entry
	KeptChanged            int      `json:"kept_changed"`    // rows the consumer held on to that changed after they were delivered (checked after the probe query has scanned the same blocks)
}

type statsObs struct {
	Entries              int   `json:"entries"`
	Dups                 int   `json:"dups"`
	Unknown              int   `json:"unknown"`
	PartialFiles         int   `json:"partial_files"` // files with some but not all candidate blocks accounted for
	RowsMatched          int64 `json:"rows_matched"`
	SkippedNonZero       int   `json:"skipped_nonzero"`
	RowBlocksUnprocessed int   `json:"row_blocks_unprocessed"`
	Processed            int   `json:"processed"`
	Skipped              int   `json:"skipped"`
	TotalsOK             bool  `json:"totals_ok"`
}

type obs struct {
	ID         int         `json:"id"`
	Sc         scenario    `json:"sc"`
	Reached    bool        `json:"reached"` // the pause / fault position was reached
	Qs         []qobs      `json:"qs"`
	Handles    []handleObs `json:"handles"`
	Opens      int         `json:"opens"`
	InReadMax  int         `json:"in_read_max"`
	InIOMax    int         `json:"in_io_max"` // reads plus OpenFile calls in progress at once
	GateRounds int         `json:"gate_rounds"`
	Leftover   int         `json:"leftover"` // query goroutines still alive after every query terminated (0/1)
	ProbeHeld  int         `json:"probe_held"`
	ProbeWant  int         `json:"probe_want"`
	Panic      string      `json:"panic"`
	Stdio      int         `json:"stdio"`
	Infra      string      `json:"infra"`
}

// ---------------------------------------------------------------------------
// controller

type qkeyT struct{}

var qkey qkeyT

type hstate struct {
	file   string
	q      int
	closes int
	after  int
	users  int
	maxU   int
}

type ctl struct {
	mu         sync.Mutex
	seq        *atomic.Int64
	counts     map[string]int // "q|kind" -> n
	handleQ    map[int64]*hstate
	order      []int64
	pauseQ     int
	pause      string
	pauseCh    chan struct{}
	arrived    chan struct{}
	faultQ     int
	fault      string
	faultErr   error
	faultSeq   int64 // seq at which the injected failure was returned to the engine
	reached    bool
	inRead     int
	inReadMax  int
	failPaused bool
	inIO       int // reads and OpenFile calls in progress
	inIOMax    int
	opens      int
	gate       bool
	gateCh     chan struct{}
	iterOpen   map[int]int
	activity   atomic.Int64
	probing    bool
}

func newCtl(seq *atomic.Int64) *ctl {
	return &ctl{seq: seq, counts: map[string]int{}, handleQ: map[int64]*hstate{}, iterOpen: map[int]int{}, gateCh: make(chan struct{})}
}

func (c *ctl) qOf(op *h.StoreOp) int {
	if op.Ctx != nil {
		if v, ok := op.Ctx.Value(qkey).(int); ok {
			return v
		}
	}
	if hs := c.handleQ[op.Handle]; hs != nil {
		return hs.q
	}
	return 0
}

func (c *ctl) Before(op *h.StoreOp) error {
	c.activity.Add(1)
	c.mu.Lock()
	q := c.qOf(op)
	kind := op.Kind
	if kind == "rclose" || kind == "seek" || kind == "iterend" {
		// not pause / fault positions
	} else {
		c.counts[fmt.Sprintf("%d|%s", q, kind)]++
	}
	key := fmt.Sprintf("%s#%d", kind, c.counts[fmt.Sprintf("%d|%s", q, kind)])
	if hs := c.handleQ[op.Handle]; hs != nil && op.Handle != 0 && kind != "yield" {
		if hs.closes > 0 {
			hs.after++
		}
		hs.users++
		if hs.users > hs.maxU {
			hs.maxU = hs.users
		}
	}
	var waitCh chan struct{}
	if c.pause != "" && c.pauseQ == q && c.pause == key && kind != "rclose" && kind != "seek" && kind != "iterend" {
		c.pause = ""
		c.reached = true
		waitCh = c.pauseCh
		close(c.arrived)
	}
	var err error
	if c.fault != "" && c.faultQ == q && c.fault == key && kind != "rclose" && kind != "seek" && kind != "iterend" {
		c.fault = ""
		c.reached = true
		err = c.faultErr
	}
	var gateCh chan struct{}
	if kind == "read" {
		c.inRead++
		if c.inRead > c.inReadMax {
			c.inReadMax = c.inRead
		}
	}
	// an OpenFile in progress is I/O against the DataStore just as a Read on a handle is
	if kind == "read" || kind == "open" {
		c.inIO++
		if c.inIO > c.inIOMax {
			c.inIOMax = c.inIO
		}
		if c.gate {
			gateCh = c.gateCh
		}
	}
	if kind == "iter" {
		c.iterOpen[q]++
	}
	c.mu.Unlock()
	if waitCh != nil {
		<-waitCh
		c.mu.Lock()
		fp := c.failPaused
		c.mu.Unlock()
		if fp && err == nil {
			err = errors.New("verif: store call cut short by the cancellation")
		}
	}
	if gateCh != nil {
		<-gateCh
	}
	return err
}

func (c *ctl) After(op *h.StoreOp, err error) {
	c.activity.Add(1)
	c.mu.Lock()
	defer c.mu.Unlock()
	if op.Kind == "read" || op.Kind == "open" {
		c.inIO--
	}
	switch op.Kind {
	case "open":
		if err == nil {
			q := c.qOf(op)
			c.handleQ[op.Handle] = &hstate{file: op.Ptr, q: q}
			c.order = append(c.order, op.Handle)
			c.opens++
		}
	case "read":
		c.inRead--
	case "iterend":
		q := c.qOf(op)
		c.iterOpen[q]--
	}
	if hs := c.handleQ[op.Handle]; hs != nil && op.Handle != 0 && op.Kind != "open" && op.Kind != "yield" {
		hs.users--
		if op.Kind == "rclose" {
			hs.closes++
		}
	}
	if err != nil && errors.Is(err, c.faultErr) && c.faultErr != nil && c.faultSeq == 0 {
		c.faultSeq = c.seq.Add(1)
	}
}

func (c *ctl) releaseGate() {
	c.mu.Lock()
	ch := c.gateCh
	c.gateCh = make(chan struct{})
	c.mu.Unlock()
	close(ch)
}

func (c *ctl) readers() int {
	c.mu.Lock()
	defer c.mu.Unlock()
	return c.inIO
}

// ---------------------------------------------------------------------------
// world: a store populated by the real engine

type world struct {
	sc         scenario
	dir        string
	mem        *h.MemData
	rawData    bs.DataStore
	rawMeta    bs.MetaStore
	c          *ctl
	data       *h.InstrData
	meta       *h.InstrMeta
	eng        *bs.BloomSearchEngine
	expect     []string            // ids of the rows the query matches
	blockOf    map[string]string   // row id -> "ptr@offset"
	blocks     map[string][]string // ptr -> candidate block keys ("ptr@offset")
	seq        *atomic.Int64
	corruptKey string
}

// slowMeta makes the iterator's wind-down take a while: a query that reports its terminal state before the iterator has
// returned is caught with the iterator still open.
type slowMeta struct {
	bs.MetaStore
	delay time.Duration
}

// sectionless hands out every block without a filter section, the way metadata written without block filters does.
type sectionless struct{ bs.MetaStore }

func (m sectionless) GetMaybeFilesForQuery(ctx context.Context, p *bs.QueryPrefilter) iter.Seq2[bs.MaybeFile, error] {
	return func(yield func(bs.MaybeFile, error) bool) {
		for mf, err := range m.MetaStore.GetMaybeFilesForQuery(ctx, p) {
			if err == nil {
				blocks := append([]bs.DataBlockMetadata(nil), mf.Metadata.DataBlocks...)
				for i := range blocks {
					blocks[i].BloomFilterSize = 0
				}
				mf.Metadata.DataBlocks = blocks
			}
			if !yield(mf, err) {
				return
			}
		}
	}
}

func (m slowMeta) GetMaybeFilesForQuery(ctx context.Context, p *bs.QueryPrefilter) iter.Seq2[bs.MaybeFile, error] {
	return func(yield func(bs.MaybeFile, error) bool) {
		defer time.Sleep(m.delay)
		for mf, err := range m.MetaStore.GetMaybeFilesForQuery(ctx, p) {
			if !yield(mf, err) {
				return
			}
		}
	}
}

func cfgFor(n int) bs.BloomSearchEngineConfig {
	cfg := bs.DefaultBloomSearchEngineConfig()
	cfg.MaxQueryConcurrency = n
	cfg.RowDataCompression = bs.CompressionNone
	cfg.PartitionFunc = func(row map[string]any) string { s, _ := row["p"].(string); return s }
	cfg.MaxBufferedTime = time.Hour
	return cfg
}

// populated in-memory stores are built once per shape and restored for every scenario of that shape
type savedWorld struct {
	files   map[string][]byte
	metas   map[string]bs.FileMetadata
	expect  []string
	blockOf map[string]string
	blocks  map[string][]string
}

var saved = map[string]*savedWorld{}

func shapeKey(sc scenario) string {
	return fmt.Sprintf("%d|%d|%d|%v|%s|%d", sc.Files, sc.Blocks, sc.Rows, sc.Bloom, sc.Match, sc.Big)
}

func buildWorld(sc scenario, scratch string) (*world, error) {
	w := &world{sc: sc, blockOf: map[string]string{}, blocks: map[string][]string{}, seq: &atomic.Int64{}}
	if sv := saved[shapeKey(sc)]; sv != nil && sc.Meta != "fs" {
		w.mem = h.NewMemData()
		mm := bs.NewMemoryMetaStore()
		for ptr, data := range sv.files {
			w.mem.PutAs(ptr, data)
			md := sv.metas[ptr]
			md.DataBlocks = append([]bs.DataBlockMetadata(nil), md.DataBlocks...)
			mm.Update(context.Background(), []bs.WriteOperation{{FileMetadata: &md, FilePointerBytes: []byte(ptr)}}, nil)
		}
		w.rawData, w.rawMeta = w.mem, mm
		w.expect, w.blockOf, w.blocks = sv.expect, sv.blockOf, sv.blocks
		return finishWorld(w, sc)
	}
	if sc.Meta == "fs" {
		w.dir = fmt.Sprintf("%s/q%d", scratch, sc.ID)
		os.MkdirAll(w.dir, 0o755)
		st := bs.NewFileSystemDataStore(w.dir)
		w.rawData, w.rawMeta = st, st
	} else {
		w.mem = h.NewMemData()
		w.rawData, w.rawMeta = w.mem, bs.NewMemoryMetaStore()
	}
	// populate with a plain engine over the raw stores
	pcfg := cfgFor(4)
	if sc.Big > 0 {
		// many distinct entries at a tiny false-positive rate: every block's filter section is MiBs, so a file's block
		// filter region exceeds the reader's 4 MiB chunk cap and the filter pass needs several chunk reads
		pcfg.BloomFalsePositiveRate = 1e-9
		pcfg.MaxBufferedBytes = 1 << 30
		pcfg.MaxRowGroupBytes = 1 << 30
	}
	pe, err := bs.NewBloomSearchEngine(pcfg, w.rawMeta, w.rawData)
	if err != nil {
		return nil, err
	}
	pe.Start()
	ctx := context.Background()
	for f := 1; f <= sc.Files; f++ {
		var rows []map[string]any
		for b := 1; b <= sc.Blocks; b++ {
			// "some": the last block of every file and the whole last file lack the queried field
			has := sc.Match == "all" || !(b == sc.Blocks && sc.Blocks > 1 || f == sc.Files && sc.Files > 1)
			for r := 1; r <= sc.Rows; r++ {
				id := fmt.Sprintf("f%db%dr%d", f, b, r)
				row := map[string]any{"id": id, "p": fmt.Sprintf("p%d", b), "pad": strings.Repeat("x", 8)}
				if has {
					row["m"] = "yes"
				}
				if sc.Big > 0 && r == 1 {
					var sb strings.Builder
					for t := 0; t < sc.Big; t++ {
						fmt.Fprintf(&sb, "f%db%dt%d ", f, b, t)
					}
					row["big"] = sb.String()
				}
				if has || !sc.Bloom {
					w.expect = append(w.expect, id)
				}
				rows = append(rows, row)
			}
		}
		done := make(chan error, 1)
		if err := pe.IngestRows(ctx, rows, done); err != nil {
			return nil, err
		}
		if err := pe.Flush(ctx); err != nil {
			return nil, err
		}
		if err := <-done; err != nil {
			return nil, err
		}
	}
	sctx, cancel := context.WithTimeout(ctx, 20*time.Second)
	defer cancel()
	if err := pe.Stop(sctx); err != nil {
		return nil, err
	}
	// map rows to blocks, and remember each file's blocks
	for mf, err := range w.rawMeta.GetMaybeFilesForQuery(ctx, nil) {
		if err != nil {
			return nil, err
		}
		ptr := string(mf.PointerBytes)
		rd, err := w.rawData.OpenFile(ctx, mf.PointerBytes)
		if err != nil {
			return nil, err
		}
		for i := range mf.Metadata.DataBlocks {
			blk := &mf.Metadata.DataBlocks[i]
			key := fmt.Sprintf("%s@%d", ptr, blk.RowDataOffset)
			w.blocks[ptr] = append(w.blocks[ptr], key)
			raw, err := bs.ReadDataBlockRowData(rd, blk)
			if err != nil {
				return nil, err
			}
			sc := bs.NewBlockRowScanner(raw)
			for {
				rb, ok, err := sc.Next()
				if err != nil {
					return nil, err
				}
				if !ok {
					break
				}
				var row map[string]any
				if err := json.Unmarshal(rb, &row); err != nil {
					return nil, err
				}
				if id, ok := row["id"].(string); ok {
					w.blockOf[id] = key
				}
			}
		}
		rd.Close()
	}
	sort.Strings(w.expect)
	if w.mem != nil {
		sv := &savedWorld{files: map[string][]byte{}, metas: map[string]bs.FileMetadata{}, expect: w.expect, blockOf: w.blockOf, blocks: w.blocks}
		for mf, err := range w.rawMeta.GetMaybeFilesForQuery(ctx, nil) {
			if err != nil {
				return nil, err
			}
			data, _ := w.mem.Bytes(string(mf.PointerBytes))
			sv.files[string(mf.PointerBytes)] = data
			sv.metas[string(mf.PointerBytes)] = mf.Metadata
		}
		saved[shapeKey(sc)] = sv
	}
	return finishWorld(w, sc)
}

func finishWorld(w *world, sc scenario) (*world, error) {
	ctx := context.Background()
	var err error
	if sc.Corrupt != "" {
		if err := w.corrupt(sc.Corrupt); err != nil {
			return nil, err
		}
	}
	w.c = newCtl(w.seq)
	w.data = &h.InstrData{Inner: w.rawData, C: w.c}
	inner := w.rawMeta
	if sc.SlowIter > 0 {
		inner = slowMeta{MetaStore: w.rawMeta, delay: time.Duration(sc.SlowIter) * time.Millisecond}
	}
	if sc.NoSections {
		inner = sectionless{inner}
	}
	w.meta = &h.InstrMeta{Inner: inner, C: w.c}
	w.eng, err = bs.NewBloomSearchEngine(cfgFor(sc.N), w.meta, w.data)
	if err != nil {
		return nil, err
	}
	switch sc.Engine {
	case "started":
		w.eng.Start()
	case "stopped":
		w.eng.Start()
		sctx, cancel := context.WithTimeout(ctx, 20*time.Second)
		defer cancel()
		if err := w.eng.Stop(sctx); err != nil {
			return nil, err
		}
	}
	sort.Strings(w.expect)
	return w, nil
}

// corrupt flips one byte in the middle of block b of file f (ordinals in metadata order).
func (w *world) corrupt(spec string) error {
	var fi, bi int
	fmt.Sscanf(spec, "%d#%d", &fi, &bi)
	ctx := context.Background()
	var ptrs []string
	metas := map[string]bs.FileMetadata{}
	for mf, err := range w.rawMeta.GetMaybeFilesForQuery(ctx, nil) {
		if err != nil {
			return err
		}
		ptrs = append(ptrs, string(mf.PointerBytes))
		metas[string(mf.PointerBytes)] = mf.Metadata
	}
	sort.Strings(ptrs)
	if fi < 1 || fi > len(ptrs) {
		return fmt.Errorf("corrupt: no file %d", fi)
	}
	ptr := ptrs[fi-1]
	md := metas[ptr]
	if bi < 1 || bi > len(md.DataBlocks) {
		return fmt.Errorf("corrupt: no block %d", bi)
	}
	blk := md.DataBlocks[bi-1]
	pos := blk.RowDataOffset + blk.RowDataSize/2
	w.corruptKey = fmt.Sprintf("%s@%d", ptr, blk.RowDataOffset)
	if w.mem != nil {
		data, _ := w.mem.Bytes(ptr)
		cp := append([]byte(nil), data...)
		cp[pos] ^= 0x5a
		w.mem.Replace(ptr, cp)
		return nil
	}
	data, err := os.ReadFile(ptr)
	if err != nil {
		return err
	}
	data[pos] ^= 0x5a
	return os.WriteFile(ptr, data, 0o644)
}

func (w *world) query() *bs.Query {
	if w.sc.Bloom {
		return bs.NewQuery().Field("m").Build()
	}
	return bs.NewQuery().Build()
}

// ---------------------------------------------------------------------------
// one query under observation

type runner struct {
	w       *world
	q       int
	ctx     context.Context
	cancel  context.CancelFunc
	res     *bs.Results
	mu      sync.Mutex
	o       qobs
	seen    map[string]int
	falseCh chan struct{}
	stop    chan struct{} // take:k / stall consumers wait here before going on
	closeWG sync.WaitGroup
	kept    []map[string]any // rows the consumer holds on to
	keptWas []string         // their JSON at delivery
}

// intruders: other engines' blocks of the same sizes as the scenario's, holding different rows. Scanning them after a scenario
// makes a buffer the scenario's query gave back too early visible: the rows it still backs then read as somebody else's.
var intruders = map[string]*bs.BloomSearchEngine{}

func scanIntruder(sc scenario) {
	if sc.Big > 0 || sc.Rows*sc.Blocks > 4000 {
		return
	}
	key := fmt.Sprintf("%d|%d|%v", sc.Blocks, sc.Rows, sc.Match)
	eng := intruders[key]
	if eng == nil {
		cfg := cfgFor(2)
		var err error
		eng, err = bs.NewBloomSearchEngine(cfg, bs.NewMemoryMetaStore(), h.NewMemData())
		if err != nil {
			return
		}
		eng.Start()
		var rows []map[string]any
		for b := 1; b <= sc.Blocks; b++ {
			for r := 1; r <= sc.Rows; r++ {
				// same shape and lengths as the scenario's rows, other content
				row := map[string]any{"id": fmt.Sprintf("g%db%dr%d", 9, b, r), "p": fmt.Sprintf("p%d", b), "pad": strings.Repeat("y", 8)}
				if sc.Match == "all" {
					row["m"] = "zzz"
				}
				rows = append(rows, row)
			}
		}
		done := make(chan error, 1)
		if eng.IngestRows(context.Background(), rows, done) != nil || eng.Flush(context.Background()) != nil || <-done != nil {
			return
		}
		intruders[key] = eng
	}
	for i := 0; i < 2; i++ {
		if res, err := eng.Query(context.Background(), bs.NewQuery().Build()); err == nil {
			for res.Next() {
			}
			res.Close()
		}
	}
}

// keptChanged counts the held rows that no longer say what they said when Next handed them over.
func (r *runner) keptChanged() int {
	n := 0
	for i, row := range r.kept {
		b, err := json.Marshal(row)
		if err != nil || string(b) != r.keptWas[i] {
			n++
		}
	}
	return n
}

func classify(err error) string {
	switch {
	case err == nil:
		return "nil"
	case errors.Is(err, context.Canceled) || errors.Is(err, context.DeadlineExceeded):
		return "ctx"
	default:
		return "errs"
	}
}

func (r *runner) recordRow(row map[string]any) {
	id, _ := row["id"].(string)
	// the first rows are kept by the caller, with what they said when they were handed over
	if len(r.kept) < 8 {
		if b, err := json.Marshal(row); err == nil {
			r.kept, r.keptWas = append(r.kept, row), append(r.keptWas, string(b))
		}
	}
	r.mu.Lock()
	if _, ok := r.w.blockOf[id]; !ok {
		r.o.Alien++
	}
	r.o.Rows = append(r.o.Rows, id)
	r.o.Nexts++
	r.mu.Unlock()
}

// consume calls Next until it returns false (or limit rows were taken).
func (r *runner) consume(limit int) bool {
	for limit != 0 {
		if !r.res.Next() {
			seq := r.w.seq.Add(1)
			r.w.c.mu.Lock()
			open := r.w.c.iterOpen[r.q] != 0
			r.w.c.mu.Unlock()
			err := r.res.Err()
			r.mu.Lock()
			r.o.IterOpenAtFalse = open
			r.o.FirstFalse = seq
			r.o.ErrAtFalse = classify(err)
			if err != nil {
				r.o.ErrText = err.Error()
				if len(r.o.ErrText) > 300 {
					r.o.ErrText = r.o.ErrText[:300]
				}
				if fe := r.w.c.faultErr; fe != nil && errors.Is(err, fe) {
					r.o.Reported = 1
				}
			}
			r.o.RowNilAfter = r.res.Row() == nil
			r.mu.Unlock()
			close(r.falseCh)
			return true
		}
		r.recordRow(r.res.Row())
		if limit > 0 {
			limit--
		}
	}
	return false
}

func (r *runner) doCancel() {
	r.cancel()
	qrec.note("cancel", r.res, 0)
	seq := r.w.seq.Add(1)
	r.mu.Lock()
	if r.o.CancelSeq == 0 {
		r.o.CancelSeq = seq
	}
	r.mu.Unlock()
}

// doClose calls Close on its own goroutine (it blocks until the pipeline is done).
func (r *runner) doClose() {
	seq := r.w.seq.Add(1)
	r.mu.Lock()
	if r.o.CloseCallSeq == 0 {
		r.o.CloseCallSeq = seq
		if r.o.FirstFalse == 0 {
			r.o.ClosedEarly = true
		}
	}
	r.mu.Unlock()
	r.closeWG.Add(1)
	go func() {
		defer r.closeWG.Done()
		err := r.res.Close()
		s := r.w.seq.Add(1)
		r.w.c.mu.Lock()
		open := r.w.c.iterOpen[r.q] != 0
		r.w.c.mu.Unlock()
		r.mu.Lock()
		if open {
			r.o.IterOpenAtCloseRet = true
		}
		if r.o.CloseRetSeq == 0 {
			r.o.CloseRetSeq = s
		}
		if err == nil {
			r.o.CloseRets = append(r.o.CloseRets, "nil")
		} else {
			r.o.CloseRets = append(r.o.CloseRets, "err")
		}
		r.mu.Unlock()
	}()
}

func waitCh(ch chan struct{}, d time.Duration) bool {
	select {
	case <-ch:
		return true
	case <-time.After(d):
		return false
	}
}

// waitArrived waits for the paused goroutine; when everything is parked and it
// has not arrived, the position does not exist in this run.
func waitArrived(c *ctl, d time.Duration) bool {
	deadline := time.Now().Add(d)
	for {
		if waitCh(c.arrived, 2*time.Millisecond) {
			return true
		}
		if quiesce(c) {
			return waitCh(c.arrived, time.Millisecond)
		}
		if time.Now().After(deadline) {
			return false
		}
	}
}

func waitWG(wg *sync.WaitGroup, d time.Duration) bool {
	ch := make(chan struct{})
	go func() { wg.Wait(); close(ch) }()
	return waitCh(ch, d)
}

const allowance = 8 * time.Second

var queryFrames = []string{"BloomSearchEngine).Query.", "BloomSearchEngine).processDataBlock", "BloomSearchEngine).evaluateBlockFilters"}

func quiesce(c *ctl) bool {
	return h.Quiesce(func() int64 { return c.activity.Load() }, 5*time.Second)
}

// ---------------------------------------------------------------------------

func runSolo(sc scenario, scratch string, guard *h.StdioGuard) (o obs) {
	o.ID, o.Sc = sc.ID, sc
	std0 := guard.Len()
	defer func() { o.Stdio = guard.Len() - std0 }()
	w, err := buildWorld(sc, scratch)
	if err != nil {
		o.Infra = "build: " + err.Error()
		return
	}
	defer func() {
		if w.dir != "" {
			os.RemoveAll(w.dir)
		}
	}()
	c := w.c
	r := &runner{w: w, q: 1, seen: map[string]int{}, falseCh: make(chan struct{}), stop: make(chan struct{})}
	r.o.Q = 1
	r.o.Expect = w.expect
	base := context.WithValue(context.Background(), qkey, 1)
	r.ctx, r.cancel = context.WithCancel(base)
	if sc.Cause {
		cctx, cc := context.WithCancelCause(base)
		r.ctx, r.cancel = cctx, func() { cc(errors.New("caller is shutting down")) }
	}
	defer r.cancel()
	if sc.Pause != "" {
		c.pauseQ, c.pause, c.pauseCh, c.arrived = 1, sc.Pause, make(chan struct{}), make(chan struct{})
	}
	c.mu.Lock()
	c.failPaused = sc.FailPaused
	c.mu.Unlock()
	if sc.Fault != "" {
		c.faultQ, c.fault, c.faultErr = 1, sc.Fault, fmt.Errorf("verif injected failure %s: %w", sc.Fault, h.ErrInjected)
		r.o.Injected = 1
	}
	qrec.begin()
	defer qrec.end(sc)
	var armed atomic.Bool
	if sc.Uni && sc.HookCancel == "" {
		old := runtime.GOMAXPROCS(1)
		defer runtime.GOMAXPROCS(old)
	}
	if sc.HookCancel != "" {
		old := runtime.GOMAXPROCS(1)
		defer runtime.GOMAXPROCS(old)
		var mu sync.Mutex
		seen, fired := map[string]int{}, false
		qrec.setOnHook(func(name string) {
			mu.Lock()
			seen[name]++
			hit := !fired && fmt.Sprintf("%s#%d", name, seen[name]) == sc.HookCancel
			// "released": the first hand-over point after the paused goroutine was let go (it held a slot inside its store
			// call while others queued up for one)
			if !fired && sc.HookCancel == "released" && armed.Load() && (name == "fw.rel" || name == "h.release" || name == "bw.deliver.park") {
				hit = true
			}
			if hit {
				fired = true
			}
			mu.Unlock()
			if hit {
				o.Reached = true
				r.doCancel()
			}
		})
		defer qrec.setOnHook(nil)
	}
	res, err := w.eng.Query(r.ctx, w.query())
	if err != nil {
		o.Infra = "query: " + err.Error()
		return
	}
	r.res = res
	qrec.note("bind", res, 1)
	// consumer
	limit := -1
	switch {
	case sc.Consumer == "stall":
		limit = 0
	case strings.HasPrefix(sc.Consumer, "take:"):
		fmt.Sscanf(sc.Consumer, "take:%d", &limit)
	}
	consDone := make(chan struct{})
	go func() {
		defer close(consDone)
		if r.consume(limit) {
			return
		}
		<-r.stop // stalled until the driver resumes the consumer
		r.consume(-1)
	}()
	released := false
	release := func() {
		if sc.Pause != "" && !released {
			released = true
			armed.Store(true)
			close(c.pauseCh)
		}
	}
	defer release()
	if sc.Pause != "" {
		if !waitArrived(c, 3*time.Second) {
			// the position does not exist in this run (e.g. fewer reads than asked): nothing to do there
			c.mu.Lock()
			c.pause = ""
			c.mu.Unlock()
		} else {
			quiesce(c)
			closeIssued := false
			for _, a := range sc.Actions {
				switch a {
				case "cancel":
					r.doCancel()
					if closeIssued {
						// the held goroutine keeps the pipeline from finishing, so Close cannot have decided anything yet
						r.mu.Lock()
						r.o.CancelWhileCloseHeld = true
						r.mu.Unlock()
					}
				case "close", "close2":
					r.doClose()
					closeIssued = true
				}
				quiesce(c)
			}
		}
		release()
	}
	// a pipeline that has backed up as far as it can (every stage blocked on the next one): Close / cancel land while the
	// file stage sits in its job send, the workers in theirs
	if len(sc.Sat) > 0 && limit >= 0 {
		quiesce(c)
		for _, a := range sc.Sat {
			switch a {
			case "cancel":
				r.doCancel()
			case "close":
				r.doClose()
			}
			quiesce(c)
		}
	}
	// between a Close that has returned (it decided the terminal state) and the consumer's next call
	if len(sc.Mid) > 0 && limit >= 0 {
		waitWG(&r.closeWG, allowance)
		for _, a := range sc.Mid {
			if a == "cancel" {
				r.doCancel()
			}
		}
	}
	// let a take:k / stall consumer finish after the pipeline had its chance to fill the buffers
	if limit >= 0 {
		quiesce(c)
		close(r.stop)
	}
	if !waitCh(r.falseCh, allowance) {
		r.mu.Lock()
		r.o.Hung = true
		r.mu.Unlock()
		qrec.spoil()
		r.cancel()
		waitCh(r.falseCh, allowance)
	}
	if !waitWG(&r.closeWG, allowance) {
		r.mu.Lock()
		r.o.CloseHung = true
		r.mu.Unlock()
	}
	<-consDoneOr(consDone, allowance)
	// iterator state at the moment the terminal state was reported
	c.mu.Lock()
	r.o.IterOpenAtDone = c.iterOpen[1] != 0
	c.mu.Unlock()
	// after-termination behaviour
	for _, a := range sc.After {
		switch a {
		case "next":
			r.o.NextLater = append(r.o.NextLater, r.res.Next())
		case "close":
			r.doClose()
			if !waitWG(&r.closeWG, allowance) {
				r.o.CloseHung = true
			}
		case "cancel":
			r.doCancel()
		}
		r.o.ErrLater = append(r.o.ErrLater, classify(r.res.Err()))
	}
	finishObs(&o, w, []*runner{r})
	qrec.end(sc)
	if !r.o.Hung && !r.o.CloseHung && o.Leftover == 0 {
		probe(&o, sc, w)
	} else {
		o.ProbeHeld, o.ProbeWant = -1, -1
	}
	if len(r.kept) > 0 {
		scanIntruder(sc)
	}
	if len(o.Qs) > 0 {
		o.Qs[0].KeptChanged = r.keptChanged()
	}
	return
}

func consDoneOr(ch chan struct{}, d time.Duration) chan struct{} {
	out := make(chan struct{})
	go func() {
		waitCh(ch, d)
		close(out)
	}()
	return out
}

// finishObs derives the per-query judgement inputs and the shared resource facts.
func finishObs(o *obs, w *world, rs []*runner) {
	c := w.c
	// leftover goroutines: every query has terminated, the teardown goroutine may still be returning
	if h.WaitNoFrames(queryFrames, 3*time.Second) {
		o.Leftover = 0
	} else {
		o.Leftover = 1
	}
	c.mu.Lock()
	o.Reached = c.reached || (w.sc.Pause == "" && w.sc.Fault == "")
	o.InReadMax = c.inReadMax
	o.InIOMax = c.inIOMax
	o.Opens = c.opens
	for _, id := range c.order {
		hs := c.handleQ[id]
		o.Handles = append(o.Handles, handleObs{File: hs.file, Q: hs.q, Closes: hs.closes, AfterUse: hs.after, MaxUsers: hs.maxU})
	}
	faultSeq := c.faultSeq
	c.mu.Unlock()
	for _, r := range rs {
		r.mu.Lock()
		q := r.o
		r.mu.Unlock()
		first := q.FirstFalse
		decision := first
		if q.CloseCallSeq != 0 && (decision == 0 || q.CloseCallSeq < decision) {
			decision = q.CloseCallSeq
		}
		q.CanceledBeforeDecision = q.CancelSeq != 0 && decision != 0 && q.CancelSeq < decision
		q.CancelDuringClose = q.CancelSeq != 0 && q.CloseCallSeq != 0 && q.CancelSeq > q.CloseCallSeq && (q.CloseRetSeq == 0 || q.CancelSeq < q.CloseRetSeq)
		if faultSeq != 0 && r.q == c.faultQ {
			live := (q.CancelSeq == 0 || faultSeq < q.CancelSeq) && (q.CloseCallSeq == 0 || faultSeq < q.CloseCallSeq) && (first == 0 || faultSeq < first)
			if live {
				q.Promised = 1
			}
		}
		if w.sc.Corrupt != "" && !q.ClosedEarly && q.CancelSeq == 0 {
			// a corrupt block that the query scanned must surface as an error; whether it was scanned is
			// decided by the monitor from the stats (the block is processed)
			q.Injected = 1
		}
		q.Stats = statsOf(w, r)
		if w.corruptKey != "" {
			for _, b := range r.res.Stats().BlockStats {
				if !b.BloomFilterSkipped && fmt.Sprintf("%s@%d", b.FilePointer, b.BlockOffset) == w.corruptKey {
					q.CorruptScanned = true
				}
			}
		}
		q.RowsN, q.ExpectN = len(q.Rows), len(q.Expect)
		exp := map[string]bool{}
		for _, id := range q.Expect {
			exp[id] = true
		}
		got := map[string]int{}
		for _, id := range q.Rows {
			got[id]++
			if got[id] == 2 {
				q.DupRows++
			}
			if !exp[id] && got[id] == 1 {
				q.Outside++
			}
		}
		for id := range exp {
			if got[id] == 0 {
				q.Missing++
			}
		}
		q.Sample = []string{}
		for i := 0; i < len(q.Rows) && i < 3; i++ {
			q.Sample = append(q.Sample, q.Rows[i])
		}
		if q.ErrLater == nil {
			q.ErrLater = []string{}
		}
		if q.NextLater == nil {
			q.NextLater = []bool{}
		}
		if q.CloseRets == nil {
			q.CloseRets = []string{}
		}
		o.Qs = append(o.Qs, q)
	}
	if o.Handles == nil {
		o.Handles = []handleObs{}
	}
}

func statsOf(w *world, r *runner) statsObs {
	st := r.res.Stats()
	var s statsObs
	s.Entries = len(st.BlockStats)
	s.RowsMatched = st.RowsMatched
	seen := map[string]int{}
	perFile := map[string]int{}
	procSet := map[string]bool{}
	var rowsScanned, bytesScanned int64
	for _, b := range st.BlockStats {
		key := fmt.Sprintf("%s@%d", b.FilePointer, b.BlockOffset)
		seen[key]++
		if seen[key] == 2 {
			s.Dups++
		}
		known := false
		for _, k := range w.blocks[string(b.FilePointer)] {
			if k == key {
				known = true
			}
		}
		if !known {
			s.Unknown++
		}
		if seen[key] == 1 {
			perFile[string(b.FilePointer)]++
		}
		if b.BloomFilterSkipped {
			s.Skipped++
			if b.RowsProcessed != 0 || b.BytesProcessed != 0 {
				s.SkippedNonZero++
			}
		} else {
			s.Processed++
			procSet[key] = true
		}
		rowsScanned += b.RowsProcessed
		bytesScanned += b.BytesProcessed
	}
	for ptr, n := range perFile {
		if n != len(w.blocks[ptr]) {
			s.PartialFiles++
		}
	}
	r.mu.Lock()
	for _, id := range r.o.Rows {
		if k, ok := w.blockOf[id]; ok && !procSet[k] {
			s.RowBlocksUnprocessed++
		}
	}
	r.mu.Unlock()
	s.TotalsOK = st.BlocksProcessed == s.Processed && st.BlocksSkipped == s.Skipped && st.RowsScanned == rowsScanned && st.BytesScanned == bytesScanned
	return s
}

// probe: after every query of the scenario terminated, a fresh query over a
// store with enough blocks must be able to hold N reads at once.
func probe(o *obs, sc scenario, w *world) {
	c := w.c
	c.mu.Lock()
	c.gate = true
	c.inReadMax, c.inIOMax = 0, 0
	base := c.inIO
	c.mu.Unlock()
	ctx, cancel := context.WithCancel(context.WithValue(context.Background(), qkey, 99))
	defer cancel()
	res, err := w.eng.Query(ctx, bs.NewQuery().Build())
	if err != nil {
		o.Infra = "probe: " + err.Error()
		return
	}
	go func() {
		for res.Next() {
		}
	}()
	quiesce(c)
	o.ProbeHeld = c.readers() - base
	jobs := sc.Files * sc.Blocks
	o.ProbeWant = sc.N
	if jobs < sc.N {
		o.ProbeWant = jobs
	}
	c.mu.Lock()
	c.gate = false
	c.mu.Unlock()
	c.releaseGate()
	cancel()
	res.Close()
}

func runMulti(sc scenario, scratch string, guard *h.StdioGuard) (o obs) {
	o.ID, o.Sc = sc.ID, sc
	std0 := guard.Len()
	defer func() { o.Stdio = guard.Len() - std0 }()
	w, err := buildWorld(sc, scratch)
	if err != nil {
		o.Infra = "build: " + err.Error()
		return
	}
	defer func() {
		if w.dir != "" {
			os.RemoveAll(w.dir)
		}
	}()
	c := w.c
	c.gate = sc.GateReads
	qrec.begin()
	defer qrec.end(sc)
	var rs []*runner
	var live sync.WaitGroup
	for q := 1; q <= sc.Queries; q++ {
		r := &runner{w: w, q: q, seen: map[string]int{}, falseCh: make(chan struct{}), stop: make(chan struct{})}
		r.o.Q = q
		r.o.Expect = w.expect
		r.o.Stalled = q <= sc.Stalled
		r.ctx, r.cancel = context.WithCancel(context.WithValue(context.Background(), qkey, q))
		res, err := w.eng.Query(r.ctx, w.query())
		if err != nil {
			o.Infra = "query: " + err.Error()
			return
		}
		r.res = res
		qrec.note("bind", res, q)
		rs = append(rs, r)
		if !r.o.Stalled {
			live.Add(1)
			go func() {
				defer live.Done()
				r.consume(-1)
			}()
		}
	}
	liveDone := make(chan struct{})
	go func() { live.Wait(); close(liveDone) }()
	deadline := time.Now().Add(4 * allowance)
	for {
		if waitCh(liveDone, time.Millisecond) {
			break
		}
		if sc.GateReads {
			// hold every read until nothing else can move, count, then let this generation go
			if quiesce(c) {
				o.GateRounds++
			}
			c.releaseGate()
		} else {
			time.Sleep(2 * time.Millisecond)
		}
		if time.Now().After(deadline) {
			break
		}
	}
	c.mu.Lock()
	c.gate = false
	c.mu.Unlock()
	c.releaseGate()
	for _, r := range rs {
		if !r.o.Stalled && !waitCh(r.falseCh, time.Millisecond) {
			r.mu.Lock()
			r.o.Hung = true
			r.mu.Unlock()
		}
	}
	// terminate the stalled queries through Close, hung ones through cancel
	for _, r := range rs {
		if r.o.Stalled {
			r.doClose()
			if !waitWG(&r.closeWG, allowance) {
				r.o.CloseHung = true
			}
			go r.consume(-1)
			waitCh(r.falseCh, allowance)
		} else if r.o.Hung {
			qrec.spoil()
			r.cancel()
			waitCh(r.falseCh, allowance)
		}
		c.mu.Lock()
		r.o.IterOpenAtDone = c.iterOpen[r.q] != 0
		c.mu.Unlock()
	}
	inReadMax, inIOMax := 0, 0
	c.mu.Lock()
	inReadMax, inIOMax = c.inReadMax, c.inIOMax
	c.mu.Unlock()
	finishObs(&o, w, rs)
	o.InReadMax, o.InIOMax = inReadMax, inIOMax
	qrec.end(sc)
	probe(&o, sc, w)
	for i, r := range rs {
		r.cancel()
		if i < len(o.Qs) {
			o.Qs[i].KeptChanged = r.keptChanged()
		}
	}
	return
}

// ---------------------------------------------------------------------------
// scenario generation

func positions(sc scenario, scratch string, guard *h.StdioGuard) map[string]int {
	dry := sc
	dry.Pause, dry.Fault, dry.Actions, dry.After, dry.Consumer = "", "", nil, nil, "drain"
	w, err := buildWorld(dry, scratch)
	if err != nil {
		return nil
	}
	if w.dir != "" {
		defer os.RemoveAll(w.dir)
	}
	ctx := context.WithValue(context.Background(), qkey, 1)
	res, err := w.eng.Query(ctx, w.query())
	if err != nil {
		return nil
	}
	for res.Next() {
	}
	res.Close()
	out := map[string]int{}
	w.c.mu.Lock()
	for k, n := range w.c.counts {
		if strings.HasPrefix(k, "1|") {
			out[k[2:]] = n
		}
	}
	w.c.mu.Unlock()
	return out
}

func generate(tier string, seed int64, scratch string, guard *h.StdioGuard) []scenario {
	rng := rand.New(rand.NewSource(seed))
	var out []scenario
	add := func(sc scenario) {
		sc.ID = len(out) + 1
		if sc.Kind == "" {
			sc.Kind = "solo"
		}
		if sc.Meta == "" {
			sc.Meta = "mem"
		}
		if sc.Actions == nil {
			sc.Actions = []string{}
		}
		if sc.After == nil {
			sc.After = []string{}
		}
		if sc.Mid == nil {
			sc.Mid = []string{}
		}
		if sc.Sat == nil {
			sc.Sat = []string{}
		}
		if sc.Engine == "" {
			sc.Engine = []string{"fresh", "started", "stopped"}[rng.Intn(3)]
		}
		if sc.Kind == "solo" && rng.Intn(4) == 0 {
			sc.Cause = true
		}
		out = append(out, sc)
	}
	shapes := []scenario{
		{N: 2, Files: 2, Blocks: 2, Rows: 70, Bloom: true, Match: "all"},
		{N: 1, Files: 2, Blocks: 3, Rows: 5, Bloom: true, Match: "some"},
		{N: 3, Files: 3, Blocks: 2, Rows: 130, Bloom: false, Match: "all"},
	}
	// a file whose block filter region spans several chunk reads (6 blocks x ~1.5 MiB of filters)
	shapes = append(shapes, scenario{N: 2, Files: 1, Blocks: 6, Rows: 2, Bloom: true, Match: "some", Big: 130000})
	// blocks with more matching rows than the cursor can absorb (4 batches of 64 in the channel, one pending, one per parked
	// worker): whatever the timing, no scan finishes before the consumer moves, so a Close or cancel always lands mid-scan
	shapes = append(shapes, scenario{N: 2, Files: 1, Blocks: 2, Rows: 800, Bloom: false, Match: "all"})
	if tier == "thorough" {
		shapes = append(shapes,
			scenario{N: 2, Files: 3, Blocks: 3, Rows: 300, Bloom: true, Match: "some"},
			scenario{N: 4, Files: 2, Blocks: 4, Rows: 20, Bloom: true, Match: "all", Meta: "fs"},
			scenario{N: 1, Files: 1, Blocks: 6, Rows: 65, Bloom: false, Match: "all"})
	}
	consumers := []string{"drain", "take:1", "stall"}
	actionSets := [][]string{{"cancel"}, {"close"}, {"cancel", "close"}, {"close", "cancel"}, {"close", "close2"}}
	afters := [][]string{{"next", "close", "next"}, {"close", "cancel", "next", "close"}, {"cancel", "next"}, {"next", "next"},
		{"cancel", "close", "next"}, {"cancel", "close"}}
	for si, sh := range shapes {
		// baselines
		for _, cons := range consumers {
			for _, meta := range []string{"mem", "fs"} {
				sc := sh
				sc.Consumer, sc.Meta, sc.After = cons, meta, afters[rng.Intn(len(afters))]
				add(sc)
			}
		}
		pos := positions(sh, scratch, guard)
		var kinds []string
		for k := range pos {
			kinds = append(kinds, k)
		}
		sort.Strings(kinds)
		for _, k := range kinds {
			for n := 1; n <= pos[k]; n++ {
				p := fmt.Sprintf("%s#%d", k, n)
				// every action set at every position, consumer rotating (all in the thorough tier)
				for ai, as := range actionSets {
					for ci, cons := range consumers {
						if tier != "thorough" && (ai+ci+n+si)%3 != 0 {
							continue
						}
						sc := sh
						sc.Pause, sc.Actions, sc.Consumer, sc.After = p, as, cons, afters[rng.Intn(len(afters))]
						add(sc)
					}
				}
				// Close decides the terminal state; the caller cancels afterwards; then the consumer calls Next
				if (n+si)%2 == 0 || tier == "thorough" {
					for _, cons := range []string{"stall", "take:1"} {
						sc := sh
						sc.Pause, sc.Actions, sc.Mid, sc.Consumer = p, []string{"close"}, []string{"cancel"}, cons
						sc.After = []string{"next", "close"}
						add(sc)
					}
				}
				// the held call itself fails when it is let go after the cancel / Close (a store that honours the context)
				if k == "open" || k == "read" {
					for _, as := range [][]string{{"cancel"}, {"close"}} {
						sc := sh
						sc.Pause, sc.Actions, sc.FailPaused, sc.Consumer = p, as, true, consumers[(n+si)%3]
						sc.After = []string{"next", "close"}
						add(sc)
					}
				}
				// a failure at every position; alone, and followed by a cancel / close at a later pause
				for _, cons := range []string{"drain", "take:1"} {
					sc := sh
					sc.Fault, sc.Consumer, sc.After = p, cons, afters[rng.Intn(len(afters))]
					add(sc)
				}
				for _, as := range [][]string{{"cancel"}, {"close"}, {"close", "cancel"}} {
					lk := kinds[rng.Intn(len(kinds))]
					ln := 1 + rng.Intn(pos[lk])
					sc := sh
					sc.Fault, sc.Pause, sc.Actions, sc.Consumer = p, fmt.Sprintf("%s#%d", lk, ln), as, consumers[rng.Intn(2)]
					sc.After = afters[rng.Intn(len(afters))]
					if sc.Pause == sc.Fault {
						continue
					}
					add(sc)
				}
			}
		}
		// a MetaStore whose iterator is slow to wind down: iterator errors, and Close / cancel while the file stage
		// holds a candidate it cannot hand over (stalled consumer, many files)
		for _, k := range kinds {
			if k != "yield" && k != "iter" {
				continue
			}
			for n := 1; n <= pos[k]; n++ {
				sc := sh
				sc.SlowIter, sc.Fault, sc.Consumer = 120, fmt.Sprintf("%s#%d", k, n), "drain"
				sc.After = []string{"next", "close"}
				add(sc)
				for _, as := range [][]string{{"close"}, {"cancel"}} {
					sc := sh
					sc.SlowIter, sc.Pause, sc.Actions, sc.Consumer = 120, fmt.Sprintf("%s#%d", k, n), as, consumers[rng.Intn(3)]
					sc.After = []string{"next"}
					add(sc)
				}
			}
		}
		// corrupted row data in each block (the read succeeds, verification fails)
		for f := 1; f <= sh.Files; f++ {
			for b := 1; b <= sh.Blocks; b++ {
				for _, meta := range []string{"mem", "fs"} {
					sc := sh
					sc.Corrupt, sc.Consumer, sc.Meta = fmt.Sprintf("%d#%d", f, b), "drain", meta
					sc.After = []string{"next", "close"}
					add(sc)
				}
			}
		}
	}
	// a backed-up pipeline: many candidate files, a consumer that never reads, then Close / cancel, with a slow iterator
	for _, as := range [][]string{{"close"}, {"cancel"}, {"cancel", "close"}} {
		for _, nf := range []int{12, 30} {
			sc := scenario{N: 1, Files: nf, Blocks: 1, Rows: 70, Bloom: true, Match: "all", SlowIter: 150, Consumer: "stall",
				Pause: fmt.Sprintf("yield#%d", nf-2), Actions: as, After: []string{"next"}}
			add(sc)
		}
	}
	// the same without holding anything: the pipeline backs up on its own until the file stage blocks in its job send (more
	// candidates than the channels and workers can hold), then Close / cancel
	for _, as := range [][]string{{"close"}, {"cancel"}, {"close", "cancel"}} {
		for _, cons := range []string{"stall", "take:1"} {
			for _, sh := range []scenario{{N: 2, Files: 40, Blocks: 1, Rows: 70, Bloom: false, Match: "all"},
				{N: 1, Files: 36, Blocks: 1, Rows: 70, Bloom: true, Match: "all"}} {
				sc := sh
				sc.Consumer, sc.Sat, sc.After = cons, as, []string{"next", "close"}
				add(sc)
			}
		}
	}
	// the caller cancels at the very moment a slot or a file reference is handed on: from inside the engine hook that follows
	// each release, on a single P, so whoever the release woke has been given the slot but has not looked at the context yet
	for _, sh := range []scenario{{N: 1, Files: 3, Blocks: 1, Rows: 5, Bloom: true, Match: "all"}, {N: 1, Files: 2, Blocks: 2, Rows: 70, Bloom: true, Match: "all"}} {
		for _, pt := range []string{"fw.rel", "h.release", "bw.deliver.park"} {
			for n := 1; n <= 6; n++ {
				if pt == "fw.rel" && n > sh.Files || pt == "bw.deliver.park" && n > 2 {
					continue
				}
				sc := sh
				sc.Consumer, sc.HookCancel, sc.After = []string{"drain", "take:1"}[n%2], fmt.Sprintf("%s#%d", pt, n), []string{"next", "close"}
				add(sc)
			}
		}
		// a worker held inside a store call with the slot it took, the others queueing for one; when it is let go, the caller
		// cancels at the hand-over that follows
		pos := positions(sh, scratch, guard)
		for _, k := range []string{"open", "read"} {
			for n := 1; n <= pos[k]; n++ {
				sc := sh
				sc.Pause, sc.HookCancel, sc.Consumer, sc.After = fmt.Sprintf("%s#%d", k, n), "released", "drain", []string{"next", "close"}
				add(sc)
			}
		}
	}
	// a consumer that keeps the rows it took, ends the query early mid-scan, and looks at them again after other scans have
	// run - on one P, so that a buffer a worker gives back is the one the next scan takes
	for _, as := range [][]string{{"close"}, {"cancel"}} {
		for _, cons := range []string{"take:1", "take:3", "take:70"} {
			sc := scenario{N: 2, Files: 1, Blocks: 2, Rows: 800, Bloom: false, Match: "all", Consumer: cons, Sat: as, Uni: true, After: []string{"next", "close"}}
			add(sc)
		}
	}
	// several queries sharing the budget, every read held until quiescence
	multi := []scenario{
		{N: 1, Queries: 2, Stalled: 1, Files: 2, Blocks: 3, Rows: 300, Bloom: true, Match: "all"},
		{N: 1, Queries: 2, Stalled: 1, Files: 8, Blocks: 1, Rows: 10, Bloom: true, Match: "all"},
		{N: 2, Queries: 3, Stalled: 1, Files: 10, Blocks: 1, Rows: 10, Bloom: false, Match: "all"},
		{N: 2, Queries: 3, Stalled: 2, Files: 3, Blocks: 4, Rows: 10, Bloom: true, Match: "all"},
		{N: 3, Queries: 4, Stalled: 1, Files: 12, Blocks: 1, Rows: 7, Bloom: true, Match: "all"},
		{N: 3, Queries: 4, Stalled: 0, Files: 3, Blocks: 3, Rows: 70, Bloom: true, Match: "some"},
		{N: 2, Queries: 2, Stalled: 0, Files: 4, Blocks: 2, Rows: 40, Bloom: false, Match: "all", Meta: "fs"},
		// bloom queries over files whose blocks carry no filter sections (nothing to open or read in the filter pass, every
		// block goes on to be scanned): the stalled queries' file workers block in their dispatch
		{N: 2, Queries: 3, Stalled: 2, Files: 4, Blocks: 12, Rows: 60, Bloom: true, Match: "all", NoSections: true},
		{N: 1, Queries: 2, Stalled: 1, Files: 3, Blocks: 12, Rows: 60, Bloom: true, Match: "all", NoSections: true},
	}
	if tier == "thorough" {
		multi = append(multi,
			scenario{N: 8, Queries: 6, Stalled: 2, Files: 6, Blocks: 4, Rows: 66, Bloom: true, Match: "all"},
			scenario{N: 4, Queries: 6, Stalled: 3, Files: 14, Blocks: 1, Rows: 3, Bloom: true, Match: "all"},
			scenario{N: 1, Queries: 5, Stalled: 4, Files: 7, Blocks: 2, Rows: 9, Bloom: false, Match: "all"})
	}
	for _, m := range multi {
		for _, gate := range []bool{true, false} {
			sc := m
			sc.Kind, sc.GateReads, sc.Consumer = "multi", gate, "drain"
			add(sc)
		}
	}
	return out
}

func main() {
	out := flag.String("out", "", "output directory")
	seed := flag.Int64("seed", 1, "seed")
	tier := flag.String("tier", "quick", "quick|thorough")
	replay := flag.String("replay", "", "file with scenarios (ndjson) to run instead of generating")
	flag.Parse()
	if *out == "" {
		fmt.Fprintln(os.Stderr, "usage: query -out DIR")
		os.Exit(2)
	}
	h.Must(os.MkdirAll(*out, 0o755), "mkdir")
	scratch := *out + "/scratch"
	h.Must(os.MkdirAll(scratch, 0o755), "mkdir")
	guard := h.CaptureStdio()
	var scs []scenario
	if *replay != "" {
		data, err := os.ReadFile(*replay)
		h.Must(err, "replay file")
		for _, line := range strings.Split(strings.TrimSpace(string(data)), "\n") {
			var sc scenario
			h.Must(json.Unmarshal([]byte(line), &sc), "replay scenario")
			scs = append(scs, sc)
		}
	} else {
		scs = generate(*tier, *seed, scratch, guard)
	}
	qrec.open(*out + "/qtrace.ndjson")
	defer qrec.close()
	f, err := os.Create(*out + "/obs.ndjson")
	h.Must(err, "create obs")
	enc := json.NewEncoder(f)
	infra := 0
	for _, sc := range scs {
		var o obs
		func() {
			defer func() {
				if p := recover(); p != nil {
					o.ID, o.Sc, o.Panic = sc.ID, sc, fmt.Sprint(p)
				}
			}()
			if sc.Kind == "multi" {
				o = runMulti(sc, scratch, guard)
			} else {
				o = runSolo(sc, scratch, guard)
			}
		}()
		if o.Qs == nil {
			o.Qs = []qobs{}
		}
		if o.Handles == nil {
			o.Handles = []handleObs{}
		}
		if o.Infra != "" {
			infra++
		}
		h.Must(enc.Encode(o), "encode")
	}
	f.Close()
	qrec.close()
	os.RemoveAll(scratch)
	total := guard.Len()
	guard.Restore()
	h.WriteJSON(*out+"/summary.json", map[string]any{"scenarios": len(scs), "infra": infra, "stdio_bytes": total})
	fmt.Printf("query: %d scenarios, %d infra, %d stdio bytes\n", len(scs), infra, total)
}
