// Command layout replays malformed and corrupted bloom files against the real
// readers (C19).
//
// framing: for an engine-written file, CRC-consistent footers are crafted in
// which the framing fields (file filter section size, block filter region
// offset/size, block row-data offset/size, block filter offset/size) take
// values from a landmark-relative domain: negatives, zero, every boundary of
// the file +-1, small sizes, and values near the integer limits. Each file is
// fed to ReadFileMetadata, the block read helpers and a query, through a
// reader that records every seek/read; allocation is measured.
//
// corrupt: bit flips, bursts, truncations, extensions and splices at seeded
// positions of engine-written files (none / snappy / zstd), queried through a
// directory-scan style MetaStore (metadata read back from the corrupt bytes)
// and through a MetaStore holding the pristine metadata.
//
// Risky work runs in a child process (a panic on an engine goroutine or an
// absurd allocation kills only the child; the parent records it against the
// case in flight).
package main

import (
	"bufio"
	"bytes"
	"context"
	"encoding/binary"
	"encoding/json"
	"flag"
	"fmt"
	"hash/crc32"
	"io"
	"math"
	"math/rand"
	"os"
	"os/exec"
	"runtime"
	"sort"
	"strings"
	"syscall"
	"time"

	bs "github.com/danthegoodman1/bloomsearch"
	"verifharness/internal/h"
)

type blockT struct {
	RDO, RDS, BFO, BFS int64
}

type caseT struct {
	ID     int      `json:"id"`
	Class  string   `json:"class"` // framing | corrupt
	File   int      `json:"file"`  // index of the pristine file
	FFS    int64    `json:"ffs"`
	RO     int64    `json:"ro"`
	RS     int64    `json:"rs"`
	Blocks []blockT `json:"blocks"`
	Varied string   `json:"varied"`
	// corrupt
	Mut  string `json:"mut"` // flip | burst | trunc | extend | splice
	Pos  int    `json:"pos"`
	Len  int    `json:"len"`
	Seed int64  `json:"seed"`
}

type tupleObs struct {
	F, M, FFS, RO, RS int64
	Blocks            []map[string]int64
}

type obsT struct {
	ID        int            `json:"id"`
	Class     string         `json:"class"`
	Varied    string         `json:"varied"`
	Mut       string         `json:"mut"`
	Comp      string         `json:"comp"`
	T         map[string]any `json:"t"` // clamped tuple for the specification
	FFS0      bool           `json:"ffs_pristine"`
	Accept    bool           `json:"accept"`
	OOB       int            `json:"oob_reads"` // reads/seeks outside [0, file size]
	MaxRead   int64          `json:"max_read"`
	Alloc     int64          `json:"alloc"`
	FileSize  int64          `json:"file_size"`
	Panic     string         `json:"panic"`
	HelperErr int            `json:"helper_errs"`
	HelperOK  int            `json:"helper_ok"`
	Rows      int            `json:"rows"`
	Outside   int            `json:"outside"` // rows returned that were never written
	QErr      bool           `json:"qerr"`
	Exact     bool           `json:"exact"`
	// pristine-metadata pass (corrupt class)
	PRows    int  `json:"p_rows"`
	POutside int  `json:"p_outside"`
	PQErr    bool `json:"p_qerr"`
	PExact   bool `json:"p_exact"`
	Changed  bool `json:"changed"` // the mutation changed the bytes
	// MetaStore-held filter framing pass (framing class, filter fields only)
	MSPanic   string `json:"ms_panic"`
	MSOOB     int    `json:"ms_oob"`
	MSOutside int    `json:"ms_outside"`
	Stdio     int    `json:"stdio"`
}

// ---------------------------------------------------------------------------
// pristine files

type pristine struct {
	comp  string
	data  []byte
	md    *bs.FileMetadata
	ids   map[string]bool
	L, M  int64 // data limit, metadata JSON offset
	ffsec []byte
}

func buildPristine(comp bs.CompressionType, seed int64) (*pristine, error) {
	mem := h.NewMemData()
	meta := bs.NewMemoryMetaStore()
	cfg := bs.DefaultBloomSearchEngineConfig()
	cfg.RowDataCompression = comp
	cfg.MaxBufferedTime = time.Hour
	cfg.PartitionFunc = func(row map[string]any) string { s, _ := row["p"].(string); return s }
	eng, err := bs.NewBloomSearchEngine(cfg, meta, mem)
	if err != nil {
		return nil, err
	}
	eng.Start()
	p := &pristine{comp: string(comp), ids: map[string]bool{}}
	var rows []map[string]any
	for b := 0; b < 2; b++ {
		for r := 0; r < 6; r++ {
			id := fmt.Sprintf("%s-b%dr%d", comp, b, r)
			p.ids[id] = true
			rows = append(rows, map[string]any{"id": id, "p": fmt.Sprintf("p%d", b), "m": "yes", "txt": strings.Repeat("lorem ipsum ", 3+r)})
		}
	}
	done := make(chan error, 1)
	if err := eng.IngestRows(context.Background(), rows, done); err != nil {
		return nil, err
	}
	if err := eng.Flush(context.Background()); err != nil {
		return nil, err
	}
	if err := <-done; err != nil {
		return nil, err
	}
	ctx, cancel := context.WithTimeout(context.Background(), 10*time.Second)
	eng.Stop(ctx)
	cancel()
	pub := mem.Published()
	if len(pub) != 1 {
		return nil, fmt.Errorf("%d files", len(pub))
	}
	p.data, _ = mem.Bytes(pub[0])
	md, size, err := bs.ReadFileMetadata(bytes.NewReader(p.data))
	if err != nil {
		return nil, err
	}
	p.md = md
	sort.Slice(md.DataBlocks, func(i, j int) bool { return md.DataBlocks[i].RowDataOffset < md.DataBlocks[j].RowDataOffset })
	// locate the metadata JSON and the file filter section from the tail
	tail := int64(4 + 4 + 4 + len(bs.MagicBytes))
	mlen := int64(binary.LittleEndian.Uint32(p.data[size-tail+4:]))
	p.M = size - tail - mlen
	var js struct{ FileFilterSectionSize int }
	if err := json.Unmarshal(p.data[p.M:p.M+mlen], &js); err != nil {
		return nil, err
	}
	p.L = p.M - int64(js.FileFilterSectionSize)
	p.ffsec = p.data[p.L:p.M]
	return p, nil
}

type footerJSON struct {
	BloomFalsePositiveRate  float64
	BloomEntryCounts        bs.BloomEntryCounts
	BlockFilterRegionOffset int
	BlockFilterRegionSize   int
	FileFilterSectionSize   int
	DataBlocks              []bs.DataBlockMetadata
}

// craft builds a CRC-consistent file whose footer declares the case's framing.
func craft(p *pristine, c *caseT) ([]byte, []bs.DataBlockMetadata) {
	blocks := make([]bs.DataBlockMetadata, len(p.md.DataBlocks))
	copy(blocks, p.md.DataBlocks)
	for i := range blocks {
		if i < len(c.Blocks) {
			blocks[i].RowDataOffset, blocks[i].RowDataSize = int(c.Blocks[i].RDO), int(c.Blocks[i].RDS)
			blocks[i].BloomFilterOffset, blocks[i].BloomFilterSize = int(c.Blocks[i].BFO), int(c.Blocks[i].BFS)
		}
	}
	fj := footerJSON{BloomFalsePositiveRate: p.md.BloomFalsePositiveRate, BloomEntryCounts: p.md.BloomEntryCounts,
		BlockFilterRegionOffset: int(c.RO), BlockFilterRegionSize: int(c.RS), FileFilterSectionSize: int(c.FFS), DataBlocks: blocks}
	js, err := json.Marshal(fj)
	h.Must(err, "marshal footer")
	var out bytes.Buffer
	out.Write(p.data[:p.M]) // row data, block filter region, file filter section
	out.Write(js)
	var u [4]byte
	binary.LittleEndian.PutUint32(u[:], crc32.Checksum(js, crc32.MakeTable(crc32.Castagnoli)))
	out.Write(u[:])
	binary.LittleEndian.PutUint32(u[:], uint32(len(js)))
	out.Write(u[:])
	binary.LittleEndian.PutUint32(u[:], bs.FileVersion)
	out.Write(u[:])
	out.WriteString(bs.MagicBytes)
	return out.Bytes(), blocks
}

// ---------------------------------------------------------------------------
// recording reader and store

type recReader struct {
	r    *bytes.Reader
	size int64
	pos  int64
	oob  *int
	maxR *int64
}

func (r *recReader) Read(p []byte) (int, error) {
	if len(p) > 0 && (r.pos < 0 || r.pos+int64(len(p)) > r.size) {
		*r.oob++ // the request names bytes the file does not have
	}
	if int64(len(p)) > *r.maxR {
		*r.maxR = int64(len(p))
	}
	n, err := r.r.Read(p)
	r.pos += int64(n)
	return n, err
}

func (r *recReader) Seek(off int64, whence int) (int64, error) {
	pos, err := r.r.Seek(off, whence)
	if err == nil {
		r.pos = pos
		if pos < 0 || pos > r.size {
			*r.oob++
		}
	} else {
		*r.oob++
	}
	return pos, err
}

func (r *recReader) Close() error { return nil }

type oneFileStore struct {
	data []byte
	oob  *int
	maxR *int64
}

func (s *oneFileStore) CreateFile(ctx context.Context) (io.WriteCloser, []byte, error) {
	return nil, nil, fmt.Errorf("read-only")
}
func (s *oneFileStore) OpenFile(ctx context.Context, ptr []byte) (io.ReadSeekCloser, error) {
	return &recReader{r: bytes.NewReader(s.data), size: int64(len(s.data)), oob: s.oob, maxR: s.maxR}, nil
}
func (s *oneFileStore) TombstoneFile(ctx context.Context, ptr []byte) error { return nil }

func clamp(v int64) int64 {
	const lim = 1 << 30
	if v > lim {
		return lim
	}
	if v < -lim {
		return -lim
	}
	return v
}

// query runs Field("m") over a store holding data with the given metadata.
func query(data []byte, md bs.FileMetadata, ids map[string]bool, oob *int, maxR *int64) (rows, outside int, qerr bool, exact bool) {
	meta := bs.NewMemoryMetaStore()
	meta.Update(context.Background(), []bs.WriteOperation{{FileMetadata: &md, FilePointerBytes: []byte("f")}}, nil)
	cfg := bs.DefaultBloomSearchEngineConfig()
	cfg.MaxQueryConcurrency = 2
	eng, err := bs.NewBloomSearchEngine(cfg, meta, &oneFileStore{data: data, oob: oob, maxR: maxR})
	if err != nil {
		return 0, 0, true, false
	}
	ctx, cancel := context.WithTimeout(context.Background(), 20*time.Second)
	defer cancel()
	res, err := eng.Query(ctx, bs.NewQuery().Field("m").Build())
	if err != nil {
		return 0, 0, true, false
	}
	defer res.Close()
	got := map[string]int{}
	for res.Next() {
		id, _ := res.Row()["id"].(string)
		got[id]++
		rows++
		if !ids[id] || got[id] > 1 {
			outside++
		}
	}
	qerr = res.Err() != nil
	exact = outside == 0 && len(got) == len(ids)
	return
}

func allocNow() int64 {
	var ms runtime.MemStats
	runtime.ReadMemStats(&ms)
	return int64(ms.TotalAlloc)
}

func mutate(p *pristine, c *caseT) []byte {
	rng := rand.New(rand.NewSource(c.Seed))
	d := append([]byte(nil), p.data...)
	switch c.Mut {
	case "flip":
		d[c.Pos] ^= 1 << uint(rng.Intn(8))
	case "burst":
		for i := 0; i < c.Len && c.Pos+i < len(d); i++ {
			d[c.Pos+i] = byte(rng.Intn(256))
		}
	case "trunc":
		d = d[:c.Pos]
	case "extend":
		ext := make([]byte, c.Len)
		rng.Read(ext)
		d = append(d, ext...)
	case "splice":
		// copy Len bytes from elsewhere in the file over Pos
		src := rng.Intn(len(d))
		for i := 0; i < c.Len && c.Pos+i < len(d) && src+i < len(d); i++ {
			d[c.Pos+i] = p.data[src+i]
		}
	case "zero":
		for i := 0; i < c.Len && c.Pos+i < len(d); i++ {
			d[c.Pos+i] = 0
		}
	}
	return d
}

func runCase(ps []*pristine, c *caseT, guard *h.StdioGuard) (o obsT) {
	p := ps[c.File]
	o.ID, o.Class, o.Varied, o.Mut, o.Comp = c.ID, c.Class, c.Varied, c.Mut, p.comp
	std0 := guard.Len()
	defer func() { o.Stdio = guard.Len() - std0 }()
	defer func() {
		if r := recover(); r != nil {
			o.Panic = fmt.Sprint(r)
		}
	}()
	var data []byte
	if c.Class == "framing" {
		data, _ = craft(p, c)
		bl := []map[string]int64{}
		for _, b := range c.Blocks {
			bl = append(bl, map[string]int64{"rdo": clamp(b.RDO), "rds": clamp(b.RDS), "bfo": clamp(b.BFO), "bfs": clamp(b.BFS)})
		}
		o.T = map[string]any{"F": int64(len(data)), "M": p.M, "ffs": clamp(c.FFS), "ro": clamp(c.RO), "rs": clamp(c.RS), "blocks": bl}
		o.FFS0 = c.FFS == p.M-p.L
	} else {
		data = mutate(p, c)
		o.Changed = !bytes.Equal(data, p.data)
		o.T = map[string]any{"F": int64(len(data)), "M": int64(0), "ffs": int64(0), "ro": int64(0), "rs": int64(0), "blocks": []map[string]int64{}}
	}
	o.FileSize = int64(len(data))
	a0 := allocNow()
	rd := &recReader{r: bytes.NewReader(data), size: int64(len(data)), oob: &o.OOB, maxR: &o.MaxRead}
	md, _, err := bs.ReadFileMetadata(rd)
	o.Accept = err == nil
	if err == nil {
		for i := range md.DataBlocks {
			blk := md.DataBlocks[i]
			rd := &recReader{r: bytes.NewReader(data), size: int64(len(data)), oob: &o.OOB, maxR: &o.MaxRead}
			if raw, err := bs.ReadDataBlockRowData(rd, &blk); err != nil {
				o.HelperErr++
			} else {
				o.HelperOK++
				sc := bs.NewBlockRowScanner(raw)
				for {
					_, ok, err := sc.Next()
					if err != nil || !ok {
						break
					}
				}
			}
			if _, err := bs.ReadDataBlockBloomFilters(rd, blk); err != nil {
				o.HelperErr++
			} else {
				o.HelperOK++
			}
		}
		o.Rows, o.Outside, o.QErr, o.Exact = query(data, *md, p.ids, &o.OOB, &o.MaxRead)
	}
	o.Alloc = allocNow() - a0
	if c.Class == "corrupt" {
		// the engine cannot know the file is shorter than the MetaStore's metadata says: a request past the end that
		// comes back as an error is a clean failure, so these requests are counted separately (not judged)
		var mx int64
		o.PRows, o.POutside, o.PQErr, o.PExact = query(data, *p.md, p.ids, &o.MSOOB, &mx)
	} else if strings.Contains(c.Varied, "bf") || strings.Contains(c.Varied, "ro") || strings.Contains(c.Varied, "rs") {
		// the MetaStore hands the engine this framing without it ever passing ReadFileMetadata: the engine's own
		// region planning has to reject what does not fit (filter fields only)
		func() {
			defer func() {
				if r := recover(); r != nil {
					o.MSPanic = fmt.Sprint(r)
				}
			}()
			mdx := *p.md
			mdx.DataBlocks = append([]bs.DataBlockMetadata(nil), p.md.DataBlocks...)
			mdx.BlockFilterRegionOffset, mdx.BlockFilterRegionSize = int(c.RO), int(c.RS)
			for i := range mdx.DataBlocks {
				if i < len(c.Blocks) {
					mdx.DataBlocks[i].BloomFilterOffset, mdx.DataBlocks[i].BloomFilterSize = int(c.Blocks[i].BFO), int(c.Blocks[i].BFS)
				}
			}
			var mx int64
			_, o.MSOutside, _, _ = query(p.data, mdx, p.ids, &o.MSOOB, &mx)
		}()
	}
	return
}

// ---------------------------------------------------------------------------
// case generation

func genCases(ps []*pristine, tier string, seed int64) []caseT {
	rng := rand.New(rand.NewSource(seed))
	var out []caseT
	add := func(c caseT) {
		c.ID = len(out) + 1
		out = append(out, c)
	}
	big := []int64{math.MaxInt32, math.MaxInt32 + 1, math.MaxInt64, math.MaxInt64 - 1, math.MinInt64, math.MinInt64 + 1, 1 << 40, -(1 << 40)}
	for fi, p := range ps {
		base := caseT{Class: "framing", File: fi, FFS: p.M - p.L, RO: int64(p.md.BlockFilterRegionOffset), RS: int64(p.md.BlockFilterRegionSize)}
		for _, b := range p.md.DataBlocks {
			base.Blocks = append(base.Blocks, blockT{int64(b.RowDataOffset), int64(b.RowDataSize), int64(b.BloomFilterOffset), int64(b.BloomFilterSize)})
		}
		F := int64(len(p.data))
		ro, rs := base.RO, base.RS
		lm := []int64{-1, 0, 1, 2, 3, 4, 5, ro - 1, ro, ro + 1, ro + rs - 1, ro + rs, ro + rs + 1, p.L - 1, p.L, p.L + 1, p.M - 1, p.M, p.M + 1, F - 1, F, F + 1,
			rs - 1, rs, rs + 1, p.L - ro, p.L - ro + 1, math.MaxInt64 - ro, math.MaxInt64 - ro + 1, math.MaxInt64 - (ro + rs) + 1}
		lm = append(lm, big...)
		for _, b := range base.Blocks {
			lm = append(lm, b.RDO-1, b.RDO+1, b.RDS-1, b.RDS+1, b.BFO-1, b.BFO+1, b.BFS-1, b.BFS+1, ro-b.RDO, ro-b.RDO+1, ro+rs-b.BFO, ro+rs-b.BFO+1)
		}
		type field struct {
			name string
			set  func(c *caseT, v int64)
		}
		fields := []field{
			{"ffs", func(c *caseT, v int64) { c.FFS = v }}, {"ro", func(c *caseT, v int64) { c.RO = v }}, {"rs", func(c *caseT, v int64) { c.RS = v }},
			{"rdo1", func(c *caseT, v int64) { c.Blocks[0].RDO = v }}, {"rds1", func(c *caseT, v int64) { c.Blocks[0].RDS = v }},
			{"bfo1", func(c *caseT, v int64) { c.Blocks[0].BFO = v }}, {"bfs1", func(c *caseT, v int64) { c.Blocks[0].BFS = v }},
			{"rdo2", func(c *caseT, v int64) { c.Blocks[1].RDO = v }}, {"rds2", func(c *caseT, v int64) { c.Blocks[1].RDS = v }},
			{"bfo2", func(c *caseT, v int64) { c.Blocks[1].BFO = v }}, {"bfs2", func(c *caseT, v int64) { c.Blocks[1].BFS = v }},
		}
		clone := func() caseT {
			c := base
			c.Blocks = append([]blockT(nil), base.Blocks...)
			return c
		}
		add(clone()) // the pristine framing itself
		// one field at a time over every landmark
		for _, f := range fields {
			for _, v := range lm {
				c := clone()
				f.set(&c, v)
				c.Varied = f.name
				add(c)
			}
		}
		// pairs (sampled in the quick tier)
		npairs := 1500
		if tier == "thorough" {
			npairs = 30000
		}
		for i := 0; i < npairs; i++ {
			a, b := rng.Intn(len(fields)), rng.Intn(len(fields))
			if a == b {
				continue
			}
			c := clone()
			fields[a].set(&c, lm[rng.Intn(len(lm))])
			fields[b].set(&c, lm[rng.Intn(len(lm))])
			c.Varied = fields[a].name + "+" + fields[b].name
			add(c)
		}
		// framing that is consistent with itself and absurd: a region far larger than any file, and a block's section
		// filling it (both tiers: each field alone is caught by the check against the other)
		for _, top := range []int64{math.MaxInt64, 1 << 40, 1 << 33} {
			for _, d := range []int64{0, 1, 1000} {
				for bi := range base.Blocks {
					for _, e := range []int64{0, 1, 100} {
						c := clone()
						c.RS = top - c.RO - d
						c.Blocks[bi].BFS = c.RS - (c.Blocks[bi].BFO - c.RO) - e
						c.Varied = fmt.Sprintf("rs+bfs%d", bi+1)
						add(c)
					}
				}
			}
		}
		// small filter sections at every offset of the region (sections shorter than a checksum + flag byte)
		stride := int64(1)
		if tier != "thorough" && fi > 0 {
			stride = 3
		}
		for off := ro; off <= ro+rs; off += stride {
			for _, sz := range []int64{1, 2, 3, 4, 5, 6} {
				c := clone()
				c.Blocks[0].BFO, c.Blocks[0].BFS = off, sz
				c.Varied = "bfo1+bfs1"
				add(c)
			}
		}
		// corruption classes
		nmut := 250
		if tier == "thorough" {
			nmut = 8000
		}
		muts := []string{"flip", "flip", "burst", "trunc", "extend", "splice", "zero"}
		for i := 0; i < nmut; i++ {
			c := caseT{Class: "corrupt", File: fi, Mut: muts[rng.Intn(len(muts))], Pos: rng.Intn(len(p.data)), Len: 1 + rng.Intn(40), Seed: rng.Int63()}
			if c.Mut == "trunc" && rng.Intn(2) == 0 {
				// truncate at a section boundary +-1
				bnd := []int64{ro, ro + rs, p.L, p.M, F - 20, F - 8, F - 4}
				for _, b := range base.Blocks {
					bnd = append(bnd, b.RDO, b.RDO+b.RDS, b.BFO, b.BFO+b.BFS)
				}
				c.Pos = int(bnd[rng.Intn(len(bnd))]) + rng.Intn(3) - 1
				if c.Pos < 0 {
					c.Pos = 0
				}
				if c.Pos > len(p.data) {
					c.Pos = len(p.data)
				}
			}
			add(c)
		}
	}
	return out
}

// ---------------------------------------------------------------------------

func loadPristine() []*pristine {
	var ps []*pristine
	for _, comp := range []bs.CompressionType{bs.CompressionNone, bs.CompressionSnappy, bs.CompressionZstd} {
		p, err := buildPristine(comp, 1)
		h.Must(err, "pristine "+string(comp))
		ps = append(ps, p)
	}
	return ps
}

func child(casesPath, outPath, progressPath string, from int) {
	// bound the address space: an absurd allocation must kill this process, not the machine
	var lim syscall.Rlimit
	lim.Cur, lim.Max = 12<<30, 12<<30
	syscall.Setrlimit(syscall.RLIMIT_AS, &lim)
	guard := h.CaptureStdio()
	ps := loadPristine()
	f, err := os.Open(casesPath)
	h.Must(err, "open cases")
	out, err := os.OpenFile(outPath, os.O_APPEND|os.O_CREATE|os.O_WRONLY, 0o644)
	h.Must(err, "open out")
	w := bufio.NewWriter(out)
	sc := bufio.NewScanner(f)
	sc.Buffer(make([]byte, 1<<20), 1<<24)
	idx := 0
	for sc.Scan() {
		idx++
		if idx < from {
			continue
		}
		var c caseT
		h.Must(json.Unmarshal(sc.Bytes(), &c), "case")
		os.WriteFile(progressPath, []byte(fmt.Sprint(idx)), 0o644)
		o := runCase(ps, &c, guard)
		b, _ := json.Marshal(o)
		w.Write(b)
		w.WriteByte('\n')
		w.Flush()
	}
	os.WriteFile(progressPath, []byte("done"), 0o644)
	guard.Restore()
}

// dyingWords cuts the runtime's report out of a dead child's output: from "panic:" / "fatal error:" on.
func dyingWords(out string) string {
	for _, key := range []string{"panic:", "fatal error:"} {
		if i := strings.Index(out, key); i >= 0 {
			out = out[i:]
			break
		}
	}
	if len(out) > 700 {
		out = out[:700]
	}
	return out
}

func main() {
	out := flag.String("out", "", "output directory")
	seed := flag.Int64("seed", 1, "seed")
	tier := flag.String("tier", "quick", "quick|thorough")
	isChild := flag.Bool("child", false, "")
	from := flag.Int("from", 1, "")
	flag.Parse()
	if *out == "" {
		fmt.Fprintln(os.Stderr, "usage: layout -out DIR")
		os.Exit(2)
	}
	casesPath, obsPath, progPath := *out+"/cases.ndjson", *out+"/obs.ndjson", *out+"/progress"
	if *isChild {
		child(casesPath, obsPath, progPath, *from)
		return
	}
	h.Must(os.MkdirAll(*out, 0o755), "mkdir")
	ps := loadPristine()
	cases := genCases(ps, *tier, *seed)
	f, err := os.Create(casesPath)
	h.Must(err, "create cases")
	enc := json.NewEncoder(f)
	for _, c := range cases {
		h.Must(enc.Encode(c), "encode")
	}
	f.Close()
	os.Remove(obsPath)
	start, crashes := 1, 0
	for start <= len(cases) {
		os.Remove(progPath)
		cmd := exec.Command(os.Args[0], "-child", "-out", *out, "-from", fmt.Sprint(start))
		var stderr bytes.Buffer
		cmd.Stderr = &stderr
		cmd.Stdout = &stderr
		// the child points its own descriptors 1 and 2 at a capture file: what a dying child says ends up there
		childCap := *out + "/child.cap"
		cmd.Env = append(os.Environ(), "VERIF_STDIO_CAP="+childCap)
		err := cmd.Run()
		if b, rerr := os.ReadFile(childCap); rerr == nil && len(b) > 0 {
			stderr.Write(b)
		}
		prog, _ := os.ReadFile(progPath)
		if string(prog) == "done" && err == nil {
			break
		}
		// the child died while running case idx
		idx := 0
		fmt.Sscan(string(prog), &idx)
		if idx < start {
			fmt.Fprintf(os.Stderr, "HARNESS-ERROR child made no progress from %d: %v\n%s\n", start, err, tail(stderr.String(), 1500))
			os.Exit(2)
		}
		crashes++
		c := cases[idx-1]
		o := obsT{ID: c.ID, Class: c.Class, Varied: c.Varied, Mut: c.Mut, Comp: ps[c.File].comp, Panic: "process died: " + dyingWords(stderr.String()),
			T: map[string]any{"F": int64(0), "M": int64(0), "ffs": int64(0), "ro": int64(0), "rs": int64(0), "blocks": []map[string]int64{}}}
		of, _ := os.OpenFile(obsPath, os.O_APPEND|os.O_CREATE|os.O_WRONLY, 0o644)
		b, _ := json.Marshal(o)
		of.Write(append(b, '\n'))
		of.Close()
		start = idx + 1
		if crashes > 200 {
			break
		}
	}
	h.WriteJSON(*out+"/summary.json", map[string]any{"cases": len(cases), "child_crashes": crashes})
	fmt.Printf("layout: %d cases, %d child crashes\n", len(cases), crashes)
}

func tail(s string, n int) string {
	if len(s) > n {
		return s[len(s)-n:]
	}
	return s
}
