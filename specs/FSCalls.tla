------------------------------ MODULE FSCalls ------------------------------
(***************************************************************************)
(* FileSystemDataStore's call-level specification (FSCallsOps.tla)         *)
(* explored by TLC: every sequence of CreateFile / Write / Close / Abort / *)
(* TombstoneFile over a few writers, names (forced collisions) and payloads,*)
(* with failures of the reservation, a write, the fsync or the rename.     *)
(***************************************************************************)
EXTENDS FSCallsOps

(***************************************************************************)
(* The specification explored by TLC                                       *)
(***************************************************************************)
VARIABLES st, hist
vars == << st, hist >>

Owner(s, n) == { w \in WriterIds : s.wr[w].st # "none" /\ s.wr[w].name = n }
FreeName(s) == \E n \in Names : ~s.dat[n].e /\ ~s.tmp[n].e
Init == st = S0 /\ hist = [n \in Names |-> None]      \* hist: the last published content of each name (for NoClobber)

Create(w) == /\ st.wr[w].st = "none" /\ FreeName(st)
             /\ \E n1 \in Names, n2 \in Names, n3 \in Names, pay \in Pays, f \in {"", "reserve"} :
                  st' = DoCreate(st, w, << n1, n2, n3 >>, f, pay).s
             /\ UNCHANGED hist
Write(w) == /\ st.wr[w].st = "open" /\ st.wr[w].k < 2 /\ \E f \in {"", "write"} : st' = DoWrite(st, w, f).s /\ UNCHANGED hist
Close(w) == /\ st.wr[w].st # "none" /\ (st.wr[w].st = "open" => st.wr[w].k = 2)
            /\ \E f \in {"", "sync", "rename", "dirsync"} : st' = DoClose(st, w, f).s /\ UNCHANGED hist
Abort(w) == /\ st.wr[w].st # "none" /\ st' = DoAbort(st, w).s /\ UNCHANGED hist
Tombstone(w) == /\ st.wr[w].st \in {"closed", "aborted", "cf", "cfr"}
                /\ Owner(st, st.wr[w].name) = {w}
                /\ st' = DoTombstone(st, w).s /\ UNCHANGED hist
Next == \E w \in WriterIds : Create(w) \/ Write(w) \/ Close(w) \/ Abort(w) \/ Tombstone(w)
Spec == Init /\ [][Next]_vars

\* a scan lists exactly the files whose Close succeeded and that were not tombstoned, with exactly their bytes
\* ("cfr": a Close that failed after its rename leaves the file listed until Abort / TombstoneFile - the documented transient)
ScanExact == ScanOf(st) = { st.wr[w].name : w \in { w \in WriterIds : st.wr[w].st \in {"closed", "cfr"} } }
             /\ \A w \in WriterIds : st.wr[w].st = "closed" => st.dat[st.wr[w].name] = [e |-> TRUE, p |-> st.wr[w].pay, k |-> 2]
\* in-progress content is never visible at a final name
NeverExposes == \A n \in Names : (st.dat[n].e /\ st.dat[n].k > 0) => \E w \in WriterIds : st.wr[w].st \in {"closed", "cfr"} /\ st.wr[w].name = n
\* an aborted or tombstoned writer leaves nothing behind, whatever happened before
AbortLeavesNothing == \A w \in WriterIds :
     (st.wr[w].st = "aborted" /\ \A w2 \in WriterIds \ {w} : st.wr[w2].st = "none" \/ st.wr[w2].name # st.wr[w].name)
        => (~st.dat[st.wr[w].name].e /\ ~st.tmp[st.wr[w].name].e)
\* a published file changes only by its own tombstone
NoClobber == [][\A w \in WriterIds : (st.wr[w].st = "closed" /\ st'.wr[w].st = "closed") => st'.dat[st.wr[w].name] = st.dat[st.wr[w].name]]_vars
\* artifacts belong to a live writer
NoOrphans == \A n \in Names : (st.dat[n].e \/ st.tmp[n].e) => Owner(st, n) # {}
=============================================================================
