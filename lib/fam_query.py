"""Query-pipeline family (C20 C21 C22): QueryPipeline.tla is the faithful
specification of the read path (file stage, file workers, block workers,
teardown, handle pool, shared semaphore, Results cursor, Close through
sync.Once, caller cancellation, store failures), model-checked by TLC for
safety and - under fairness - liveness (Next eventually false for a live
consumer while another query's consumer is stalled for ever). cmd/query
drives the real engine through scenarios taken from the specification's
action space; QueryMonitor.tla (TLC) judges every observation, and the
steps the engine took in those scenarios (recorded at its verifQ points) are
checked to be behaviours of QueryPipeline.tla by QueryPipelineTrace.tla
(lib/qtrace.py)."""
import json
import os
import re
import shutil
import time

from vcommon import Infra, drive, build_harness, copy_specs, monitor_report, run, scratch_dir, tlc, tlc_errors, tlc_stats, tlc_violations

PROPS = ["C20", "C21", "C22"]
DESIGN = {
    # live_nb: the liveness configuration without a filter pass (HasBloom = FALSE), a fifth of the states of `live`
    "quick": [("QueryPipeline_b.cfg", 16), ("QueryPipeline_c.cfg", 16), ("QueryPipeline_d.cfg", 16), ("QueryPipeline_live_nb.cfg", 16)],
    "thorough": [("QueryPipeline_b.cfg", 16), ("QueryPipeline_c.cfg", 16), ("QueryPipeline_d.cfg", 16), ("QueryPipeline_live_nb.cfg", 16),
                 ("QueryPipeline_live.cfg", 16),
                 ("QueryPipeline_e.cfg", 16), ("QueryPipeline_a.cfg", 16)],
}
# the repaired defect (Close ignoring a preceding caller cancellation) as a switch of the specification:
# with the switch off TLC must find the ErrOK counterexample (sensitivity of the design check)
EXPECTED = [("QueryPipeline_defect.cfg", "ErrOK")]


def monitor(work, obs, name="obs.ndjson"):
    shutil.copyfile(obs, os.path.join(work, "obs.ndjson"))
    rc, out, secs = tlc(work, "QueryMonitor.tla", "QueryMonitor.cfg", workers=1, timeout=3000, heap="6g")
    errs = tlc_errors(out)
    if errs:
        raise Infra("query monitor failed: %s\n%s" % (errs[:3], out[-2000:]))
    rep = monitor_report(out)
    m = re.search(r'<<"MONITOR-STATS", (".*")>>', out)
    return rep, (json.loads(json.loads(m.group(1))) if m else {})


def sig_of(pred, o):
    sc = o["sc"]
    return {"pred": pred, "kind": sc["kind"], "pause": re.sub(r"#\d+", "", sc.get("pause", "")), "actions": "+".join(sc.get("actions") or []),
            "fault": re.sub(r"#\d+", "", sc.get("fault", "")), "corrupt": bool(sc.get("corrupt"))}


def compute(tier, seed):
    t0 = time.time()
    work = scratch_dir("query")
    try:
        copy_specs(work)
        design = {"runs": [], "states": 0, "transitions": 0, "violations": []}
        for cfg, workers in DESIGN[tier]:
            rc, out, secs = tlc(work, "QueryPipeline.tla", cfg, workers=workers, timeout=5400)
            d, g = tlc_stats(out)
            v = tlc_violations(out) + tlc_errors(out)
            if v or d == 0 or "No error has been found" not in out:
                design["violations"].append({"cfg": cfg, "violated": v or ["did not complete"]})
            design["runs"].append({"cfg": cfg, "distinct": d, "generated": g, "secs": round(secs, 1)})
            design["states"] += d
            design["transitions"] += g
        for cfg, inv in EXPECTED:
            rc, out, secs = tlc(work, "QueryPipeline.tla", cfg, workers=4, timeout=600)
            got = tlc_violations(out)
            design["runs"].append({"cfg": cfg, "expected_violation": inv, "violated": got})
            if inv not in got:
                design["violations"].append({"cfg": cfg, "violated": ["expected counterexample of %s not found" % inv]})
        qbin = build_harness("query")
        outdir = os.path.join(work, "run")
        txt, hsecs = drive([qbin, "-out", outdir, "-seed", str(seed), "-tier", tier], work, "query", timeout=5400)
        obs_path = os.path.join(outdir, "obs.ndjson")
        rep, stats = monitor(work, obs_path)
        obs = {}
        infra = 0
        for line in open(obs_path):
            o = json.loads(line)
            obs[o["id"]] = o
            if o.get("infra"):
                infra += 1
        if infra > len(obs) // 10:
            raise Infra("%d of %d scenarios could not be set up" % (infra, len(obs)))
        viol = []
        if rep["violations"]:
            bad = sorted(set(v["id"] for v in rep["violations"]))
            rp = os.path.join(work, "replay.ndjson")
            with open(rp, "w") as f:
                for i in bad:
                    f.write(json.dumps(obs[i]["sc"]) + "\n")
            out2 = os.path.join(work, "rerun")
            rc, txt, _ = run([qbin, "-out", out2, "-seed", str(seed), "-replay", rp], timeout=3000, check=False)
            if rc != 0:
                raise Infra("query replay failed: " + txt[-2000:])
            rep2, _ = monitor(work, os.path.join(out2, "obs.ndjson"))
            again = set((v["id"], v["p"]) for v in rep2["violations"])
            for v in rep["violations"]:
                o = obs[v["id"]]
                prop = v["p"][:3]
                viol.append({"pred": v["p"], "prop": prop, "title": json.dumps(o["sc"])[:300], "sig": sig_of(v["p"], o),
                             "reproduced": (v["id"], v["p"]) in again, "observation": o})
        # structural conformance: the recorded steps must be a behaviour of QueryPipeline.tla (drift is reported, not judged)
        import qtrace
        conf = qtrace.validate(work, os.path.join(outdir, "qtrace.ndjson"), TRACE_SAMPLE[tier], seed)
        if conf["errors"] and not conf["accepted"]:
            raise Infra("read-path trace validation could not run: %s" % conf["errors"][:2])
        ids = sorted(obs)
        samples = [obs[i]["sc"] for i in ids[::max(1, len(ids) // 5)]][:5]
        kinds = {}
        for o in obs.values():
            sc = o["sc"]
            k = "multi" if sc["kind"] == "multi" else ("fault+pause" if sc["fault"] and sc["pause"] else "fault" if sc["fault"] else
                                                       "pause" if sc["pause"] else "corrupt" if sc["corrupt"] else "baseline")
            kinds[k] = kinds.get(k, 0) + 1
        return {"design": design, "impl": {"obs": len(obs), "kinds": kinds, "stats": stats, "infra": infra, "harness_secs": round(hsecs, 1),
                                           "conformance": conf},
                "violations": viol, "samples": samples, "wall_s": round(time.time() - t0, 1)}
    finally:
        shutil.rmtree(work, ignore_errors=True)


LEVEL = {"C20": "model_checking", "C21": "model_checking", "C22": "model_checking"}
TRACE_SAMPLE = {"quick": 48, "thorough": 2000}


def evidence(pid, tier, res):
    des, impl = res["design"], res["impl"]
    if des["violations"]:
        res["design_failed"] = des["violations"]
    n = impl["obs"] - impl["infra"]
    cov = {"states": des["states"], "transitions": des["transitions"], "traces_validated_against_impl": n,
           "samples": res["samples"], "design_runs": des["runs"], "scenario_kinds": impl["kinds"], "monitor_stats": impl["stats"],
           "summary": "%d scenarios of the real read path judged, %d design states" % (n, des["states"])}
    conf = impl.get("conformance")
    if conf:
        cov.update({"structurally_validated": conf["validated"], "structurally_accepted": conf["accepted"],
                    "structurally_accepted_steps": conf["steps_accepted"], "trace_validation_timeouts": conf["timeouts"],
                    "trace_validation_skipped": conf["skipped"], "trace_validation_errors": conf["errors"][:5],
                    "trace_actions_exercised": conf["actions_exercised"], "trace_validation_sample": conf["sample_trace"],
                    "drift_traces": [{"trace": r["scenario"], "program": r["name"], "explained": (r["reached"] or [None, None])[0],
                                      "events": (r["reached"] or [None, None])[1], "first_unexplained": r["stuck_at"][:6]}
                                     for r in conf["rejected"][:10]]})
    assumptions = ["fail-stop fault model for injected store failures; corruption is a flipped byte in a block's stored row data",
                   "scheduling control is at store-call boundaries (iterator entry, yields, opens, reads) plus consumer/closer/caller actions at quiescent points",
                   "goroutine quiescence is read from runtime.Stack states; leftover goroutines are looked for by frame name after a settle of at most 3 s",
                   "C20: a caller cancellation that lands while Close is in progress is not judged either way",
                   "C22: 'in-progress reads' are Read calls on handles returned by DataStore.OpenFile",
                   "structural acceptance (QueryPipelineTrace.tla): hook stamps bound each step's effect from above (and the previous hook of "
                   "the goroutine from below); TLC searches for an interleaving consistent with those bounds; the rows of a batch after the "
                   "first are folded into one step; a rejected or timed-out trace is reported as drift, never as a verdict"]
    return LEVEL[pid], cov, assumptions
