---------------------------- MODULE ChunkMonitor ----------------------------
(***************************************************************************)
(* Judges the region reads of the real filter pass over a file whose block   *)
(* filter region spans several chunks (cmd/chunk): the reads the engine      *)
(* issued must be exactly the reads ChunkCursorOps.tla computes for the      *)
(* candidates' sections in evaluation order and the 4 MiB cap (conformance,  *)
(* reported as drift), must stay inside the region the metadata declares     *)
(* (C24), and the query must return exactly the candidates' rows (C01/C02).  *)
(***************************************************************************)
EXTENDS ChunkCursorOps, Json

CONSTANT ObsFile
Obs == ndJsonDeserialize(ObsFile)
NObs == Len(Obs)
VARIABLES l, viol
vars == << l, viol >>

Secs(o) == [i \in 1..Len(o.sections) |-> [off |-> o.sections[i].off, size |-> o.sections[i].size]]
ObsReads(o) == [i \in 1..Len(o.reads) |-> [start |-> o.reads[i].off, len |-> o.reads[i].size]]

DRIFT_ChunkReadsAsSpecified(o) == ObsReads(o) = Reads(Secs(o), o.cap)
C24_RegionReadsInsideRegion(o) == o.outside = 0
C24_NoRegionReadWithoutSections(o) == (\A i \in 1..Len(o.sections) : o.sections[i].size = 0) => Len(o.reads) = 0
C01_MultiChunkNoFalseNegative(o) == o.qerr = "" /\ \A i \in 1..Len(o.expect) : \E j \in 1..Len(o.rows) : o.rows[j] = o.expect[i]
C02_MultiChunkExact(o) == o.rows = o.expect
C27_Silent(o) == o.stdio = 0

Props(o) ==
  [ DRIFT_ChunkReadsAsSpecified |-> DRIFT_ChunkReadsAsSpecified(o), C24_RegionReadsInsideRegion |-> C24_RegionReadsInsideRegion(o),
    C24_NoRegionReadWithoutSections |-> C24_NoRegionReadWithoutSections(o),
    C01_MultiChunkNoFalseNegative |-> C01_MultiChunkNoFalseNegative(o), C02_MultiChunkExact |-> C02_MultiChunkExact(o),
    C27_Silent |-> C27_Silent(o) ]

Init == l = 1 /\ viol = {}
Next == /\ l <= NObs
        /\ LET o == Obs[l] pr == Props(o) IN
             viol' = viol \cup { [p |-> n, id |-> o.id] : n \in { x \in DOMAIN pr : ~pr[x] } }
        /\ l' = l + 1
Spec == Init /\ [][Next]_vars
Report == (l = NObs + 1) => PrintT(<<"MONITOR-REPORT", ToJson([events |-> NObs, violations |-> viol])>>)
Count(P(_)) == Cardinality({ i \in 1..NObs : P(Obs[i]) })
Stats == (l = NObs + 1) => PrintT(<<"MONITOR-STATS", ToJson([
    observations |-> NObs, multi_read |-> Count(LAMBDA o : Len(o.reads) > 1), gap_skipped |-> Count(LAMBDA o : Len(o.reads) > 1 /\ Len(o.sections) < 7),
    no_section |-> Count(LAMBDA o : o.mode = "nosection"), reordered |-> Count(LAMBDA o : o.mode = "reorder") ])>>)
AllConsumed == TLCGet("stats").diameter = NObs + 1
=============================================================================
