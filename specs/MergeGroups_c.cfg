SPECIFICATION Spec
CONSTANTS
  MRGRows = 4
  MRGBytes = 3
  MaxFiles = 4
  MaxFileSize = 100
  NFiles = 4
  RowChoices = {1,2}
INVARIANT C12_PlanRespectsLimits
CHECK_DEADLOCK FALSE
