SPECIFICATION Spec
CONSTANTS
  Discipline = "fs"
  MaxFaults = 1
  WithQuery = TRUE
  AllowFSWindow = FALSE
INVARIANTS AllOrNothing ReturnTruthful SourcesOnlyGoAfterCommit SingleFlight MemAlwaysConsistent QueryNothingInvented
CHECK_DEADLOCK FALSE
