SPECIFICATION Spec
CONSTANTS
  Batches = {1, 2, 3}
  Kind <- KindC
  Chan <- ChanC
  Prev <- PrevC
  IBS = 2
  MBR = 2
  WithStart = TRUE
  StartFirst = FALSE
  StopMode = "nodeadline"
  MaxFaults = 2
  MaxWedges = 0
  FixStopCancels = TRUE
  FixStopUnblocks = TRUE
  FixStopExpiry = TRUE
  FixStopDrains = TRUE
VIEW view
INVARIANTS TypeOK AtMostOnce StopNilDrained AckNilDurable AckErrAbsent NeverTwiceVisible
  RejectLeavesNoTrace NoLateStoreWork WaitersToldAtEnd Backpressure LimitFlushImmediate
PROPERTIES AckOrder RefuseAfterStop
CHECK_DEADLOCK FALSE
