SPECIFICATION LiveSpec
CONSTANTS
  Batches = {1, 2, 3}
  Kind <- KindA
  Chan <- ChanA
  Prev <- PrevA
  IBS = 1
  MBR = 2
  WithStart = TRUE
  StartFirst = TRUE
  StopMode = "nodeadline"
  MaxFaults = 1
  MaxWedges = 1
  FixStopCancels = TRUE
  FixStopUnblocks = TRUE
  FixStopExpiry = TRUE
  FixStopDrains = TRUE
VIEW view
PROPERTIES EventuallyAnswered
CHECK_DEADLOCK FALSE
