SPECIFICATION Spec
CONSTANTS
  MRGRows = 2
  MRGBytes = 4
  MaxFiles = 2
  MaxFileSize = 6
  NFiles = 3
  RowChoices = {1,2}
INVARIANT C12_PlanRespectsLimits
CHECK_DEADLOCK FALSE
