"""Silence family (C27): cmd/silent runs operation histories that reach every
diagnostic site of the engine - each once with a capturing Logger (which sites
the history reaches) and once with no Logger under captured stdout/stderr;
SilentMonitor.tla (TLC) judges.  Every other family's harness also runs with
captured descriptors and its monitor carries the same C27_Silent predicate; their
verdicts are folded in when their results are already cached for this tree."""
import json
import os
import re
import shutil
import time

from vcommon import Infra, drive, build_harness, copy_specs, monitor_report, run, scratch_dir, tlc, tlc_errors, tlc_stats

PROPS = ["C27"]


def compute(tier, seed):
    t0 = time.time()
    work = scratch_dir("silent")
    try:
        copy_specs(work)
        sbin = build_harness("silent")

        def once(tag):
            outdir = os.path.join(work, tag)
            txt, hsecs = drive([sbin, "-out", outdir], work, "silent", timeout=1800)
            shutil.copyfile(os.path.join(outdir, "obs.ndjson"), os.path.join(work, "obs.ndjson"))
            rc, out, secs = tlc(work, "SilentMonitor.tla", "SilentMonitor.cfg", workers=1, timeout=900)
            errs = tlc_errors(out)
            if errs:
                raise Infra("silent monitor failed: %s\n%s" % (errs[:3], out[-2000:]))
            rep = monitor_report(out)
            m = re.search(r'<<"MONITOR-STATS", (".*")>>', out)
            d, g = tlc_stats(out)
            obs = {}
            for line in open(os.path.join(outdir, "obs.ndjson")):
                o = json.loads(line)
                obs[o["id"]] = o
            return rep, (json.loads(json.loads(m.group(1))) if m else {}), obs, d, g

        rep, stats, obs, d, g = once("run")
        viol = []
        if rep["violations"]:
            rep2, _, obs2, _, _ = once("rerun")
            again = set((obs2[v["id"]]["scenario"], v["p"]) for v in rep2["violations"])
            for v in rep["violations"]:
                o = obs[v["id"]]
                viol.append({"pred": v["p"], "prop": "C27", "title": o["scenario"], "sig": {"pred": v["p"], "scenario": o["scenario"]},
                             "reproduced": (o["scenario"], v["p"]) in again, "observation": o})
        samples = [{"scenario": obs[i]["scenario"], "diagnostics_with_logger": obs[i]["messages"], "bytes_without_logger": obs[i]["stdio"]}
                   for i in sorted(obs)[::max(1, len(obs) // 5)]][:5]
        return {"impl": {"obs": len(obs), "stats": stats, "monitor_states": d, "monitor_transitions": g},
                "violations": viol, "samples": samples, "wall_s": round(time.time() - t0, 1)}
    finally:
        shutil.rmtree(work, ignore_errors=True)


def evidence(pid, tier, res):
    impl = res["impl"]
    st = impl["stats"]
    cov = {"evaluations": impl["obs"], "distinct_nontrivial": st.get("scenarios_with_diagnostics", 0),
           "rule": "one operation history per scenario (normal ingest/flush/query/merge/stop for every compression, every automatic flush trigger, a "
                   "store failure at each write-path / query / merge call kind, unmarshalable rows, Stop deadlines with a wedged flush worker, "
                   "never-started engines, corrupted files, invalid regex, filters missing at file and block level, the filesystem store with "
                   "foreign files); non-trivial = the history provokes at least one diagnostic when a Logger is configured; scenarios are "
                   "distinct by name",
           "samples": res["samples"], "logging_sites_reached": st.get("logging_sites_reached"), "monitor_stats": st,
           "summary": "%d histories reaching %s diagnostic sites ran silently" % (impl["obs"], st.get("logging_sites_reached"))}
    assumptions = ["file descriptors 1 and 2 are redirected into a pipe for the whole process; anything any goroutine writes there is counted",
                   "the diagnostics a history provokes are observed with a capturing slog handler in a separate run of the same scenario"]
    return "exploration", cov, assumptions
