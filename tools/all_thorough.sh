#!/bin/sh
# usage: tools/all_thorough.sh [<prop>...]   runs the thorough tier of every (or the given) check once; one line per check.
# Under `vp run --with-repo` the checks run against the repository snapshot ($VP_RUN_REPO).
cd "$(dirname "$0")/.."
bin/setup >/dev/null 2>&1 || { echo "setup failed"; exit 2; }
if [ $# -gt 0 ]; then props="$*"; else
props=$(python3 -c "
import json
print(' '.join(c['property_id'] for c in json.load(open('MANIFEST.json'))['checks']))"); fi
for p in $props; do
  s=$(date +%s)
  r=$(bin/check $p --tier thorough 2>&1 | grep -E "^(OK|VIOLATION|INFRA|KNOWN|DRIFT)" | head -4 | cut -c1-200 | tr '\n' '|')
  echo "$p $(( $(date +%s) - s ))s :: $r"
done
echo ALLDONE
