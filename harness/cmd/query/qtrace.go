package main

// Read-path event recording for structural trace validation against
// QueryPipeline.tla (QueryPipelineTrace.tla): every verifQ point of the engine
// is logged with a process-wide stamp taken inside the hook, the goroutine that
// took the step, the query it belongs to and its arguments; the driver adds its
// own caller-side events (cancel) and the binding of a cursor to a query number.

import (
	"encoding/json"
	"fmt"
	"os"
	"sync"
	"sync/atomic"

	bs "github.com/danthegoodman1/bloomsearch"
	"verifharness/internal/h"
)

// one event: [stamp, goroutine, name, cursor, file, a, b]
type qev [7]any

type qrecorder struct {
	mu      sync.Mutex
	on      atomic.Bool
	stamp   atomic.Int64
	evs     []qev
	cursors map[any]int
	files   map[string]int
	void    bool // the driver did something the trace does not describe (a hung call cancelled behind the recorder's back)
	enc     *json.Encoder
	f       *os.File
	onHook  atomic.Pointer[func(string)] // scenario callback run inside every engine hook, on the goroutine that took the step
}

func (q *qrecorder) setOnHook(f func(string)) {
	if f == nil {
		q.onHook.Store(nil)
		return
	}
	q.onHook.Store(&f)
}

var qrec = &qrecorder{}

func (q *qrecorder) open(path string) {
	f, err := os.Create(path)
	h.Must(err, "create qtrace")
	q.f, q.enc = f, json.NewEncoder(f)
	bs.VerifQ = q.hook
}

func (q *qrecorder) begin() {
	q.mu.Lock()
	q.evs, q.cursors, q.files, q.void = nil, map[any]int{}, map[string]int{}, false
	q.stamp.Store(0)
	q.mu.Unlock()
	q.on.Store(true)
}

func (q *qrecorder) hook(name string, cur any, pointer []byte, a, b int) {
	if !q.on.Load() {
		return
	}
	gid := h.Gid()
	q.mu.Lock()
	g := q.stamp.Add(1)
	ci := 0
	if cur != nil {
		ci = q.cursors[cur]
		if ci == 0 {
			ci = len(q.cursors) + 1
			q.cursors[cur] = ci
		}
	}
	fi := 0
	if pointer != nil {
		fi = q.files[string(pointer)]
		if fi == 0 {
			fi = len(q.files) + 1
			q.files[string(pointer)] = fi
		}
	}
	q.evs = append(q.evs, qev{g, gid, name, ci, fi, a, b})
	q.mu.Unlock()
	if f := q.onHook.Load(); f != nil && name != "cancel" && name != "bind" {
		(*f)(name)
	}
}

// note records a caller-side event of the driver for the query behind cur.
func (q *qrecorder) note(name string, cur any, a int) {
	q.hook(name, cur, nil, a, 0)
}

func (q *qrecorder) spoil() {
	q.mu.Lock()
	q.void = true
	q.mu.Unlock()
}

// end stops recording and writes the scenario's events.
func (q *qrecorder) end(sc scenario) {
	if !q.on.Swap(false) {
		return
	}
	q.mu.Lock()
	defer q.mu.Unlock()
	if q.enc == nil {
		return
	}
	evs := q.evs
	if evs == nil {
		evs = []qev{}
	}
	h.Must(q.enc.Encode(map[string]any{"id": sc.ID, "n": sc.N, "bloom": sc.Bloom, "kind": sc.Kind, "void": q.void,
		"name": fmt.Sprintf("%s/%s/%s", sc.Kind, sc.Consumer, sc.Pause), "events": evs}), "encode qtrace")
}

func (q *qrecorder) close() {
	if q.f != nil {
		q.f.Close()
	}
}
