----------------------------- MODULE ChunkCursor -----------------------------
(***************************************************************************)
(* Design theorems for the block filter cursor (ChunkCursorOps.tla), checked *)
(* by TLC for every layout of up to 4 candidate blocks with offsets 0..7,    *)
(* sizes 0..3 (any order, overlaps and gaps included) and caps 1..4:         *)
(*   EveryCandidateDecodedFromItsOwnBytes  the chunk read for a block covers *)
(*                                         that block's whole section        *)
(*   ReadsInsideSections   every read lies within the span of the sections   *)
(*   ReadLenBounded        a read is at most max(Cap, the starting section)  *)
(*   ReadsStartAtSections  a read starts at a candidate's section            *)
(*   ForwardLayoutOneReadPerCapWindow  with ascending, non-overlapping       *)
(*                         sections a new read happens only when the next    *)
(*                         section does not fit the cap from the chunk start  *)
(***************************************************************************)
EXTENDS ChunkCursorOps

CONSTANTS MaxOff, MaxSize, MaxCap, NBlocks
VARIABLES blocks, cap
vars == << blocks, cap >>
Blk == [off : 0..MaxOff, size : 0..MaxSize]
Init == /\ cap \in 1..MaxCap
        /\ \E n \in 1..NBlocks : blocks \in [1..n -> Blk]
Next == UNCHANGED vars
Spec == Init /\ [][Next]_vars

R == Run(blocks, cap)
Cands == { i \in 1..Len(blocks) : blocks[i].size > 0 }
SpanLo == IF Cands = {} THEN 0 ELSE CHOOSE x \in { blocks[i].off : i \in Cands } : \A i \in Cands : x <= blocks[i].off
SpanHi == IF Cands = {} THEN 0 ELSE CHOOSE x \in { blocks[i].off + blocks[i].size : i \in Cands } : \A i \in Cands : x >= blocks[i].off + blocks[i].size

EveryCandidateDecodedFromItsOwnBytes == R.ok
ReadsInsideSections == \A k \in 1..Len(R.reads) : R.reads[k].start >= SpanLo /\ R.reads[k].start + R.reads[k].len <= SpanHi
\* the longest section that starts where the read starts is its "own" section
ReadLenBounded == \A k \in 1..Len(R.reads) :
    \E i \in Cands : blocks[i].off = R.reads[k].start /\ R.reads[k].len <= Max2(cap, blocks[i].size)
ReadsStartAtSections == \A k \in 1..Len(R.reads) : \E i \in Cands : blocks[i].off = R.reads[k].start
AtMostOneReadPerCandidate == Len(R.reads) <= Cardinality(Cands)
Ascending == \A i \in 1..(Len(blocks) - 1) : blocks[i].size > 0 /\ blocks[i + 1].size > 0 /\ blocks[i].off + blocks[i].size <= blocks[i + 1].off
\* ascending layout: consecutive reads are forced by the cap - the section that starts a new read did not fit the previous chunk's cap window
ForwardLayoutOneReadPerCapWindow ==
  Ascending => \A k \in 2..Len(R.reads) :
     \E i \in Cands : blocks[i].off = R.reads[k].start /\ blocks[i].off + blocks[i].size - R.reads[k - 1].start > cap
=============================================================================
