--------------------------- MODULE MinMaxMonitor ---------------------------
(***************************************************************************)
(* Judges what the real conversion / evaluation functions and the real     *)
(* engine did with values drawn from MinMax.tla's symbolic domain.         *)
(***************************************************************************)
EXTENDS MinMax

CONSTANT ObsFile, ExportFile
Obs == ndJsonDeserialize(ObsFile)
\* the conditions in the order the harness used (the order of the exported list)
ConditionList == JsonDeserialize(ExportFile).conds
N == Len(Obs)
VARIABLES l, viol, drift
mvars == << l, viol, drift >>

NC == Len(ConditionList)
ValSet(o) == { o.vals[i] : i \in 1..Len(o.vals) }

\* every numeric, non-NaN value of every Go numeric kind (named types included) is indexed
C04_EveryNumericKindIndexed(o) == \A i \in 1..Len(o.ok) : o.ok[i]
\* the block range (as the real code computed it) answers TRUE whenever a row satisfies
C04_NeverPrunes(o) ==
  (\A i \in 1..Len(o.ok) : o.ok[i]) =>
     \A c \in 1..NC : (\E v \in ValSet(o) : Sat(v, ConditionList[c])) => (o.eval[c] /\ o.evalm[c])
\* end to end: a stored row whose value satisfies the prefilter comes back
C04_EndToEnd(o) ==
  o.e2e => \A k \in 1..Len(o.condix) : \A i \in 1..Len(o.vals) :
      (o.stored[i] /\ Sat(o.vals[i], ConditionList[o.condix[k]])) => o.ret[k][i]
\* conformance of the implementation with the model's Conv / Eval (reported as drift, not as a violation)
D_ConvAsModel(o) == \A i \in 1..Len(o.vals) : o.ok[i] => (o.clo[i] = Conv(o.vals[i]).lo /\ o.chi[i] = Conv(o.vals[i]).hi)
D_EvalAsModel(o) ==
  (\A i \in 1..Len(o.ok) : o.ok[i]) =>
      \A c \in 1..NC : o.eval[c] = Eval([lo |-> o.rlo, hi |-> o.rhi], ConditionList[c])

Props(o) == [ C04_EveryNumericKindIndexed |-> C04_EveryNumericKindIndexed(o), C04_NeverPrunes |-> C04_NeverPrunes(o),
              C04_EndToEnd |-> C04_EndToEnd(o) ]
Drifts(o) == [ D_ConvAsModel |-> D_ConvAsModel(o), D_EvalAsModel |-> D_EvalAsModel(o) ]

MInit == l = 1 /\ viol = {} /\ drift = {} /\ vals = {1} /\ cond = [op |-> "none", x |-> MINP, xs |-> <<>>, lo |-> MINP, hi |-> MINP]
MNext == /\ l <= N
         /\ LET o == Obs[l] pr == Props(o) dr == Drifts(o) IN
              /\ viol' = viol \cup { [p |-> n, id |-> o.id] : n \in { x \in DOMAIN pr : ~pr[x] } }
              /\ drift' = drift \cup { [p |-> n, id |-> o.id] : n \in { x \in DOMAIN dr : ~dr[x] } }
         /\ l' = l + 1 /\ UNCHANGED vars
MSpec == MInit /\ [][MNext]_<<mvars, vars>>
Report == (l = N + 1) => PrintT(<<"MONITOR-REPORT", ToJson([events |-> N, violations |-> viol, drift |-> drift])>>)
AllConsumed == TLCGet("stats").diameter = N + 1
=============================================================================
