// Command search replays abstract search cases on the real engine and writes
// one observation per case (NDJSON) for SearchMonitor.tla.
package main

import (
	"bufio"
	"encoding/json"
	"flag"
	"fmt"
	"os"
	"path/filepath"
	"time"

	"verifharness/internal/h"
	"verifharness/internal/sem"
)

func main() {
	out := flag.String("out", "", "output directory")
	catalog := flag.String("catalog", "", "catalog.json exported by TLC")
	seed := flag.Int64("seed", 1, "seed")
	n := flag.Int("n", 500, "number of cases")
	tier := flag.String("tier", "quick", "quick|thorough")
	replay := flag.String("replay", "", "cases.ndjson to re-run verbatim")
	flag.Parse()
	if *out == "" || *catalog == "" {
		fmt.Fprintln(os.Stderr, "need -out and -catalog")
		os.Exit(2)
	}
	os.MkdirAll(*out, 0o755)
	guard := h.CaptureStdio()
	b, err := os.ReadFile(*catalog)
	h.Must(err, "read catalog")
	var cat sem.Catalog
	h.Must(json.Unmarshal(b, &cat), "parse catalog")
	scratch := filepath.Join(*out, "scratch")
	os.MkdirAll(scratch, 0o755)
	defer os.RemoveAll(scratch)
	start := time.Now()

	var cases []*sem.Case
	if *replay != "" {
		f, err := os.Open(*replay)
		h.Must(err, "open replay")
		sc := bufio.NewScanner(f)
		sc.Buffer(make([]byte, 1<<20), 1<<26)
		for sc.Scan() {
			var c sem.Case
			h.Must(json.Unmarshal(sc.Bytes(), &c), "parse case")
			cases = append(cases, &c)
		}
		f.Close()
	} else {
		cases = sem.Generate(&cat, *seed, *n, *tier == "thorough")
	}
	ex := sem.NewExecutor(&cat, *seed, scratch)
	of, err := os.Create(filepath.Join(*out, "obs.ndjson"))
	h.Must(err, "create obs")
	w := bufio.NewWriterSize(of, 1<<20)
	for _, c := range cases {
		before := guard.Len()
		o := ex.Run(c)
		o.Stdio = guard.Len() - before
		line, err := json.Marshal(o)
		h.Must(err, "marshal obs")
		w.Write(line)
		w.WriteByte('\n')
	}
	h.Must(w.Flush(), "flush obs")
	of.Close()
	guard.Restore()
	h.WriteJSON(filepath.Join(*out, "summary.json"), map[string]any{"cases": len(cases), "stdio_bytes": guard.Len(), "wall_s": time.Since(start).Seconds()})
	fmt.Printf("search: %d cases, %d stdio bytes, %.1fs\n", len(cases), guard.Len(), time.Since(start).Seconds())
}
