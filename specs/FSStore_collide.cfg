SPECIFICATION Spec
CONSTANTS
  Names = {"n1","n2"}
  Writers = {"w1","w2"}
  MergeOn = FALSE
  MaxFaults = 2
  CrashOn = TRUE
  PowerLossOn = TRUE
  DirSyncOnRemove = TRUE
  Groups = 1
  GroupSize = 2
  TombSyncs = TRUE
  MaxIno = 7
INVARIANTS AckedSurvive NoDuplicatesOutsideWindow NoDuplicatesAfterMergeReturned AckedNeverTorn ScanExact NeverExposed AbortLeavesNothing
PROPERTIES NoClobber
CHECK_DEADLOCK FALSE
