---- MODULE MergeCommit_TTrace_1790037120 ----
EXTENDS MergeCommit, Sequences, TLCExt, Toolbox, Naturals, TLC

_expression ==
    LET MergeCommit_TEExpression == INSTANCE MergeCommit_TEExpression
    IN MergeCommit_TEExpression!expression
----

_trace ==
    LET MergeCommit_TETrace == INSTANCE MergeCommit_TETrace
    IN MergeCommit_TETrace!trace
----

_inv ==
    ~(
        TLCGet("level") = Len(_TETrace)
        /\
        qerr = (FALSE)
        /\
        ret = ("none")
        /\
        mpc = ("group")
        /\
        committed = (FALSE)
        /\
        data = (<<"pub", "pub", "pub", "pub", "none", "none">>)
        /\
        tombedBeforeCommit = (FALSE)
        /\
        qpc = ("idle")
        /\
        m2 = ("ran")
        /\
        g = (1)
        /\
        faults = (1)
        /\
        outs = ({})
        /\
        qsnap = ({})
        /\
        meta = ({1, 2, 3, 4})
        /\
        qres = (<<0, 0, 0, 0>>)
        /\
        step = ("create")
        /\
        tombFailed = (FALSE)
    )
----

_init ==
    /\ qres = _TETrace[1].qres
    /\ tombedBeforeCommit = _TETrace[1].tombedBeforeCommit
    /\ qsnap = _TETrace[1].qsnap
    /\ outs = _TETrace[1].outs
    /\ g = _TETrace[1].g
    /\ data = _TETrace[1].data
    /\ faults = _TETrace[1].faults
    /\ meta = _TETrace[1].meta
    /\ qerr = _TETrace[1].qerr
    /\ ret = _TETrace[1].ret
    /\ step = _TETrace[1].step
    /\ tombFailed = _TETrace[1].tombFailed
    /\ committed = _TETrace[1].committed
    /\ mpc = _TETrace[1].mpc
    /\ qpc = _TETrace[1].qpc
    /\ m2 = _TETrace[1].m2
----

_next ==
    /\ \E i,j \in DOMAIN _TETrace:
        /\ \/ /\ j = i + 1
              /\ i = TLCGet("level")
        /\ qres  = _TETrace[i].qres
        /\ qres' = _TETrace[j].qres
        /\ tombedBeforeCommit  = _TETrace[i].tombedBeforeCommit
        /\ tombedBeforeCommit' = _TETrace[j].tombedBeforeCommit
        /\ qsnap  = _TETrace[i].qsnap
        /\ qsnap' = _TETrace[j].qsnap
        /\ outs  = _TETrace[i].outs
        /\ outs' = _TETrace[j].outs
        /\ g  = _TETrace[i].g
        /\ g' = _TETrace[j].g
        /\ data  = _TETrace[i].data
        /\ data' = _TETrace[j].data
        /\ faults  = _TETrace[i].faults
        /\ faults' = _TETrace[j].faults
        /\ meta  = _TETrace[i].meta
        /\ meta' = _TETrace[j].meta
        /\ qerr  = _TETrace[i].qerr
        /\ qerr' = _TETrace[j].qerr
        /\ ret  = _TETrace[i].ret
        /\ ret' = _TETrace[j].ret
        /\ step  = _TETrace[i].step
        /\ step' = _TETrace[j].step
        /\ tombFailed  = _TETrace[i].tombFailed
        /\ tombFailed' = _TETrace[j].tombFailed
        /\ committed  = _TETrace[i].committed
        /\ committed' = _TETrace[j].committed
        /\ mpc  = _TETrace[i].mpc
        /\ mpc' = _TETrace[j].mpc
        /\ qpc  = _TETrace[i].qpc
        /\ qpc' = _TETrace[j].qpc
        /\ m2  = _TETrace[i].m2
        /\ m2' = _TETrace[j].m2

\* Uncomment the ASSUME below to write the states of the error trace
\* to the given file in Json format. Note that you can pass any tuple
\* to `JsonSerialize`. For example, a sub-sequence of _TETrace.
    \* ASSUME
    \*     LET J == INSTANCE Json
    \*         IN J!JsonSerialize("MergeCommit_TTrace_1790037120.json", _TETrace)

=============================================================================

 Note that you can extract this module `MergeCommit_TEExpression`
  to a dedicated file to reuse `expression` (the module in the 
  dedicated `MergeCommit_TEExpression.tla` file takes precedence 
  over the module `MergeCommit_TEExpression` below).

---- MODULE MergeCommit_TEExpression ----
EXTENDS MergeCommit, Sequences, TLCExt, Toolbox, Naturals, TLC

expression == 
    [
        \* To hide variables of the `MergeCommit` spec from the error trace,
        \* remove the variables below.  The trace will be written in the order
        \* of the fields of this record.
        qres |-> qres
        ,tombedBeforeCommit |-> tombedBeforeCommit
        ,qsnap |-> qsnap
        ,outs |-> outs
        ,g |-> g
        ,data |-> data
        ,faults |-> faults
        ,meta |-> meta
        ,qerr |-> qerr
        ,ret |-> ret
        ,step |-> step
        ,tombFailed |-> tombFailed
        ,committed |-> committed
        ,mpc |-> mpc
        ,qpc |-> qpc
        ,m2 |-> m2
        
        \* Put additional constant-, state-, and action-level expressions here:
        \* ,_stateNumber |-> _TEPosition
        \* ,_qresUnchanged |-> qres = qres'
        
        \* Format the `qres` variable as Json value.
        \* ,_qresJson |->
        \*     LET J == INSTANCE Json
        \*     IN J!ToJson(qres)
        
        \* Lastly, you may build expressions over arbitrary sets of states by
        \* leveraging the _TETrace operator.  For example, this is how to
        \* count the number of times a spec variable changed up to the current
        \* state in the trace.
        \* ,_qresModCount |->
        \*     LET F[s \in DOMAIN _TETrace] ==
        \*         IF s = 1 THEN 0
        \*         ELSE IF _TETrace[s].qres # _TETrace[s-1].qres
        \*             THEN 1 + F[s-1] ELSE F[s-1]
        \*     IN F[_TEPosition - 1]
    ]

=============================================================================



Parsing and semantic processing can take forever if the trace below is long.
 In this case, it is advised to uncomment the module below to deserialize the
 trace from a generated binary file.

\*
\*---- MODULE MergeCommit_TETrace ----
\*EXTENDS MergeCommit, IOUtils, TLC
\*
\*trace == IODeserialize("MergeCommit_TTrace_1790037120.bin", TRUE)
\*
\*=============================================================================
\*

---- MODULE MergeCommit_TETrace ----
EXTENDS MergeCommit, TLC

trace == 
    <<
    ([qerr |-> FALSE,ret |-> "none",mpc |-> "idle",committed |-> FALSE,data |-> <<"pub", "pub", "pub", "pub", "none", "none">>,tombedBeforeCommit |-> FALSE,qpc |-> "idle",m2 |-> "idle",g |-> 1,faults |-> 1,outs |-> {},qsnap |-> {},meta |-> {1, 2, 3, 4},qres |-> <<0, 0, 0, 0>>,step |-> "create",tombFailed |-> FALSE]),
    ([qerr |-> FALSE,ret |-> "none",mpc |-> "idle",committed |-> FALSE,data |-> <<"pub", "pub", "pub", "pub", "none", "none">>,tombedBeforeCommit |-> FALSE,qpc |-> "idle",m2 |-> "ran",g |-> 1,faults |-> 1,outs |-> {},qsnap |-> {},meta |-> {1, 2, 3, 4},qres |-> <<0, 0, 0, 0>>,step |-> "create",tombFailed |-> FALSE]),
    ([qerr |-> FALSE,ret |-> "none",mpc |-> "group",committed |-> FALSE,data |-> <<"pub", "pub", "pub", "pub", "none", "none">>,tombedBeforeCommit |-> FALSE,qpc |-> "idle",m2 |-> "ran",g |-> 1,faults |-> 1,outs |-> {},qsnap |-> {},meta |-> {1, 2, 3, 4},qres |-> <<0, 0, 0, 0>>,step |-> "create",tombFailed |-> FALSE])
    >>
----


=============================================================================

---- CONFIG MergeCommit_TTrace_1790037120 ----
CONSTANTS
    Discipline = "fs"
    MaxFaults = 1
    WithQuery = TRUE
    AllowFSWindow = FALSE

INVARIANT
    _inv

CHECK_DEADLOCK
    \* CHECK_DEADLOCK off because of PROPERTY or INVARIANT above.
    FALSE

INIT
    _init

NEXT
    _next

CONSTANT
    _TETrace <- _trace

ALIAS
    _expression
=============================================================================
\* Generated on Tue Sep 22 00:32:01 UTC 2026