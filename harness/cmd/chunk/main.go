// Command chunk exercises the block filter cursor of the real read path on a
// file whose block filter region spans several 4 MiB chunks: one engine-
// written file of 7 blocks (partitions p1..p7) with MiB-sized filter sections
// is queried with every non-empty subset of the partitions as prefilter (so
// the candidate blocks are sparse and the gaps between their sections vary),
// with some blocks' sections declared absent, and with the MetaStore yielding
// the blocks in another order. Every region read the engine issues is logged
// and written, next to the candidates' sections in evaluation order, for
// ChunkMonitor.tla, which recomputes the reads with ChunkCursorOps.tla.
package main

import (
	"context"
	"encoding/json"
	"flag"
	"fmt"
	"iter"
	"math/rand"
	"os"
	"sort"
	"strings"
	"sync"
	"time"

	bs "github.com/danthegoodman1/bloomsearch"
	"verifharness/internal/h"
)

type sec struct {
	Off  int `json:"off"`
	Size int `json:"size"`
}

type obs struct {
	ID       int      `json:"id"`
	Mode     string   `json:"mode"` // subset | nosection | reorder
	Cands    []int    `json:"cands"`
	Sections []sec    `json:"sections"` // candidates' filter sections in evaluation order (ascending row data offset)
	Cap      int      `json:"cap"`
	Region   sec      `json:"region"`
	Reads    []sec    `json:"reads"`     // reads at or beyond the region start, in order
	RowReads int      `json:"row_reads"` // reads below the region
	Outside  int      `json:"outside"`   // region reads not inside the region
	Rows     []string `json:"rows"`
	Expect   []string `json:"expect"`
	QErr     string   `json:"qerr"`
	Stdio    int      `json:"stdio"`
}

type ctl struct {
	mu    sync.Mutex
	reads []sec
}

func (c *ctl) Before(op *h.StoreOp) error { return nil }
func (c *ctl) After(op *h.StoreOp, err error) {
	if op.Kind == "read" && op.N > 0 {
		c.mu.Lock()
		c.reads = append(c.reads, sec{Off: int(op.Off), Size: op.N})
		c.mu.Unlock()
	}
}

// shapeMeta rewrites the yielded metadata: sections declared absent, blocks reordered
type shapeMeta struct {
	bs.MetaStore
	absent  map[int]bool // by row data offset
	reverse bool
}

func (s shapeMeta) GetMaybeFilesForQuery(ctx context.Context, p *bs.QueryPrefilter) iter.Seq2[bs.MaybeFile, error] {
	return func(yield func(bs.MaybeFile, error) bool) {
		for mf, err := range s.MetaStore.GetMaybeFilesForQuery(ctx, p) {
			if err == nil {
				blocks := append([]bs.DataBlockMetadata(nil), mf.Metadata.DataBlocks...)
				for i := range blocks {
					if s.absent[blocks[i].RowDataOffset] {
						blocks[i].BloomFilterSize = 0
					}
				}
				if s.reverse {
					for i, j := 0, len(blocks)-1; i < j; i, j = i+1, j-1 {
						blocks[i], blocks[j] = blocks[j], blocks[i]
					}
				}
				mf.Metadata.DataBlocks = blocks
			}
			if !yield(mf, err) {
				return
			}
		}
	}
}

const chunkCap = 4 << 20 // blockFilterChunkTarget

func main() {
	out := flag.String("out", "", "output directory")
	seed := flag.Int64("seed", 1, "seed")
	tier := flag.String("tier", "quick", "quick|thorough")
	flag.Parse()
	if *out == "" {
		fmt.Fprintln(os.Stderr, "usage: chunk -out DIR")
		os.Exit(2)
	}
	h.Must(os.MkdirAll(*out, 0o755), "mkdir")
	guard := h.CaptureStdio()
	rng := rand.New(rand.NewSource(*seed))
	const nBlocks = 7
	// tokens per block differ, so section sizes differ (about 0.6 .. 1.9 MiB)
	tokens := []int{60000, 150000, 90000, 170000, 70000, 120000, 100000}
	mem := h.NewMemData()
	meta := bs.NewMemoryMetaStore()
	cfg := bs.DefaultBloomSearchEngineConfig()
	cfg.BloomFalsePositiveRate = 1e-9
	cfg.MaxBufferedBytes, cfg.MaxRowGroupBytes = 1<<30, 1<<30
	cfg.MaxBufferedTime = time.Hour
	cfg.RowDataCompression = bs.CompressionNone
	cfg.PartitionFunc = func(row map[string]any) string { s, _ := row["p"].(string); return s }
	eng, err := bs.NewBloomSearchEngine(cfg, meta, mem)
	h.Must(err, "engine")
	eng.Start()
	var rows []map[string]any
	idsOf := map[int][]string{}
	for b := 1; b <= nBlocks; b++ {
		for r := 1; r <= 2; r++ {
			id := fmt.Sprintf("b%dr%d", b, r)
			row := map[string]any{"id": id, "p": fmt.Sprintf("p%d", b), "m": "yes"}
			if r == 1 {
				var sb strings.Builder
				for t := 0; t < tokens[b-1]; t++ {
					fmt.Fprintf(&sb, "b%dt%d ", b, t)
				}
				row["big"] = sb.String()
			}
			idsOf[b] = append(idsOf[b], id)
			rows = append(rows, row)
		}
	}
	done := make(chan error, 1)
	h.Must(eng.IngestRows(context.Background(), rows, done), "ingest")
	h.Must(eng.Flush(context.Background()), "flush")
	h.Must(<-done, "ack")
	sctx, cancel := context.WithTimeout(context.Background(), 30*time.Second)
	eng.Stop(sctx)
	cancel()
	// the file's metadata
	var md bs.FileMetadata
	for mf, err := range meta.GetMaybeFilesForQuery(context.Background(), nil) {
		h.Must(err, "meta")
		md = mf.Metadata
	}
	blocks := append([]bs.DataBlockMetadata(nil), md.DataBlocks...)
	sort.Slice(blocks, func(i, j int) bool { return blocks[i].RowDataOffset < blocks[j].RowDataOffset })
	partOf := map[string]int{}
	for i, b := range blocks {
		partOf[b.PartitionID] = i
	}

	f, err := os.Create(*out + "/obs.ndjson")
	h.Must(err, "create")
	enc := json.NewEncoder(f)
	id := 0
	run := func(mode string, subset []int, absent map[int]bool, reverse bool) {
		id++
		c := &ctl{}
		qm := shapeMeta{MetaStore: meta, absent: map[int]bool{}, reverse: reverse}
		var parts []string
		o := obs{ID: id, Mode: mode, Cap: chunkCap, Region: sec{md.BlockFilterRegionOffset, md.BlockFilterRegionSize}, Cands: subset}
		var cand []bs.DataBlockMetadata
		for _, bi := range subset {
			parts = append(parts, fmt.Sprintf("p%d", bi))
		}
		for _, b := range blocks {
			in := false
			for _, p := range parts {
				if b.PartitionID == p {
					in = true
				}
			}
			if in {
				cand = append(cand, b)
			}
		}
		for i, b := range cand {
			s := sec{b.BloomFilterOffset, b.BloomFilterSize}
			if absent[i] {
				qm.absent[b.RowDataOffset] = true
				s.Size = 0
			}
			o.Sections = append(o.Sections, s)
			var bn int
			fmt.Sscanf(b.PartitionID, "p%d", &bn)
			o.Expect = append(o.Expect, idsOf[bn]...)
		}
		qcfg := cfg
		qcfg.MaxQueryConcurrency = 1 + rng.Intn(3)
		qe, err := bs.NewBloomSearchEngine(qcfg, qm, &h.InstrData{Inner: mem, C: c})
		h.Must(err, "query engine")
		std0 := guard.Len()
		ctx, cancel := context.WithTimeout(context.Background(), 60*time.Second)
		q := bs.NewQuery().Field("m").MatchPrefilter(bs.Partition(bs.PartitionIn(parts...))).Build()
		res, err := qe.Query(ctx, q)
		if err != nil {
			o.QErr = err.Error()
		} else {
			for res.Next() {
				s, _ := res.Row()["id"].(string)
				o.Rows = append(o.Rows, s)
			}
			if e := res.Err(); e != nil {
				o.QErr = e.Error()
			}
			res.Close()
		}
		cancel()
		o.Stdio = guard.Len() - std0
		c.mu.Lock()
		for _, r := range c.reads {
			if r.Off >= md.BlockFilterRegionOffset {
				o.Reads = append(o.Reads, r)
				if r.Off+r.Size > md.BlockFilterRegionOffset+md.BlockFilterRegionSize {
					o.Outside++
				}
			} else {
				o.RowReads++
			}
		}
		c.mu.Unlock()
		sort.Strings(o.Rows)
		sort.Strings(o.Expect)
		if o.Reads == nil {
			o.Reads = []sec{}
		}
		if o.Rows == nil {
			o.Rows = []string{}
		}
		if o.Expect == nil {
			o.Expect = []string{}
		}
		if o.Sections == nil {
			o.Sections = []sec{}
		}
		h.Must(enc.Encode(o), "encode")
	}
	// every non-empty subset of the blocks as candidate set (thorough) / a seeded half of them plus all small ones (quick)
	for mask := 1; mask < 1<<nBlocks; mask++ {
		var subset []int
		for b := 1; b <= nBlocks; b++ {
			if mask&(1<<(b-1)) != 0 {
				subset = append(subset, b)
			}
		}
		if *tier != "thorough" && len(subset) > 2 && rng.Intn(2) == 0 {
			continue
		}
		run("subset", subset, nil, false)
		if rng.Intn(4) == 0 && len(subset) >= 2 {
			ab := map[int]bool{rng.Intn(len(subset)): true}
			if rng.Intn(2) == 0 {
				ab[rng.Intn(len(subset))] = true
			}
			run("nosection", subset, ab, false)
		}
		if rng.Intn(6) == 0 {
			run("reorder", subset, nil, true)
		}
	}
	f.Close()
	guard.Restore()
	fmt.Printf("chunk: %d observations\n", id)
}
