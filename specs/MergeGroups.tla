----------------------------- MODULE MergeGroups -----------------------------
(***************************************************************************)
(* The merge planner (MergeGroupsOps.tla) evaluated by TLC on every         *)
(* population of a bounded domain, with the layout properties of C12 as     *)
(* invariants of its result.                                               *)
(***************************************************************************)
EXTENDS MergeGroupsOps

CONSTANTS MRGRows,      \* MaxRowGroupRows
          MRGBytes,     \* MaxRowGroupBytes
          MaxFiles,     \* MaxFilesToMergePerOperation
          MaxFileSize   \* MaxFileSize
Lim == [mr |-> MRGRows, mb |-> MRGBytes, mf |-> MaxFiles, ms |-> MaxFileSize]

\* bounded population for TLC
CONSTANTS NFiles, RowChoices
Attr == { << 1, {} >>, << 1, {"k"} >>, << 2, {} >> }
BlockDom == { [part |-> a[1], keys |-> a[2], rows |-> r, usize |-> r, dsize |-> r + 1] : a \in Attr, r \in RowChoices }
FileDom == { << b >> : b \in BlockDom } \cup { << b1, b2 >> : b1 \in BlockDom, b2 \in BlockDom }

VARIABLES files, ord
vars == << files, ord >>
Init == files \in [1..NFiles -> FileDom] /\ ord = << >>
Next == ord = << >> /\ files' = files /\ ord' \in SortedOrders(files)
Spec == Init /\ [][Next]_vars
C12_PlanRespectsLimits == ord # << >> => PlanOK(Lim, files, ord)
=============================================================================
