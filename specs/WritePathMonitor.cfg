SPECIFICATION Spec
CONSTANTS
  TraceFile = "traces.ndjson"
  LatencyAllowanceMs = 2000
INVARIANTS Report
POSTCONDITION AllConsumed
CHECK_DEADLOCK FALSE
