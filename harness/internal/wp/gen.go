package wp

import (
	"fmt"
	"math/rand"
	"strings"
)

func calls(client string, ids ...int) Op { return Op{Op: "calls", Client: client, Calls: ids} }

func rowsCall(id int, ch string, rows, parts int) Call {
	return Call{ID: id, Kind: "rows", Chan: ch, Rows: rows, Parts: parts}
}

// BasePrograms are the steered programs whose interleavings are explored by
// delaying one goroutine at a time (see Explore). Each one is a small
// history of the kind WritePath.tla's configurations A-D describe.
func BasePrograms() []*Program {
	var ps []*Program

	// A: two row batches, a Flush behind the first, Stop racing a late caller
	ps = append(ps, &Program{
		Name: "A-flush-stop",
		Cfg:  Cfg{IBS: 2, MBRows: 2},
		Calls: []Call{rowsCall(1, "buf", 1, 1), rowsCall(2, "unbuf", 1, 1), {ID: 3, Kind: "force", Chan: "buf"},
			rowsCall(4, "buf", 1, 1)},
		Phases: [][]Op{
			{{Op: "start"}},
			{calls("c1", 1, 3), calls("c2", 2)},
			{{Op: "stop", Mode: "nodeadline"}, calls("c3", 4)},
		},
	})
	// A2: Flush behind an in-flight flush (partition trigger), then more rows
	ps = append(ps, &Program{
		Name: "A2-flush-barrier",
		Cfg:  Cfg{IBS: 2, MBRows: 100, MRGRows: 2, Partitions: true},
		Calls: []Call{rowsCall(1, "buf", 2, 1), rowsCall(2, "buf", 1, 1), {ID: 3, Kind: "force", Chan: "buf"},
			rowsCall(4, "unbuf", 3, 3), {ID: 5, Kind: "force", Chan: "buf"}},
		Phases: [][]Op{
			{{Op: "start"}},
			{calls("c1", 1, 2, 3)},
			{calls("c1", 4, 5)},
			{{Op: "stop", Mode: "nodeadline"}},
		},
	})
	// A3: a Flush served as an ack-only request while a data flush is wedged, then
	// a second data flush wedged with another Flush behind it (history-dependent barriers)
	for _, kind := range []string{"create", "close", "update"} {
		ps = append(ps, &Program{
			Name: "A3-flush-history-" + kind,
			Cfg:  Cfg{IBS: 2, MBRows: 1},
			Calls: []Call{rowsCall(1, "buf", 1, 1), {ID: 2, Kind: "force", Chan: "buf"}, rowsCall(3, "unbuf", 1, 1),
				{ID: 4, Kind: "force", Chan: "buf"}, rowsCall(5, "buf", 1, 1), {ID: 6, Kind: "force", Chan: "buf"}},
			Faults: []Fault{{Kind: kind, Nth: 1, Mode: "wedge"}, {Kind: kind, Nth: 2, Mode: "wedge"}, {Kind: kind, Nth: 3, Mode: "wedge"}},
			Phases: [][]Op{
				{{Op: "start"}},
				{calls("c1", 1)},
				{calls("c2", 2)},
				{{Op: "unwedge", Mode: kind + "#1"}},
				{calls("c1", 3)},
				{calls("c2", 4)},
				{{Op: "unwedge", Mode: kind + "#2"}},
				{calls("c1", 5)},
				{calls("c2", 6)},
				{{Op: "unwedge", Mode: kind + "#3"}},
				{{Op: "stop", Mode: "nodeadline"}},
			},
		})
	}
	// A5: a Flush whose caller gives up (context cancelled) while its request is queued behind a wedged data flush, then -
	// once that flush has completed and the next one is wedged - another Flush from the same client: it must wait for the
	// batch accepted before it, whatever became of the abandoned request's acknowledgement
	for _, kind := range []string{"create", "close", "update"} {
		ps = append(ps, &Program{
			Name: "A5-abandoned-flush-" + kind,
			Cfg:  Cfg{IBS: 2, MBRows: 1},
			Calls: []Call{rowsCall(1, "buf", 1, 1), {ID: 2, Kind: "force", Chan: "buf"}, rowsCall(3, "buf", 1, 1),
				{ID: 4, Kind: "force", Chan: "buf"}, rowsCall(5, "buf", 1, 1), {ID: 6, Kind: "force", Chan: "buf"}},
			Faults: []Fault{{Kind: kind, Nth: 1, Mode: "wedge"}, {Kind: kind, Nth: 2, Mode: "wedge"}, {Kind: kind, Nth: 3, Mode: "wedge"}},
			Phases: [][]Op{
				{{Op: "start"}},
				{calls("c1", 1)},
				{calls("c2", 2)},
				{calls("c1", 3)},
				{{Op: "cancelcall", Calls: []int{2}}},
				{{Op: "unwedge", Mode: kind + "#1"}},
				{calls("c2", 4)},
				{{Op: "unwedge", Mode: kind + "#2"}},
				{calls("c1", 5)},
				{calls("c2", 6)},
				{{Op: "unwedge", Mode: kind + "#3"}},
				{{Op: "stop", Mode: "nodeadline"}},
			},
		})
	}
	// A6: the flush queue is full - one flush wedged in the store, one waiting in the queue - when a third request is due:
	// a batch that reaches the row trigger, or a Flush that finds rows buffered. Whoever is answered, the earlier ones come first.
	for _, kind := range []string{"create", "close", "update"} {
		ps = append(ps, &Program{
			Name:   "A6-queue-full-trigger-" + kind,
			Cfg:    Cfg{IBS: 4, MBRows: 1},
			Calls:  []Call{rowsCall(1, "buf", 1, 1), rowsCall(2, "buf", 1, 1), rowsCall(3, "buf", 1, 1), rowsCall(4, "unbuf", 1, 1)},
			Faults: []Fault{{Kind: kind, Nth: 1, Mode: "wedge"}},
			Phases: [][]Op{
				{{Op: "start"}},
				{calls("c1", 1)},
				{calls("c1", 2)},
				{calls("c1", 3)},
				{calls("c2", 4)},
				{{Op: "unwedge", Mode: kind + "#1"}},
				{{Op: "stop", Mode: "nodeadline"}},
			},
		})
		ps = append(ps, &Program{
			Name: "A6-queue-full-flush-" + kind,
			Cfg:  Cfg{IBS: 4, MBRows: 2},
			Calls: []Call{rowsCall(1, "buf", 1, 1), rowsCall(2, "buf", 1, 1), rowsCall(3, "buf", 1, 1), rowsCall(4, "buf", 1, 1),
				rowsCall(5, "buf", 1, 1), {ID: 6, Kind: "force", Chan: "buf"}},
			Faults: []Fault{{Kind: kind, Nth: 1, Mode: "wedge"}},
			Phases: [][]Op{
				{{Op: "start"}},
				{calls("c1", 1, 2)},
				{calls("c1", 3, 4)},
				{calls("c1", 5)},
				{calls("c2", 6)},
				{{Op: "unwedge", Mode: kind + "#1"}},
				{{Op: "stop", Mode: "nodeadline"}},
			},
		})
	}
	// E: done channels whose receiver shows up late (the caller "keeps receiving", just not yet)
	ps = append(ps, &Program{
		Name: "E-late-receivers",
		Cfg:  Cfg{IBS: 2, MBRows: 2},
		Calls: []Call{{ID: 1, Kind: "bad", Chan: "late", Rows: 2, BadAt: 0}, {ID: 2, Kind: "empty", Chan: "late"},
			rowsCall(3, "late", 1, 1), rowsCall(4, "buf", 1, 1)},
		Phases: [][]Op{
			{{Op: "start"}},
			{calls("c1", 1)},
			{{Op: "stop", Mode: "nodeadline"}, calls("c2", 2, 3), calls("c3", 4)},
			{{Op: "recvstart", Calls: []int{1}}},
			{{Op: "recvstart", Calls: []int{2, 3}}},
		},
	})
	ps = append(ps, &Program{
		Name:  "E2-late-receiver-empty",
		Cfg:   Cfg{IBS: 2, MBRows: 2},
		Calls: []Call{{ID: 1, Kind: "empty", Chan: "late"}, rowsCall(2, "late", 1, 1), {ID: 3, Kind: "force", Chan: "buf"}},
		Phases: [][]Op{
			{{Op: "start"}},
			{calls("c1", 1)},
			{{Op: "stop", Mode: "nodeadline"}},
			{{Op: "recvstart", Calls: []int{1}}},
		},
	})
	// E3: the deadline fires while Stop is still on its way to waiting for the workers, a
	// delivery to a not-yet-receiving caller is abandoned, the workers finish, and only
	// then does Stop look at its context (run several times: the runtime picks among ready cases)
	for k := 0; k < 6; k++ {
		ps = append(ps, &Program{
			Name:   fmt.Sprintf("E3-deadline-before-wait-%d", k),
			Cfg:    Cfg{IBS: 2, MBRows: 2},
			Calls:  []Call{{ID: 1, Kind: "empty", Chan: "late"}, rowsCall(2, "late", 1, 1)},
			Faults: []Fault{{Kind: "point:stopper|stop.waiting", Nth: 1, Mode: "wedge"}},
			Phases: [][]Op{
				{{Op: "start"}},
				{calls("c1", 1)},
				{calls("c2", 2)},
				{{Op: "stop", Mode: "custom"}},
				{{Op: "deadline"}},
				{{Op: "unwedge", Mode: "point:"}},
				{{Op: "recvstart", Calls: []int{1, 2}}},
			},
		})
	}
	// B: never started / started late
	ps = append(ps, &Program{
		Name:  "B-nostart",
		Cfg:   Cfg{IBS: 4, MBRows: 2},
		Calls: []Call{rowsCall(1, "buf", 1, 1), {ID: 2, Kind: "empty", Chan: "buf"}},
		Phases: [][]Op{
			{calls("c1", 1, 2)},
			{{Op: "stop", Mode: "nodeadline"}},
		},
	})
	ps = append(ps, &Program{
		Name:  "B2-latestart",
		Cfg:   Cfg{IBS: 4, MBRows: 3},
		Calls: []Call{rowsCall(1, "buf", 1, 1), rowsCall(2, "unbuf", 1, 1), {ID: 3, Kind: "force", Chan: "buf"}},
		Phases: [][]Op{
			{calls("c1", 1), calls("c2", 2)},
			{{Op: "start"}, calls("c3", 3)},
			{{Op: "stop", Mode: "nodeadline"}},
		},
	})
	// B3: never started, ingest buffer full, a caller blocked on it, Stop with a deadline
	ps = append(ps, &Program{
		Name:  "B3-nostart-full-deadline",
		Cfg:   Cfg{IBS: 1, MBRows: 2},
		Calls: []Call{rowsCall(1, "buf", 1, 1), rowsCall(2, "buf", 1, 1), rowsCall(3, "unbuf", 1, 1)},
		Phases: [][]Op{
			{calls("c1", 1)},
			{calls("c2", 2)},
			{{Op: "stop", Mode: "custom"}, calls("c3", 3)},
			{{Op: "deadline"}},
			{{Op: "afterfunc"}},
		},
	})
	// C: empty / rejected / nil-channel batches mixed with good ones
	ps = append(ps, &Program{
		Name: "C-mixed-kinds",
		Cfg:  Cfg{IBS: 2, MBRows: 4, Partitions: true},
		Calls: []Call{rowsCall(1, "buf", 2, 2), {ID: 2, Kind: "bad", Chan: "buf", Rows: 3, BadAt: 1, Parts: 2},
			{ID: 3, Kind: "empty", Chan: "unbuf"}, rowsCall(4, "nil", 1, 1), rowsCall(5, "unbuf", 2, 1),
			{ID: 6, Kind: "force", Chan: "buf"}},
		Phases: [][]Op{
			{{Op: "start"}},
			{calls("c1", 1, 2, 3), calls("c2", 4, 5)},
			{calls("c1", 6)},
			{{Op: "stop", Mode: "nodeadline"}},
		},
	})
	// D: wedged flush worker, queue backed up, Stop with a deadline whose
	// AfterFunc callback the context runs late
	for _, kind := range []string{"create", "close", "update"} {
		ps = append(ps, &Program{
			Name: "D-wedge-" + kind + "-deadline",
			Cfg:  Cfg{IBS: 1, MBRows: 1},
			Calls: []Call{rowsCall(1, "buf", 1, 1), rowsCall(2, "buf", 1, 1), rowsCall(3, "unbuf", 1, 1),
				rowsCall(4, "buf", 1, 1), rowsCall(5, "aband", 1, 1), rowsCall(6, "buf", 1, 1)},
			Faults: []Fault{{Kind: kind, Nth: 1, Mode: "wedge"}},
			Phases: [][]Op{
				{{Op: "start"}},
				{calls("c1", 1)},
				{calls("c1", 2)},
				{calls("c1", 3)},
				{calls("c2", 4)},
				{calls("c3", 5)},
				{{Op: "stop", Mode: "custom"}, calls("c4", 6)},
				{{Op: "deadline"}},
				{{Op: "unwedge"}},
				{{Op: "afterfunc"}},
			},
		})
	}
	// D2: same with a standard context (AfterFunc on its own goroutine)
	ps = append(ps, &Program{
		Name: "D2-wedge-std-deadline",
		Cfg:  Cfg{IBS: 1, MBRows: 1},
		Calls: []Call{rowsCall(1, "buf", 1, 1), rowsCall(2, "buf", 1, 1), rowsCall(3, "unbuf", 1, 1),
			rowsCall(4, "aband", 1, 1)},
		Faults: []Fault{{Kind: "close", Nth: 1, Mode: "wedge"}},
		Phases: [][]Op{
			{{Op: "start"}},
			{calls("c1", 1)},
			{calls("c1", 2)},
			{calls("c1", 3)},
			{calls("c2", 4)},
			{{Op: "stop", Mode: "std"}},
			{{Op: "deadline"}},
			{{Op: "unwedge"}},
		},
	})
	// D3: abandoned unbuffered done channel wedges the flush worker; deadline Stop
	ps = append(ps, &Program{
		Name:  "D3-abandoned-deadline",
		Cfg:   Cfg{IBS: 1, MBRows: 1},
		Calls: []Call{rowsCall(1, "aband", 1, 1), rowsCall(2, "buf", 1, 1), rowsCall(3, "unbuf", 1, 1)},
		Phases: [][]Op{
			{{Op: "start"}},
			{calls("c1", 1)},
			{calls("c1", 2)},
			{calls("c2", 3)},
			{{Op: "stop", Mode: "custom"}},
			{{Op: "deadline"}},
			{{Op: "afterfunc"}},
		},
	})
	// D4: flush groups with several waiters of different channel kinds (in every order), one group in the wedged flush
	// worker's hands and one queued behind it when Stop's deadline expires: whatever is delivered at or after the abort,
	// every waiter that can take a value gets one
	for _, kind := range []string{"create", "close", "update"} {
		for oi, order := range [][]string{{"aband", "buf", "unbuf"}, {"buf", "aband", "unbuf"}, {"unbuf", "buf", "aband"}} {
			ps = append(ps, &Program{
				Name: fmt.Sprintf("D4-mixed-waiters-%s-%d", kind, oi),
				Cfg:  Cfg{IBS: 4, MBRows: 3},
				Calls: []Call{rowsCall(1, order[0], 1, 1), rowsCall(2, order[1], 1, 1), rowsCall(3, order[2], 1, 1),
					rowsCall(4, order[0], 1, 1), rowsCall(5, order[1], 1, 1), rowsCall(6, order[2], 1, 1)},
				Faults: []Fault{{Kind: kind, Nth: 1, Mode: "wedge"}},
				Phases: [][]Op{
					{{Op: "start"}},
					{calls("c1", 1, 2, 3)},
					{calls("c2", 4, 5, 6)},
					{{Op: "stop", Mode: "custom"}},
					{{Op: "deadline"}},
					{{Op: "unwedge"}},
					{{Op: "afterfunc"}},
				},
			})
		}
	}
	// A4: overlapping Flush callers behind a backed-up actor (one flush wedged in the store, one queued, a third being
	// handed over): a batch accepted after the first Flush was sent and before the second Flush is called
	for _, kind := range []string{"create", "close", "update"} {
		ps = append(ps, &Program{
			Name: "A4-flush-overlap-" + kind,
			Cfg:  Cfg{IBS: 4, MBRows: 1},
			Calls: []Call{rowsCall(1, "buf", 1, 1), rowsCall(2, "buf", 1, 1), rowsCall(3, "buf", 1, 1), {ID: 4, Kind: "force", Chan: "buf"},
				rowsCall(5, "buf", 1, 1), {ID: 6, Kind: "force", Chan: "buf"}},
			Faults: []Fault{{Kind: kind, Nth: 1, Mode: "wedge"}},
			Phases: [][]Op{
				{{Op: "start"}},
				{calls("c1", 1)},
				{calls("c1", 2)},
				{calls("c1", 3)},
				{calls("c2", 4)},
				{calls("c3", 5)},
				{calls("c3", 6)},
				{{Op: "unwedge", Mode: kind + "#1"}},
				{{Op: "stop", Mode: "nodeadline"}},
			},
		})
	}
	return ps
}

// FaultPrograms enumerate a failure at every call position of every store
// call kind of a two-flush history (plus pairs with the cleanup calls).
func FaultPrograms(pairs bool) []*Program {
	var ps []*Program
	base := func(name string, noAbort, fs bool, faults []Fault) *Program {
		return &Program{
			Name: name,
			Cfg:  Cfg{IBS: 4, MBRows: 4, Partitions: true, NoAbort: noAbort, FS: fs},
			Calls: []Call{rowsCall(1, "buf", 2, 2), rowsCall(2, "unbuf", 2, 2),
				{ID: 3, Kind: "bad", Chan: "buf", Rows: 2, BadAt: 1, Parts: 2},
				rowsCall(4, "buf", 3, 2), rowsCall(5, "buf", 1, 1), {ID: 6, Kind: "force", Chan: "buf"}},
			Faults: faults,
			Phases: [][]Op{
				{{Op: "start"}},
				{calls("c1", 1, 2)},
				{calls("c1", 3, 4, 5)},
				{calls("c1", 6)},
				{{Op: "stop", Mode: "nodeadline"}},
			},
		}
	}
	kinds := map[string]int{"create": 2, "write": 8, "close": 2, "update": 2}
	for _, variant := range []struct {
		tag     string
		noAbort bool
		fs      bool
	}{{"mem", false, false}, {"noabort", true, false}, {"fs", false, true}} {
		for _, k := range []string{"create", "write", "close", "update"} {
			for n := 1; n <= kinds[k]; n++ {
				f := Fault{Kind: k, Nth: n, Mode: "err"}
				ps = append(ps, base(fmt.Sprintf("F-%s-%s%d", variant.tag, k, n), variant.noAbort, variant.fs, []Fault{f}))
				if pairs {
					for _, k2 := range []string{"abort", "tombstone", "update", "close"} {
						ps = append(ps, base(fmt.Sprintf("F-%s-%s%d+%s1", variant.tag, k, n, k2), variant.noAbort, variant.fs,
							[]Fault{f, {Kind: k2, Nth: 1, Mode: "err"}}))
					}
				}
			}
		}
	}
	// the same failures under flushes the partition-level limits start (a batch that fills a row group, a batch whose
	// partitions reach the limit one after the other): whatever is cut when, an answer tells the truth about its whole batch
	for _, lim := range []struct {
		tag string
		cfg Cfg
	}{{"mrgrows", Cfg{IBS: 4, MBRows: 1000, MRGRows: 2, Partitions: true}}, {"mrgbytes", Cfg{IBS: 4, MBRows: 1000, MRGBytes: 150, Partitions: true}}} {
		for _, k := range []string{"create", "write", "close", "update"} {
			for n := 1; n <= 3; n++ {
				ps = append(ps, &Program{
					Name: fmt.Sprintf("F2-%s-%s%d", lim.tag, k, n),
					Cfg:  lim.cfg,
					Calls: []Call{rowsCall(1, "buf", 3, 1), rowsCall(2, "buf", 1, 1), rowsCall(3, "unbuf", 4, 2), rowsCall(4, "buf", 1, 2),
						{ID: 5, Kind: "force", Chan: "buf"}},
					Faults: []Fault{{Kind: k, Nth: n, Mode: "err"}},
					Phases: [][]Op{
						{{Op: "start"}},
						{calls("c1", 1)},
						{calls("c1", 2, 3)},
						{calls("c1", 4, 5)},
						{{Op: "stop", Mode: "nodeadline"}},
					},
				})
			}
		}
	}
	return ps
}

// BackpressurePrograms: the flush worker is wedged, producers ingest until
// everyone blocks, then their contexts are canceled.
func BackpressurePrograms() []*Program {
	var ps []*Program
	for _, cfg := range []struct{ ibs, mbr, clients, per int }{{1, 1, 4, 6}, {2, 2, 8, 6}, {8, 3, 16, 8}, {1, 4, 32, 3}} {
		for _, kind := range []string{"create", "close", "update"} {
			p := &Program{
				Name:   fmt.Sprintf("P-ibs%d-mbr%d-%s", cfg.ibs, cfg.mbr, kind),
				Cfg:    Cfg{IBS: cfg.ibs, MBRows: cfg.mbr},
				Faults: []Fault{{Kind: kind, Nth: 1, Mode: "wedge"}},
			}
			phase := []Op{}
			var all []int
			id := 0
			for c := 0; c < cfg.clients; c++ {
				var ids []int
				for k := 0; k < cfg.per; k++ {
					id++
					p.Calls = append(p.Calls, rowsCall(id, "buf", 1, 1))
					ids = append(ids, id)
					all = append(all, id)
				}
				phase = append(phase, calls(fmt.Sprintf("c%d", c), ids...))
			}
			p.Phases = [][]Op{
				{{Op: "start"}},
				phase,
				{{Op: "cancelcall", Calls: all}},
				{{Op: "unwedge"}},
				{{Op: "stop", Mode: "nodeadline"}},
			}
			ps = append(ps, p)
		}
	}
	// the same against flushes the ticker starts: a trickle of single-row batches, each older than MaxBufferedTime by the
	// time the next one arrives, so every batch becomes a flush request of its own; with the store wedged the requests
	// back up (one in the store, one queued, one in the actor's hands), the ingest buffer fills and callers block
	for _, kind := range []string{"create", "update"} {
		p := &Program{
			Name:    "P2-timed-" + kind,
			Cfg:     Cfg{IBS: 1, MBRows: 1000, MBTimeMs: 40},
			Timed:   true,
			Faults:  []Fault{{Kind: kind, Nth: 1, Mode: "wedge"}},
			BPBound: 1 + 3*1 + 1,
		}
		p.Phases = append(p.Phases, []Op{{Op: "start"}})
		var all []int
		for k := 1; k <= 12; k++ {
			p.Calls = append(p.Calls, rowsCall(k, "buf", 1, 1))
			p.Phases = append(p.Phases, []Op{calls(fmt.Sprintf("c%d", k), k)}, []Op{{Op: "sleep", Ms: 230}})
			all = append(all, k)
		}
		// the callers still blocked give up before the store comes back (what they would add afterwards is not backlog)
		p.Phases = append(p.Phases, []Op{{Op: "cancelcall", Calls: all}}, []Op{{Op: "sleep", Ms: 150}})
		ps = append(ps, p)
	}
	// batches that carry no rows are no backlog either: with the store wedged and a row waiting below every threshold,
	// a crowd of empty batches (each with a receiver) is answered as it arrives - none of them may pile up behind the
	// flush that cannot finish
	for _, kind := range []string{"create", "update"} {
		p := &Program{
			Name:   "P3-empties-" + kind,
			Cfg:    Cfg{IBS: 2, MBRows: 4},
			Faults: []Fault{{Kind: kind, Nth: 1, Mode: "wedge"}},
		}
		var first, all []int
		for id := 1; id <= 4; id++ {
			p.Calls = append(p.Calls, rowsCall(id, "buf", 1, 1))
			first = append(first, id)
		}
		p.Calls = append(p.Calls, rowsCall(5, "buf", 1, 1))
		all = append(all, first...)
		all = append(all, 5)
		crowd := []Op{}
		id := 5
		for c := 0; c < 20; c++ {
			var ids []int
			for k := 0; k < 5; k++ {
				id++
				p.Calls = append(p.Calls, Call{ID: id, Kind: "empty", Chan: "buf"})
				ids = append(ids, id)
				all = append(all, id)
			}
			crowd = append(crowd, calls(fmt.Sprintf("e%d", c), ids...))
		}
		p.Phases = [][]Op{
			{{Op: "start"}},
			{calls("c0", first...)},
			{calls("c0", 5)},
			crowd,
			{{Op: "cancelcall", Calls: all}},
			{{Op: "unwedge"}},
			{{Op: "stop", Mode: "nodeadline"}},
		}
		ps = append(ps, p)
	}
	return ps
}

// LimitPrograms (C10): sequential batches whose shapes cross the row, byte
// and partition limits; no Flush, no Stop until the end.
func LimitPrograms(rng *rand.Rand, n int) []*Program {
	var ps []*Program
	for i := 0; i < n; i++ {
		cfg := Cfg{IBS: 4, Partitions: true}
		switch rng.Intn(4) {
		case 0:
			cfg.MBRows = 2 + rng.Intn(6)
		case 1:
			cfg.MBBytes = 200 + rng.Intn(800)
		case 2:
			cfg.MRGRows = 1 + rng.Intn(4)
		case 3:
			cfg.MRGBytes = 150 + rng.Intn(600)
		}
		if rng.Intn(3) == 0 {
			cfg.MBRows = 3 + rng.Intn(5)
			cfg.MRGBytes = 200 + rng.Intn(400)
		}
		cfg.Comp = []string{"", "snappy", "zstd"}[i%3]
		p := &Program{Name: fmt.Sprintf("L-%d", i), Cfg: cfg}
		p.Phases = append(p.Phases, []Op{{Op: "start"}})
		nb := 3 + rng.Intn(6)
		for b := 1; b <= nb; b++ {
			c := rowsCall(b, []string{"buf", "unbuf"}[rng.Intn(2)], 1+rng.Intn(4), 1+rng.Intn(3))
			if rng.Intn(3) == 0 {
				c.Pad = rng.Intn(400)
			}
			if rng.Intn(8) == 0 {
				c = Call{ID: b, Kind: "empty", Chan: "buf"}
			}
			p.Calls = append(p.Calls, c)
			p.Phases = append(p.Phases, []Op{calls("c1", b)})
		}
		p.Phases = append(p.Phases, []Op{{Op: "stop", Mode: "nodeadline"}})
		ps = append(ps, p)
	}
	return ps
}

// TimedPrograms (C10): time-based flush with real clocks.
func TimedPrograms() []*Program {
	var ps []*Program
	for _, ms := range []int{50, 300} {
		p := &Program{
			Name:  fmt.Sprintf("T-%dms", ms),
			Cfg:   Cfg{IBS: 4, MBRows: 1000, MBTimeMs: ms},
			Timed: true,
			Clock: true,
			Calls: []Call{rowsCall(1, "unbuf", 1, 1), rowsCall(2, "unbuf", 2, 1), rowsCall(3, "unbuf", 1, 1)},
			Phases: [][]Op{
				{{Op: "start"}},
				{calls("c1", 1, 2)},
				{{Op: "sleep", Ms: ms + 400}},
				{calls("c1", 3)},
				{{Op: "sleep", Ms: ms + 400}},
			},
		}
		ps = append(ps, p)
	}
	// a trickle of small batches, each arriving well inside MaxBufferedTime of the previous one: the first batch must
	// still be flushed MaxBufferedTime after IT was buffered, whatever arrives later - into a partition that has no
	// buffer yet every time, into the same partition every time, and alternating
	for _, mode := range []string{"newparts", "samepart", "alternate"} {
		const ms, gap, n = 300, 170, 26
		p := &Program{
			Name:  "T-trickle-" + mode,
			Cfg:   Cfg{IBS: 4, MBRows: 1000, MBTimeMs: ms, Partitions: true},
			Timed: true,
			Clock: true,
		}
		p.Phases = append(p.Phases, []Op{{Op: "start"}})
		for k := 1; k <= n; k++ {
			c := rowsCall(k, "unbuf", 1, 1)
			switch mode {
			case "newparts":
				c.PartOff = k
			case "alternate":
				c.PartOff = (k % 2) * k
			}
			p.Calls = append(p.Calls, c)
			p.Phases = append(p.Phases, []Op{calls("c1", k)}, []Op{{Op: "sleep", Ms: gap}})
		}
		p.Phases = append(p.Phases, []Op{{Op: "sleep", Ms: ms + 400}})
		ps = append(ps, p)
	}
	// a buffer generation that ends early - the row limit is reached, or a Flush empties it - well inside
	// MaxBufferedTime of its first batch, and a small batch that starts the next generation right behind it (still
	// before the first generation's deadline would have come): that batch's own deadline has to be honoured with no
	// further call, at several offsets of the new generation inside the old one's window
	for _, how := range []string{"limit", "flush"} {
		for _, off := range []int{60, 250, 480} {
			const ms = 600
			p := &Program{
				Name:  fmt.Sprintf("T-regen-%s-%d", how, off),
				Cfg:   Cfg{IBS: 4, MBRows: 2, MBTimeMs: ms},
				Timed: true,
				Clock: true,
			}
			p.Phases = append(p.Phases, []Op{{Op: "start"}})
			if how == "limit" {
				p.Calls = []Call{rowsCall(1, "unbuf", 1, 1), rowsCall(2, "unbuf", 1, 1), rowsCall(3, "unbuf", 1, 1)}
				p.Phases = append(p.Phases, []Op{calls("c1", 1)}, []Op{{Op: "sleep", Ms: 30}}, []Op{calls("c1", 2)})
			} else {
				p.Calls = []Call{rowsCall(1, "unbuf", 1, 1), {ID: 2, Kind: "force", Chan: "unbuf"}, rowsCall(3, "unbuf", 1, 1)}
				p.Phases = append(p.Phases, []Op{calls("c1", 1)}, []Op{{Op: "sleep", Ms: 30}}, []Op{calls("c2", 2)})
			}
			p.Phases = append(p.Phases, []Op{{Op: "sleep", Ms: off}}, []Op{calls("c1", 3)}, []Op{{Op: "sleep", Ms: 2*ms + 400}})
			ps = append(ps, p)
		}
	}
	return ps
}

// StressPrograms: unsteered, seeded: many producers, random kinds and
// channels, a random store fault, a Stop that races the producers.
func StressPrograms(rng *rand.Rand, n int) []*Program {
	var ps []*Program
	for i := 0; i < n; i++ {
		p := &Program{
			Name:  fmt.Sprintf("S-%d", i),
			Cfg:   Cfg{IBS: 1 + rng.Intn(4), MBRows: 1 + rng.Intn(5), Partitions: rng.Intn(2) == 0, NoAbort: rng.Intn(4) == 0, FS: rng.Intn(5) == 0},
			Timed: true,
		}
		clients := 2 + rng.Intn(10)
		id := 0
		var phase []Op
		if rng.Intn(6) != 0 {
			phase = append(phase, Op{Op: "start"})
		}
		for c := 0; c < clients; c++ {
			var ids []int
			for k := 0; k < 1+rng.Intn(5); k++ {
				id++
				kind := []string{"rows", "rows", "rows", "rows", "empty", "bad", "force"}[rng.Intn(7)]
				ch := []string{"buf", "buf", "unbuf", "nil"}[rng.Intn(4)]
				cl := Call{ID: id, Kind: kind, Chan: ch, Rows: 1 + rng.Intn(3), Parts: 1 + rng.Intn(2)}
				if kind == "force" {
					cl.Chan = "buf"
				}
				if kind == "bad" {
					cl.BadAt = rng.Intn(cl.Rows)
				}
				p.Calls = append(p.Calls, cl)
				ids = append(ids, id)
			}
			phase = append(phase, calls(fmt.Sprintf("c%d", c), ids...))
		}
		if rng.Intn(2) == 0 {
			kinds := []string{"create", "write", "close", "update", "tombstone"}
			p.Faults = append(p.Faults, Fault{Kind: kinds[rng.Intn(len(kinds))], Nth: 1 + rng.Intn(3), Mode: "err"})
		}
		phase = append(phase, Op{Op: "stop", Mode: "nodeadline"})
		rng.Shuffle(len(phase), func(a, b int) { phase[a], phase[b] = phase[b], phase[a] })
		p.Phases = [][]Op{phase}
		ps = append(ps, p)
	}
	return ps
}

// ParsePoint splits "role|point#nth".
func ParsePoint(s string) (Delay, bool) {
	var d Delay
	i := strings.Index(s, "|")
	j := strings.LastIndex(s, "#")
	if i < 0 || j < i {
		return d, false
	}
	d.Role, d.Point = s[:i], s[i+1:j]
	fmt.Sscanf(s[j+1:], "%d", &d.Nth)
	return d, true
}

// WithDelays clones p with the given delays.
func WithDelays(p *Program, ds ...Delay) *Program {
	q := *p
	q.Delays = append([]Delay(nil), ds...)
	names := make([]string, len(ds))
	for i, d := range ds {
		names[i] = fmt.Sprintf("%s|%s#%d", d.Role, d.Point, d.Nth)
	}
	q.Name = p.Name + "+delay[" + strings.Join(names, ",") + "]"
	return &q
}
