SPECIFICATION Spec
CONSTANTS
  Discipline = "mem"
  MaxFaults = 2
  WithQuery = TRUE
  AllowFSWindow = FALSE
INVARIANTS AllOrNothing ReturnTruthful SourcesOnlyGoAfterCommit SingleFlight MemAlwaysConsistent QuerySnapshotSound
CHECK_DEADLOCK FALSE
