------------------------------ MODULE Builder ------------------------------
(***************************************************************************)
(* Design theorems for the query constructors and the builder (C25),       *)
(* checked by TLC over every tree of a bounded shape and every builder     *)
(* call sequence of bounded length:                                        *)
(*   ConstructorsMean   Eval(And(args)) = conjunction, Eval(Or(args)) =    *)
(*                      disjunction of the operands, flattening included,  *)
(*                      for operands that are atoms, nested And/Or, empty  *)
(*                      And/Or, nil-condition and unknown nodes            *)
(*   BuilderMeansConjunction   a chain with at most one Match denotes the  *)
(*                      conjunction of everything the caller chained       *)
(***************************************************************************)
EXTENDS BuilderOps

CONSTANTS NAtoms, KeepEarlier, Mode
Asgs == 0..(Pow2(NAtoms) - 1)
Leaves == { Atom(i) : i \in 1..NAtoms } \cup { NilCond, Unk }
Seqs(S, n) == UNION { [1..k -> S] : k \in 0..n }
\* depth-1 trees: constructors over leaves (0..2 operands)
T1 == Leaves \cup { MkAnd(s) : s \in Seqs(Leaves, 2) } \cup { MkOr(s) : s \in Seqs(Leaves, 2) }

VARIABLES args, op, calls
vars == << args, op, calls >>
\* one state per (operator, operand sequence of depth-1 trees) and per builder call sequence
CallSet == { << "leaf", Atom(1) >>, << "leaf", Atom(2) >>, << "match", MkOr(<< Atom(1), Atom(3) >>) >>,
            << "match", Atom(3) >>, << "leaf", NilCond >>, << "leaf", MkOr(<< Atom(2), Atom(3) >>) >>, << "match", MkAnd(<< >>) >> }
Init == IF Mode = "ctor"
          THEN args \in Seqs(T1, 3) /\ op \in {"and", "or"} /\ calls = << >>
          ELSE args = << >> /\ op = "and" /\ calls \in Seqs(CallSet, 5)
Next == UNCHANGED vars
Spec == Init /\ [][Next]_vars

ConstructorsMean ==
  \A asg \in Asgs :
     IF op = "and" THEN Eval(MkAnd(args), asg) = (\A i \in 1..Len(args) : Eval(args[i], asg))
                   ELSE Eval(MkOr(args), asg) = (\E i \in 1..Len(args) : Eval(args[i], asg))

RECURSIVE Run(_, _)
Run(b, cs) == IF cs = << >> THEN b
              ELSE Run(IF Head(cs)[1] = "leaf" THEN AddLeaf(b, Head(cs)[2]) ELSE DoMatch(b, Head(cs)[2], KeepEarlier), Tail(cs))
Matches(cs) == Cardinality({ i \in 1..Len(cs) : cs[i][1] = "match" })
BuilderMeansConjunction ==
  Matches(calls) <= 1 =>
     \A asg \in Asgs : Eval(Built(Run(B0, calls)), asg) = (\A i \in 1..Len(calls) : Eval(calls[i][2], asg))
=============================================================================
