SPECIFICATION Spec
CONSTANTS
  ObsFile = "races.ndjson"
INVARIANTS Report Stats
POSTCONDITION AllConsumed
CHECK_DEADLOCK FALSE
