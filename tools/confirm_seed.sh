#!/bin/sh
# usage: confirm_seed.sh <seed-dir-with-patch.diff+demo_test.go> <name>
# Confirms in a scratch worktree: patch applies, builds, suite passes with it, demo fails with / passes without.
src="$1"; name="$2"
export GOFLAGS=-mod=mod GOPROXY=off
wt=/tmp/confirm-$name
git -C /repo worktree remove --force $wt 2>/dev/null
git -C /repo worktree add -q --detach $wt HEAD || exit 2
cd $wt
echo "== demo WITHOUT change"
cp "$src/demo_test.go" ./zz_seed_demo_test.go
go test -vet=off -count=1 -run 'TestSeedDemo' -timeout 10m . 2>&1 | tail -3
rm -f zz_seed_demo_test.go
echo "== apply"
git apply "$src/patch.diff" || { echo "APPLY FAILED"; cd /; git -C /repo worktree remove --force $wt; exit 1; }
go build ./... && go build -tags verif ./... || { echo "BUILD FAILED"; }
echo "== suite WITH change"
go test -vet=off -count=1 -timeout 25m ./... 2>&1 | tail -2
echo "== demo WITH change"
cp "$src/demo_test.go" ./zz_seed_demo_test.go
go test -vet=off -count=1 -run 'TestSeedDemo' -timeout 10m . 2>&1 | grep -E "^(--- FAIL|FAIL|ok|PASS)" | head -5
cd /
git -C /repo worktree remove --force $wt
