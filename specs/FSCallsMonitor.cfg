SPECIFICATION Spec
CONSTANTS
  TraceFile = "calls.ndjson"
  Names <- MonNames
  WriterIds <- MonWriters
  Pays = {"P1"}
INVARIANTS Report Stats
POSTCONDITION AllConsumed
CHECK_DEADLOCK FALSE
