package h

import (
	"bytes"
	"io"
	"os"
	"sync"
	"syscall"
)

// StdioGuard redirects file descriptors 1 and 2 into a pipe for the lifetime
// of a harness process (C27): whatever the engine - or anything it calls -
// writes to standard output or standard error is captured. The harness
// itself reports through the saved descriptors after Restore.
type StdioGuard struct {
	mu     sync.Mutex
	buf    bytes.Buffer
	r, w   *os.File
	saved1 int
	saved2 int
	done   chan struct{}
}

func CaptureStdio() *StdioGuard {
	g := &StdioGuard{done: make(chan struct{})}
	var err error
	g.r, g.w, err = os.Pipe()
	Must(err, "pipe")
	g.saved1, err = syscall.Dup(1)
	Must(err, "dup 1")
	g.saved2, err = syscall.Dup(2)
	Must(err, "dup 2")
	ErrOut = os.NewFile(uintptr(g.saved2), "saved-stderr")
	Must(syscall.Dup2(int(g.w.Fd()), 1), "dup2 1")
	Must(syscall.Dup2(int(g.w.Fd()), 2), "dup2 2")
	go func() {
		tmp := make([]byte, 4096)
		for {
			n, err := g.r.Read(tmp)
			if n > 0 {
				g.mu.Lock()
				g.buf.Write(tmp[:n])
				g.mu.Unlock()
			}
			if err != nil {
				if err != io.EOF {
				}
				close(g.done)
				return
			}
		}
	}()
	return g
}

func (g *StdioGuard) Len() int {
	g.mu.Lock()
	defer g.mu.Unlock()
	return g.buf.Len()
}

func (g *StdioGuard) Since(off int) string {
	g.mu.Lock()
	defer g.mu.Unlock()
	b := g.buf.Bytes()
	if off > len(b) {
		return ""
	}
	s := string(b[off:])
	if len(s) > 2000 {
		s = s[:2000]
	}
	return s
}

// Restore puts the original descriptors back (so the harness can print its
// own summary) and stops capturing.
func (g *StdioGuard) Restore() {
	syscall.Dup2(g.saved1, 1)
	syscall.Dup2(g.saved2, 2)
	g.w.Close()
	<-g.done
}
