SPECIFICATION LiveSpecWedged
CONSTANTS
  Batches = {1, 2, 3}
  Kind <- KindA
  Chan <- ChanA
  Prev <- PrevA
  IBS = 1
  MBR = 1
  WithStart = TRUE
  StartFirst = FALSE
  StopMode = "deadline"
  MaxFaults = 0
  MaxWedges = 1
  FixStopCancels = TRUE
  FixStopUnblocks = TRUE
  FixStopExpiry = TRUE
  FixStopDrains = TRUE
VIEW view
PROPERTIES StopReturns
CHECK_DEADLOCK FALSE
