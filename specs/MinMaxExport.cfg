INIT XInit
NEXT XNext
CONSTANT MaxVals = 1
CHECK_DEADLOCK FALSE
