package h

import (
	"bytes"
	"context"
	"errors"
	"fmt"
	"io"
	"iter"
	"sync"
	"sync/atomic"

	bs "github.com/danthegoodman1/bloomsearch"
)

// ---------------------------------------------------------------------------
// MemData: an in-memory DataStore with the publish-on-Close discipline the
// DataStore contract describes. Files are visible to OpenFile only after a
// successful Close; TombstoneFile removes the pointer and anything reserved
// for it.

type memFile struct {
	data      []byte
	published bool
	tomb      bool
}

type MemData struct {
	mu      sync.Mutex
	files   map[string]*memFile
	next    int
	NoAbort bool // writers do not implement Abort
}

func NewMemData() *MemData { return &MemData{files: map[string]*memFile{}} }

type memWriter struct {
	s      *MemData
	ptr    string
	buf    bytes.Buffer
	closed bool
}

type memWriterNoAbort struct{ w *memWriter }

func (w memWriterNoAbort) Write(p []byte) (int, error) { return w.w.Write(p) }
func (w memWriterNoAbort) Close() error                { return w.w.Close() }

func (s *MemData) CreateFile(ctx context.Context) (io.WriteCloser, []byte, error) {
	s.mu.Lock()
	s.next++
	ptr := fmt.Sprintf("mem-%04d", s.next)
	s.files[ptr] = &memFile{}
	s.mu.Unlock()
	w := &memWriter{s: s, ptr: ptr}
	if s.NoAbort {
		return memWriterNoAbort{w}, []byte(ptr), nil
	}
	return w, []byte(ptr), nil
}

func (w *memWriter) Write(p []byte) (int, error) {
	if w.closed {
		return 0, errors.New("memstore: write after close")
	}
	return w.buf.Write(p)
}

func (w *memWriter) Close() error {
	if w.closed {
		return errors.New("memstore: double close")
	}
	w.closed = true
	w.s.mu.Lock()
	defer w.s.mu.Unlock()
	f := w.s.files[w.ptr]
	if f == nil || f.tomb {
		return errors.New("memstore: close of tombstoned pointer")
	}
	f.data = append([]byte(nil), w.buf.Bytes()...)
	f.published = true
	return nil
}

func (w *memWriter) Abort() error {
	w.closed = true
	w.s.mu.Lock()
	defer w.s.mu.Unlock()
	if f := w.s.files[w.ptr]; f != nil && !f.published {
		delete(w.s.files, w.ptr)
	}
	return nil
}

func (s *MemData) OpenFile(ctx context.Context, ptr []byte) (io.ReadSeekCloser, error) {
	s.mu.Lock()
	defer s.mu.Unlock()
	f := s.files[string(ptr)]
	if f == nil || !f.published || f.tomb {
		return nil, fmt.Errorf("memstore: no such file %q", ptr)
	}
	return &memReader{Reader: bytes.NewReader(f.data)}, nil
}

type memReader struct {
	*bytes.Reader
	closed bool
}

func (r *memReader) Close() error { r.closed = true; return nil }

func (s *MemData) TombstoneFile(ctx context.Context, ptr []byte) error {
	s.mu.Lock()
	defer s.mu.Unlock()
	delete(s.files, string(ptr))
	return nil
}

// Published lists the published pointers.
func (s *MemData) Published() []string {
	s.mu.Lock()
	defer s.mu.Unlock()
	var out []string
	for p, f := range s.files {
		if f.published {
			out = append(out, p)
		}
	}
	return out
}

// Bytes returns a published file's content.
func (s *MemData) Bytes(ptr string) ([]byte, bool) {
	s.mu.Lock()
	defer s.mu.Unlock()
	f := s.files[ptr]
	if f == nil || !f.published {
		return nil, false
	}
	return f.data, true
}

// Put publishes raw bytes under a fresh pointer (external-writer path).
func (s *MemData) Put(data []byte) string {
	s.mu.Lock()
	defer s.mu.Unlock()
	s.next++
	ptr := fmt.Sprintf("mem-%04d", s.next)
	s.files[ptr] = &memFile{data: data, published: true}
	return ptr
}

// PutAs publishes raw bytes under the given pointer (restoring a saved store).
func (s *MemData) PutAs(ptr string, data []byte) {
	s.mu.Lock()
	defer s.mu.Unlock()
	s.files[ptr] = &memFile{data: data, published: true}
}

// Replace overwrites a published file's bytes (corruption experiments).
func (s *MemData) Replace(ptr string, data []byte) {
	s.mu.Lock()
	defer s.mu.Unlock()
	s.files[ptr] = &memFile{data: data, published: true}
}

// ---------------------------------------------------------------------------
// Instrumented stores: every call is announced to a controller before it takes
// effect (the controller may block = gate/wedge, or return an error = fail-stop
// fault) and after it returned.

type StoreOp struct {
	ID     int64  // unique per call
	Kind   string // create write close abort tombstone open read seek rclose update iter yield iterend
	Ptr    string
	Handle int64 // reader/writer handle id (0 if none)
	N      int   // bytes for write/read; writes/deletes counts for update
	Off    int64 // offset for read (stream position before the read)
	Gid    int64
	Ctx    context.Context
	Aux    any
}

type Controller interface {
	// Before is called on the engine's goroutine before the call takes effect.
	// A non-nil error is returned to the engine instead of performing the call.
	Before(op *StoreOp) error
	// After is called once the underlying call returned.
	After(op *StoreOp, err error)
}

type InstrData struct {
	Inner bs.DataStore
	C     Controller
	ids   atomic.Int64
}

func (s *InstrData) id() int64 { return s.ids.Add(1) }

type instrWriter struct {
	s      *InstrData
	w      io.WriteCloser
	ptr    string
	handle int64
}

type instrWriterAbort struct{ *instrWriter }

func (w instrWriterAbort) Abort() error {
	op := &StoreOp{ID: w.s.id(), Kind: "abort", Ptr: w.ptr, Handle: w.handle, Gid: Gid()}
	if err := w.s.C.Before(op); err != nil {
		w.s.C.After(op, err)
		return err
	}
	err := w.w.(interface{ Abort() error }).Abort()
	w.s.C.After(op, err)
	return err
}

func (s *InstrData) CreateFile(ctx context.Context) (io.WriteCloser, []byte, error) {
	op := &StoreOp{ID: s.id(), Kind: "create", Gid: Gid(), Ctx: ctx}
	if err := s.C.Before(op); err != nil {
		s.C.After(op, err)
		return nil, nil, err
	}
	w, ptr, err := s.Inner.CreateFile(ctx)
	if err == nil {
		op.Ptr = string(ptr)
		op.Handle = s.id()
	}
	s.C.After(op, err)
	if err != nil {
		return nil, nil, err
	}
	iw := &instrWriter{s: s, w: w, ptr: string(ptr), handle: op.Handle}
	if _, ok := w.(interface{ Abort() error }); ok {
		return instrWriterAbort{iw}, ptr, nil
	}
	return iw, ptr, nil
}

func (w *instrWriter) Write(p []byte) (int, error) {
	op := &StoreOp{ID: w.s.id(), Kind: "write", Ptr: w.ptr, Handle: w.handle, N: len(p), Gid: Gid()}
	if err := w.s.C.Before(op); err != nil {
		w.s.C.After(op, err)
		return 0, err
	}
	n, err := w.w.Write(p)
	w.s.C.After(op, err)
	return n, err
}

func (w *instrWriter) Close() error {
	op := &StoreOp{ID: w.s.id(), Kind: "close", Ptr: w.ptr, Handle: w.handle, Gid: Gid()}
	if err := w.s.C.Before(op); err != nil {
		w.s.C.After(op, err)
		return err
	}
	err := w.w.Close()
	w.s.C.After(op, err)
	return err
}

func (s *InstrData) TombstoneFile(ctx context.Context, ptr []byte) error {
	op := &StoreOp{ID: s.id(), Kind: "tombstone", Ptr: string(ptr), Gid: Gid(), Ctx: ctx}
	if err := s.C.Before(op); err != nil {
		s.C.After(op, err)
		return err
	}
	err := s.Inner.TombstoneFile(ctx, ptr)
	s.C.After(op, err)
	return err
}

type instrReader struct {
	s      *InstrData
	r      io.ReadSeekCloser
	ptr    string
	handle int64
	pos    int64
}

func (s *InstrData) OpenFile(ctx context.Context, ptr []byte) (io.ReadSeekCloser, error) {
	op := &StoreOp{ID: s.id(), Kind: "open", Ptr: string(ptr), Gid: Gid(), Ctx: ctx}
	if err := s.C.Before(op); err != nil {
		s.C.After(op, err)
		return nil, err
	}
	r, err := s.Inner.OpenFile(ctx, ptr)
	if err == nil {
		op.Handle = s.id()
	}
	s.C.After(op, err)
	if err != nil {
		return nil, err
	}
	return &instrReader{s: s, r: r, ptr: string(ptr), handle: op.Handle}, nil
}

func (r *instrReader) Read(p []byte) (int, error) {
	op := &StoreOp{ID: r.s.id(), Kind: "read", Ptr: r.ptr, Handle: r.handle, N: len(p), Off: r.pos, Gid: Gid()}
	if err := r.s.C.Before(op); err != nil {
		r.s.C.After(op, err)
		return 0, err
	}
	n, err := r.r.Read(p)
	r.pos += int64(n)
	op.N = n
	if err == io.EOF {
		r.s.C.After(op, nil)
	} else {
		r.s.C.After(op, err)
	}
	return n, err
}

func (r *instrReader) Seek(off int64, whence int) (int64, error) {
	op := &StoreOp{ID: r.s.id(), Kind: "seek", Ptr: r.ptr, Handle: r.handle, Off: off, N: whence, Gid: Gid()}
	if err := r.s.C.Before(op); err != nil {
		r.s.C.After(op, err)
		return 0, err
	}
	pos, err := r.r.Seek(off, whence)
	if err == nil {
		r.pos = pos
	}
	r.s.C.After(op, err)
	return pos, err
}

func (r *instrReader) Close() error {
	op := &StoreOp{ID: r.s.id(), Kind: "rclose", Ptr: r.ptr, Handle: r.handle, Gid: Gid()}
	if err := r.s.C.Before(op); err != nil {
		r.s.C.After(op, err)
		// a reader's Close is always performed: the engine ignores its error
		r.r.Close()
		return err
	}
	err := r.r.Close()
	r.s.C.After(op, err)
	return err
}

type InstrMeta struct {
	Inner bs.MetaStore
	C     Controller
	ids   atomic.Int64
}

func (s *InstrMeta) Update(ctx context.Context, writes []bs.WriteOperation, deletes []bs.DeleteOperation) error {
	op := &StoreOp{ID: 1_000_000 + s.ids.Add(1), Kind: "update", N: len(writes)*1000 + len(deletes), Gid: Gid(), Ctx: ctx,
		Aux: [2]any{writes, deletes}}
	if len(writes) > 0 {
		op.Ptr = string(writes[0].FilePointerBytes)
	}
	if err := s.C.Before(op); err != nil {
		s.C.After(op, err)
		return err
	}
	err := s.Inner.Update(ctx, writes, deletes)
	s.C.After(op, err)
	return err
}

func (s *InstrMeta) GetMaybeFilesForQuery(ctx context.Context, q *bs.QueryPrefilter) iter.Seq2[bs.MaybeFile, error] {
	return func(yield func(bs.MaybeFile, error) bool) {
		iterID := 1_000_000 + s.ids.Add(1)
		op := &StoreOp{ID: iterID, Kind: "iter", Gid: Gid(), Ctx: ctx}
		if err := s.C.Before(op); err != nil {
			s.C.After(op, err)
			yield(bs.MaybeFile{}, err)
			end := &StoreOp{ID: iterID, Kind: "iterend", Gid: Gid(), Ctx: ctx}
			s.C.After(end, nil)
			return
		}
		s.C.After(op, nil)
		defer func() {
			end := &StoreOp{ID: iterID, Kind: "iterend", Gid: Gid(), Ctx: ctx}
			s.C.After(end, nil)
		}()
		for f, err := range s.Inner.GetMaybeFilesForQuery(ctx, q) {
			y := &StoreOp{ID: 1_000_000 + s.ids.Add(1), Kind: "yield", Ptr: string(f.PointerBytes), Handle: iterID, Gid: Gid(), Ctx: ctx}
			if ierr := s.C.Before(y); ierr != nil {
				s.C.After(y, ierr)
				yield(bs.MaybeFile{}, ierr)
				return
			}
			ok := yield(f, err)
			s.C.After(y, err)
			if !ok {
				return
			}
		}
	}
}

// NopController passes everything through.
type NopController struct{}

func (NopController) Before(*StoreOp) error { return nil }
func (NopController) After(*StoreOp, error) {}

// ErrInjected is the sentinel for injected faults.
var ErrInjected = errors.New("verif: injected fault")
