// Package wp drives the real bloomsearch write path (IngestRows / Flush /
// Start / Stop, ingest actor, flush worker) through programs of API calls,
// store faults, wedges, Stop deadlines and delayed goroutines, and records
// the observable history as an NDJSON trace judged by WritePathMonitor.tla.
package wp

import (
	"context"
	"encoding/json"
	"errors"
	"fmt"
	"os"
	"strings"
	"sync"
	"sync/atomic"
	"time"

	bs "github.com/danthegoodman1/bloomsearch"
	"verifharness/internal/h"
)

type Call struct {
	ID      int    `json:"id"`
	Kind    string `json:"kind"` // rows | empty | bad | force
	Chan    string `json:"chan"` // nil | buf | unbuf | aband
	Rows    int    `json:"rows,omitempty"`
	Parts   int    `json:"parts,omitempty"`    // rows are spread over this many partitions (>=1)
	Pad     int    `json:"pad,omitempty"`      // extra payload bytes per row
	PartOff int    `json:"part_off,omitempty"` // the batch's partitions are p<PartOff> .. p<PartOff+Parts-1>
	BadAt   int    `json:"bad_at,omitempty"`   // index of the unmarshalable row for kind=bad (others are good)
}

type Op struct {
	Op     string `json:"op"`               // calls | start | stop | deadline | afterfunc | unwedge | cancelcall | sleep
	Client string `json:"client,omitempty"` // for calls
	Calls  []int  `json:"calls,omitempty"`
	Mode   string `json:"mode,omitempty"` // stop: nodeadline | custom | std ; unwedge: kind
	Ms     int    `json:"ms,omitempty"`
}

type Fault struct {
	Kind string `json:"kind"` // create write close abort update tombstone
	Nth  int    `json:"nth"`  // 1-based index among calls of that kind
	Mode string `json:"mode"` // err | wedge
}

type Delay struct {
	Role  string `json:"role"`
	Point string `json:"point"`
	Nth   int    `json:"nth"`
}

type Cfg struct {
	IBS        int  `json:"ibs"`
	MBRows     int  `json:"mb_rows"`
	MBBytes    int  `json:"mb_bytes"`
	MRGRows    int  `json:"mrg_rows"`
	MRGBytes   int  `json:"mrg_bytes"`
	MBTimeMs   int  `json:"mb_time_ms"`
	Partitions bool `json:"partitions"`
	FS         bool `json:"fs"`
	NoAbort    bool `json:"no_abort"`
	// Comp: row data compression ("" = none, "snappy", "zstd"): the limits count the rows' own bytes whatever is written
	Comp string `json:"comp,omitempty"`
}

type Program struct {
	Name   string  `json:"name"`
	Cfg    Cfg     `json:"cfg"`
	Calls  []Call  `json:"calls"`
	Phases [][]Op  `json:"phases"`
	Faults []Fault `json:"faults,omitempty"`
	Delays []Delay `json:"delays,omitempty"`
	// Timed programs do not wait for quiescence between phases.
	Timed bool `json:"timed,omitempty"`
	// Clock programs (C10) measure acknowledgement latency with real clocks.
	Clock bool `json:"clock,omitempty"`
	// Strict: every hook and store point is held and released one at a time in
	// the order of Script (TLC behaviour replay).
	Script []string `json:"script,omitempty"`
	// BPBound, when set, is the number of accepted-but-unanswered batches the program's own shape allows at a quiescent
	// point (ingest buffer + what the flush requests in flight, queued and being handed over can carry + one).
	BPBound int `json:"bp_bound,omitempty"`
}

type Result struct {
	Settled    bool     `json:"settled"`
	Infeasible bool     `json:"infeasible,omitempty"`
	Note       string   `json:"note,omitempty"`
	Points     []string `json:"points,omitempty"` // role|point#nth seen (for delay enumeration)
	Stdio      string   `json:"stdio,omitempty"`
	Leftover   bool     `json:"leftover,omitempty"`
}

// ---------------------------------------------------------------------------

type stopCtx struct {
	done    chan struct{}
	mu      sync.Mutex
	fired   bool
	funcs   []func()
	firedAt time.Time
}

func newStopCtx() *stopCtx { return &stopCtx{done: make(chan struct{})} }

func (c *stopCtx) Deadline() (time.Time, bool) { return time.Time{}, false }
func (c *stopCtx) Done() <-chan struct{}       { return c.done }
func (c *stopCtx) Value(any) any               { return nil }
func (c *stopCtx) Err() error {
	c.mu.Lock()
	defer c.mu.Unlock()
	if c.fired {
		return context.DeadlineExceeded
	}
	return nil
}

// AfterFunc is honoured by context.AfterFunc: callbacks run when the harness
// decides (late), which the context contract permits.
func (c *stopCtx) AfterFunc(f func()) func() bool {
	c.mu.Lock()
	defer c.mu.Unlock()
	idx := len(c.funcs)
	c.funcs = append(c.funcs, f)
	return func() bool {
		c.mu.Lock()
		defer c.mu.Unlock()
		if c.funcs[idx] == nil {
			return false
		}
		c.funcs[idx] = nil
		return true
	}
}

func (c *stopCtx) fire() {
	c.mu.Lock()
	if !c.fired {
		c.fired = true
		c.firedAt = time.Now()
		close(c.done)
	}
	c.mu.Unlock()
}

func (c *stopCtx) runAfterFuncs() {
	c.mu.Lock()
	fs := c.funcs
	c.funcs = make([]func(), len(fs))
	c.mu.Unlock()
	for _, f := range fs {
		if f != nil {
			f()
		}
	}
}

// ---------------------------------------------------------------------------

type run struct {
	p       *Program
	tr      *h.Tracer
	gates   *h.Gates
	roles   *h.Roles
	engine  *bs.BloomSearchEngine
	meta    bs.MetaStore
	data    bs.DataStore
	rawMeta bs.MetaStore
	rawData bs.DataStore
	dir     string

	mu        sync.Mutex
	chans     map[int]chan error
	flags     map[int]*recvState
	callByReq map[chan error]int
	kindCount map[string]int
	wedges    map[string]chan struct{} // kind#nth -> release
	pointSeen map[string]int
	points    []string
	callCtx   map[int]context.CancelFunc

	stopC      *stopCtx
	stdCancel  context.CancelFunc
	stdFiredAt atomic.Int64
	wg         sync.WaitGroup
	script     []string
	scriptPos  int
	strict     bool
	infeasible bool
	rowsOf     map[int]int
	finished   atomic.Bool
	dead       atomic.Bool
	curCall    map[string]int
	lateStart  map[int]func()
}

type recvState struct {
	mu    sync.Mutex
	vals  []string
	times []time.Time
	seen  int // how many the director already logged
	retAt time.Time
}

func (r *run) ev(e h.Ev) int64 {
	if r.dead.Load() {
		return 0
	}
	return r.tr.Emit(e)
}

func roleOfPoint(name string) string {
	switch {
	case strings.HasPrefix(name, "actor."):
		return "actor"
	case strings.HasPrefix(name, "flusher."), strings.HasPrefix(name, "flush."):
		return "flusher"
	case strings.HasPrefix(name, "stop."):
		return "stopper"
	case strings.HasPrefix(name, "start."):
		return "starter"
	}
	return ""
}

// arrive logs a point and parks the goroutine there when the point is delayed.
func (r *run) arrive(role, point string, b int, extra h.Ev) {
	if r.finished.Load() {
		return
	}
	r.mu.Lock()
	key := role + "|" + point
	r.pointSeen[key]++
	nth := r.pointSeen[key]
	r.points = append(r.points, fmt.Sprintf("%s#%d", key, nth))
	hold := false
	for _, d := range r.p.Delays {
		if d.Role == role && d.Point == point && d.Nth == nth {
			hold = true
		}
	}
	// a "point:<role>|<point>" wedge holds the goroutine there until an unwedge op
	var pointWedge chan struct{}
	for _, f := range r.p.Faults {
		if f.Mode == "wedge" && f.Kind == "point:"+key && f.Nth == nth {
			pointWedge = make(chan struct{})
			r.wedges[fmt.Sprintf("%s#%d", f.Kind, nth)] = pointWedge
		}
	}
	r.mu.Unlock()
	e := h.Ev{"ev": "point", "name": point, "role": role, "b": b}
	for k, v := range extra {
		e[k] = v
	}
	r.ev(e)
	if pointWedge != nil {
		<-pointWedge
	}
	if r.strict {
		r.gates.Hold(role, point, 1)
		r.gates.Arrive(role, point)
		return
	}
	if hold {
		r.gates.Hold(role, point, 1)
		r.gates.Arrive(role, point)
	}
}

func (r *run) batchOfRef(ref any) int {
	if rows, done, force, ok := bs.VerifRequestInfo(ref); ok {
		_ = force
		if done != nil {
			r.mu.Lock()
			id, ok := r.callByReq[done]
			r.mu.Unlock()
			if ok {
				return id
			}
		}
		if len(rows) > 0 {
			if v, ok := rows[0]["_b"].(string); ok {
				var id int
				fmt.Sscanf(v, "b%d", &id)
				return id
			}
		}
	}
	return 0
}

func (r *run) hook(name string, a, b int64, ref any) {
	role := roleOfPoint(name)
	gid := h.Gid()
	if role == "" {
		role = r.roles.Get(gid)
		if role == "" {
			role = "unknown"
		}
	} else {
		r.roles.Set(gid, role)
	}
	batch := 0
	if strings.HasPrefix(name, "ingest.") || name == "actor.recv" || name == "actor.ack_empty" || name == "actor.ack_reject" || name == "actor.buffered" {
		batch = r.batchOfRef(ref)
		if batch == 0 && strings.HasPrefix(name, "ingest.") {
			r.mu.Lock()
			batch = r.curCall[role]
			r.mu.Unlock()
		}
	}
	r.arrive(role, name, batch, h.Ev{"a": a, "n": b})
}

// controller for the instrumented stores
type ctl struct{ r *run }

func (c ctl) Before(op *h.StoreOp) error {
	r := c.r
	switch op.Kind {
	case "read", "seek", "open", "rclose", "iter", "yield", "iterend":
		return nil // query-side calls of the observation queries are not part of this family
	}
	role := r.roles.Get(op.Gid)
	if role == "" {
		role = "unknown"
	}
	r.mu.Lock()
	r.kindCount[op.Kind]++
	nth := r.kindCount[op.Kind]
	var fault *Fault
	for i := range r.p.Faults {
		f := &r.p.Faults[i]
		if f.Kind == op.Kind && f.Nth == nth {
			fault = f
		}
	}
	var wedge chan struct{}
	if fault != nil && fault.Mode == "wedge" {
		wedge = make(chan struct{})
		r.wedges[fmt.Sprintf("%s#%d", op.Kind, nth)] = wedge
	}
	r.mu.Unlock()
	op.Aux = nth
	r.arrive(role, "store."+op.Kind, 0, h.Ev{"a": nth, "ptr": op.Ptr})
	if wedge != nil {
		r.ev(h.Ev{"ev": "wedged", "name": op.Kind, "a": nth})
		<-wedge
		r.ev(h.Ev{"ev": "unwedged", "name": op.Kind, "a": nth})
	}
	if fault != nil && fault.Mode == "err" {
		return h.ErrInjected
	}
	return nil
}

func (c ctl) After(op *h.StoreOp, err error) {
	switch op.Kind {
	case "read", "seek", "open", "rclose", "iter", "yield", "iterend":
		return
	}
	res := "ok"
	if err != nil {
		res = "err"
	}
	nth, _ := op.Aux.(int)
	c.r.ev(h.Ev{"ev": "storeend", "name": op.Kind, "res": res, "a": nth, "ptr": op.Ptr})
}

type badValue struct{}

func (badValue) MarshalJSON() ([]byte, error) { return nil, errors.New("verif: unmarshalable row") }

func (r *run) rowsFor(c Call) []map[string]any {
	if c.Kind != "rows" && c.Kind != "bad" {
		return nil
	}
	n := c.Rows
	if n <= 0 {
		n = 1
	}
	parts := c.Parts
	if parts <= 0 {
		parts = 1
	}
	rows := make([]map[string]any, n)
	for i := 0; i < n; i++ {
		row := map[string]any{
			"_b": fmt.Sprintf("b%d", c.ID),
			"i":  i,
			"p":  fmt.Sprintf("p%d", c.PartOff+i%parts),
		}
		if c.Pad > 0 {
			row["pad"] = strings.Repeat("x", c.Pad)
		}
		rows[i] = row
	}
	if c.Kind == "bad" {
		at := c.BadAt
		if at < 0 || at >= n {
			at = n - 1
		}
		rows[at]["bad"] = badValue{}
	}
	return rows
}

func (r *run) callByID(id int) Call {
	for _, c := range r.p.Calls {
		if c.ID == id {
			return c
		}
	}
	panic("unknown call")
}

// doCall performs one API call on the client's goroutine.
func (r *run) doCall(client string, c Call) {
	var ch chan error
	switch c.Chan {
	case "buf":
		ch = make(chan error, 2)
	case "unbuf", "aband", "late":
		ch = make(chan error)
	}
	st := &recvState{}
	r.mu.Lock()
	r.chans[c.ID] = ch
	r.flags[c.ID] = st
	if ch != nil {
		r.callByReq[ch] = c.ID
	}
	ctx, cancel := context.WithCancel(context.Background())
	r.callCtx[c.ID] = cancel
	r.mu.Unlock()
	startReceiver := func() {
		go func() {
			for v := range ch {
				s := "nil"
				if v != nil {
					s = "err"
				}
				st.mu.Lock()
				st.vals = append(st.vals, s)
				st.times = append(st.times, time.Now())
				st.mu.Unlock()
			}
		}()
	}
	if c.Chan == "unbuf" {
		// A receiver parked before the batch can possibly be answered.
		startReceiver()
	}
	if c.Chan == "late" {
		// The caller starts receiving only when the program says so ("recvstart").
		r.mu.Lock()
		r.lateStart[c.ID] = startReceiver
		r.mu.Unlock()
	}
	r.mu.Lock()
	r.curCall[client] = c.ID
	r.mu.Unlock()
	r.ev(h.Ev{"ev": "call", "b": c.ID, "name": c.Kind, "role": client, "res": c.Chan})
	var err error
	if c.Kind == "force" {
		err = r.engine.Flush(ctx)
		res := "flushed"
		switch {
		case err == nil:
		case errors.Is(err, bs.ErrEngineStopped):
			res = "stopped"
		case errors.Is(err, context.Canceled) && ctx.Err() != nil && !strings.Contains(err.Error(), "flush abandoned"):
			res = "ctxerr"
		default:
			res = "flusherr"
		}
		r.ev(h.Ev{"ev": "ret", "b": c.ID, "res": res})
		return
	}
	err = r.engine.IngestRows(ctx, r.rowsFor(c), ch)
	st.mu.Lock()
	st.retAt = time.Now()
	st.mu.Unlock()
	res := "nil"
	switch {
	case err == nil:
	case errors.Is(err, bs.ErrEngineStopped):
		res = "stopped"
	case errors.Is(err, context.Canceled):
		res = "ctxerr"
	default:
		res = "othererr"
	}
	r.ev(h.Ev{"ev": "ret", "b": c.ID, "res": res})
}

func (r *run) launch(op Op) {
	switch op.Op {
	case "calls":
		r.wg.Add(1)
		go func() {
			defer r.wg.Done()
			r.roles.Set(h.Gid(), op.Client)
			for _, id := range op.Calls {
				r.doCall(op.Client, r.callByID(id))
			}
		}()
	case "start":
		r.wg.Add(1)
		go func() {
			defer r.wg.Done()
			r.roles.Set(h.Gid(), "starter")
			r.ev(h.Ev{"ev": "startcall"})
			r.engine.Start()
			r.ev(h.Ev{"ev": "startret"})
		}()
	case "stop":
		var ctx context.Context
		switch op.Mode {
		case "custom":
			r.stopC = newStopCtx()
			ctx = r.stopC
		case "std":
			c, cancel := context.WithCancel(context.Background())
			r.stdCancel = cancel
			ctx = c
		case "timeout":
			c, cancel := context.WithTimeout(context.Background(), time.Duration(op.Ms)*time.Millisecond)
			r.stdCancel = cancel
			r.stdFiredAt.Store(time.Now().Add(time.Duration(op.Ms) * time.Millisecond).UnixNano())
			ctx = c
		default:
			ctx = context.Background()
		}
		r.wg.Add(1)
		go func() {
			defer r.wg.Done()
			r.roles.Set(h.Gid(), "stopper")
			r.ev(h.Ev{"ev": "stopcall", "name": op.Mode})
			err := r.engine.Stop(ctx)
			res := "nil"
			lat := int64(0)
			if err != nil {
				res = "deadline"
				if r.stopC != nil && !r.stopC.firedAt.IsZero() {
					lat = time.Since(r.stopC.firedAt).Milliseconds()
				} else if t := r.stdFiredAt.Load(); t != 0 {
					lat = (time.Now().UnixNano() - t) / 1e6
				}
			}
			r.ev(h.Ev{"ev": "stopret", "res": res, "a": lat, "parts": r.bufAnswered()})
		}()
	case "deadline":
		r.ev(h.Ev{"ev": "deadline"})
		if r.stopC != nil {
			r.stopC.fire()
		} else if r.stdCancel != nil {
			r.stdFiredAt.Store(time.Now().UnixNano())
			r.stdCancel()
		}
	case "afterfunc":
		r.ev(h.Ev{"ev": "afterfunc"})
		if r.stopC != nil {
			r.stopC.runAfterFuncs()
		}
	case "unwedge":
		r.mu.Lock()
		for k, ch := range r.wedges {
			if op.Mode == "" || strings.HasPrefix(k, op.Mode) {
				close(ch)
				delete(r.wedges, k)
			}
		}
		r.mu.Unlock()
	case "cancelcall":
		r.mu.Lock()
		for _, id := range op.Calls {
			if c := r.callCtx[id]; c != nil {
				r.mu.Unlock()
				r.ev(h.Ev{"ev": "cancelcall", "b": id})
				r.mu.Lock()
				c()
			}
		}
		r.mu.Unlock()
	case "sleep":
		time.Sleep(time.Duration(op.Ms) * time.Millisecond)
	case "recvstart":
		r.mu.Lock()
		for _, id := range op.Calls {
			if f := r.lateStart[id]; f != nil {
				delete(r.lateStart, id)
				r.mu.Unlock()
				r.ev(h.Ev{"ev": "recvstart", "b": id})
				f()
				r.mu.Lock()
			}
		}
		r.mu.Unlock()
	}
}

// bufAnswered lists the batches on buffered channels whose answer has been
// delivered (observed already, or sitting in the channel right now).
func (r *run) bufAnswered() []map[string]int {
	out := []map[string]int{}
	r.mu.Lock()
	defer r.mu.Unlock()
	for id, ch := range r.chans {
		st := r.flags[id]
		st.mu.Lock()
		n := len(st.vals)
		st.mu.Unlock()
		if ch != nil && cap(ch) > 0 && (len(ch) > 0 || n > 0) {
			out = append(out, map[string]int{"r": id, "y": 0})
		}
	}
	return out
}

func (r *run) activity() int64 { return r.tr.Seq() + r.gates.Activity() }

// observe drains done channels, logs what was received since the last
// observation as one "acks" event, and logs the visibility of every batch.
func (r *run) observe() {
	r.mu.Lock()
	ids := make([]int, 0, len(r.chans))
	for id := range r.flags {
		ids = append(ids, id)
	}
	r.mu.Unlock()
	sortInts(ids)
	var got [][3]any
	for _, id := range ids {
		r.mu.Lock()
		ch := r.chans[id]
		st := r.flags[id]
		c := r.callByID(id)
		r.mu.Unlock()
		if c.Chan == "buf" {
			for {
				select {
				case v := <-ch:
					s := "nil"
					if v != nil {
						s = "err"
					}
					st.mu.Lock()
					st.vals = append(st.vals, s)
					st.times = append(st.times, time.Now())
					st.mu.Unlock()
					continue
				default:
				}
				break
			}
		}
		st.mu.Lock()
		for st.seen < len(st.vals) {
			lat := int64(0)
			if !st.retAt.IsZero() && st.times[st.seen].After(st.retAt) {
				lat = st.times[st.seen].Sub(st.retAt).Milliseconds()
			}
			got = append(got, [3]any{id, st.vals[st.seen], lat})
			st.seen++
		}
		st.mu.Unlock()
	}
	for _, g := range got {
		r.ev(h.Ev{"ev": "ack", "b": g[0], "res": g[1], "a": g[2]})
	}
	held := len(r.gates.Parked())
	r.mu.Lock()
	for k := range r.wedges {
		if strings.HasPrefix(k, "point:") {
			held++ // a goroutine held at a hook point by the harness, not by the environment
		}
	}
	r.mu.Unlock()
	r.ev(h.Ev{"ev": "acksdone", "a": len(got), "n": held})
	r.visibility(ids)
}

func sortInts(a []int) {
	for i := 1; i < len(a); i++ {
		for j := i; j > 0 && a[j-1] > a[j]; j-- {
			a[j-1], a[j] = a[j], a[j-1]
		}
	}
}

// countRows queries engine e for every row and returns per-batch per-index counts.
func countRows(e *bs.BloomSearchEngine) (map[int]map[int]int, error) {
	res, err := e.Query(context.Background(), bs.NewQuery().Field("_b").Build())
	if err != nil {
		return nil, err
	}
	defer res.Close()
	out := map[int]map[int]int{}
	for res.Next() {
		row := res.Row()
		var id int
		s, _ := row["_b"].(string)
		fmt.Sscanf(s, "b%d", &id)
		idx := -1
		if f, ok := row["i"].(float64); ok {
			idx = int(f)
		}
		if out[id] == nil {
			out[id] = map[int]int{}
		}
		out[id][idx]++
	}
	return out, res.Err()
}

func copies(m map[int]int, n int) int {
	if len(m) == 0 {
		return 0
	}
	k := -1
	for i := 0; i < n; i++ {
		c := m[i]
		if k == -1 {
			k = c
		} else if c != k {
			return 99
		}
	}
	for idx := range m {
		if idx < 0 || idx >= n {
			return 98
		}
	}
	return k
}

func (r *run) freshEngine() (*bs.BloomSearchEngine, error) {
	cfg := bs.DefaultBloomSearchEngineConfig()
	cfg.MaxQueryConcurrency = 4
	if r.p.Cfg.FS {
		fs := bs.NewFileSystemDataStore(r.dir)
		return bs.NewBloomSearchEngine(cfg, fs, fs)
	}
	return bs.NewBloomSearchEngine(cfg, r.rawMeta, r.rawData)
}

func (r *run) visibility(ids []int) {
	same, err1 := countRows(r.engine)
	fe, err := r.freshEngine()
	var fresh map[int]map[int]int
	var err2 error
	if err == nil {
		fresh, err2 = countRows(fe)
	} else {
		err2 = err
	}
	for _, id := range ids {
		c := r.callByID(id)
		if c.Kind == "force" {
			continue
		}
		n := c.Rows
		if n <= 0 {
			n = 1
		}
		a, b := copies(same[id], n), copies(fresh[id], n)
		if err1 != nil {
			a = 97
		}
		if err2 != nil {
			b = 97
		}
		r.ev(h.Ev{"ev": "vis", "b": id, "a": a, "n": b})
	}
	r.ev(h.Ev{"ev": "visdone"})
}

// Run executes one program and appends its trace to tr.
func Run(p *Program, tr *h.Tracer, traceID int64, scratch string) Result {
	r := &run{p: p, tr: tr, gates: h.NewGates(), roles: h.NewRoles(),
		chans: map[int]chan error{}, flags: map[int]*recvState{}, callByReq: map[chan error]int{},
		kindCount: map[string]int{}, wedges: map[string]chan struct{}{}, pointSeen: map[string]int{},
		callCtx: map[int]context.CancelFunc{}, curCall: map[string]int{}, lateStart: map[int]func(){}}
	tr.Begin(traceID)

	cfg := bs.DefaultBloomSearchEngineConfig()
	c := p.Cfg
	if c.IBS > 0 {
		cfg.IngestBufferSize = c.IBS
	}
	if c.MBRows > 0 {
		cfg.MaxBufferedRows = c.MBRows
	}
	if c.MBBytes > 0 {
		cfg.MaxBufferedBytes = c.MBBytes
	}
	if c.MRGRows > 0 {
		cfg.MaxRowGroupRows = c.MRGRows
	}
	if c.MRGBytes > 0 {
		cfg.MaxRowGroupBytes = c.MRGBytes
	}
	if c.MBTimeMs > 0 {
		cfg.MaxBufferedTime = time.Duration(c.MBTimeMs) * time.Millisecond
	} else {
		cfg.MaxBufferedTime = time.Hour
	}
	if c.Partitions {
		cfg.PartitionFunc = func(row map[string]any) string { s, _ := row["p"].(string); return s }
	}
	cfg.MaxQueryConcurrency = 4
	cfg.RowDataCompression = bs.CompressionNone
	switch c.Comp {
	case "snappy":
		cfg.RowDataCompression = bs.CompressionSnappy
	case "zstd":
		cfg.RowDataCompression = bs.CompressionZstd
	}

	if c.FS {
		r.dir = fmt.Sprintf("%s/fs-%d", scratch, traceID)
		os.MkdirAll(r.dir, 0o755)
		defer os.RemoveAll(r.dir)
		fs := bs.NewFileSystemDataStore(r.dir)
		r.rawData, r.rawMeta = fs, fs
	} else {
		md := h.NewMemData()
		md.NoAbort = c.NoAbort
		r.rawData, r.rawMeta = md, bs.NewMemoryMetaStore()
	}
	r.data = &h.InstrData{Inner: r.rawData, C: ctl{r}}
	r.meta = &h.InstrMeta{Inner: r.rawMeta, C: ctl{r}}
	eng, err := bs.NewBloomSearchEngine(cfg, r.meta, r.data)
	h.Must(err, "engine config")
	r.engine = eng

	bs.VerifPoint = r.hook
	defer func() { bs.VerifPoint = nil }()

	r.ev(h.Ev{"ev": "cfg", "name": p.Name})
	seqmode := 1
	for _, ph := range p.Phases {
		ncalls := 0
		for _, op := range ph {
			if op.Op == "calls" {
				ncalls += len(op.Calls)
			}
		}
		if ncalls > 1 {
			seqmode = 0
		}
	}
	if len(p.Faults) > 0 || len(p.Script) > 0 {
		seqmode = 0
	}
	for _, cl := range p.Calls {
		if cl.Chan == "aband" {
			seqmode = 0 // an abandoned channel stalls the flush worker by design
		}
	}
	for _, lv := range []struct {
		n string
		v int
	}{{"ibs", cfg.IngestBufferSize}, {"mb_rows", cfg.MaxBufferedRows}, {"mb_bytes", cfg.MaxBufferedBytes},
		{"mrg_rows", cfg.MaxRowGroupRows}, {"mrg_bytes", cfg.MaxRowGroupBytes},
		{"mb_time_ms", int(cfg.MaxBufferedTime / time.Millisecond)}, {"timed", boolInt(p.Clock)}, {"seqmode", seqmode}, {"fs", boolInt(p.Cfg.FS)}, {"bp_bound", p.BPBound}} {
		v := lv.v
		if v > 1<<30 {
			v = 1 << 30
		}
		r.ev(h.Ev{"ev": "limit", "name": lv.n, "a": v})
	}
	for _, cl := range p.Calls {
		rows := cl.Rows
		if (cl.Kind == "rows" || cl.Kind == "bad") && rows <= 0 {
			rows = 1
		}
		r.ev(h.Ev{"ev": "decl", "b": cl.ID, "name": cl.Kind, "res": cl.Chan, "a": rows, "parts": r.shapeOf(cl, cfg.PartitionFunc)})
	}

	res := Result{Settled: true}
	if len(p.Script) > 0 {
		r.strict = true
		r.script = p.Script
	}
	for pi, phase := range p.Phases {
		r.ev(h.Ev{"ev": "phase", "a": pi})
		for _, op := range phase {
			r.launch(op)
		}
		if p.Timed {
			continue
		}
		if !r.settle(&res) {
			break
		}
	}
	if p.Timed {
		r.settle(&res)
	}
	// final: let everything finish, observe, and leave the engine stopped.
	r.gates.ReleaseAll()
	r.launch(Op{Op: "unwedge"})
	r.mu.Lock()
	var lateIDs []int
	for id := range r.lateStart {
		lateIDs = append(lateIDs, id)
	}
	r.mu.Unlock()
	r.launch(Op{Op: "recvstart", Calls: lateIDs})
	if r.stopC != nil {
		// the context eventually runs its callbacks
		r.stopC.runAfterFuncs()
	}
	if !h.Quiesce(r.activity, 10*time.Second) {
		res.Settled = false
		res.Note += " final-quiesce-timeout"
	}
	r.observe()
	r.ev(h.Ev{"ev": "settle", "a": boolInt(res.Settled)})
	r.finished.Store(true)
	// Tear down: release blocked callers and workers that a violated schedule may have stranded.
	r.mu.Lock()
	for _, cancel := range r.callCtx {
		cancel()
	}
	r.mu.Unlock()
	done := make(chan struct{})
	go func() {
		ctx, cancel := context.WithTimeout(context.Background(), 200*time.Millisecond)
		defer cancel()
		r.engine.Stop(ctx)
		close(done)
	}()
	select {
	case <-done:
	case <-time.After(3 * time.Second):
	}
	// No goroutine of this engine may survive into the next trace.
	if !h.WaitNoFrames([]string{"bloomsearch.(*BloomSearchEngine).ingestWorker", "bloomsearch.(*BloomSearchEngine).flushWorker",
		"bloomsearch.(*BloomSearchEngine).Stop(", "bloomsearch.(*BloomSearchEngine).IngestRows("}, 5*time.Second) {
		res.Note += " leftover-engine-goroutines"
		res.Leftover = true
	}
	r.dead.Store(true)
	r.mu.Lock()
	res.Points = r.points
	r.mu.Unlock()
	res.Infeasible = r.infeasible
	return res
}

// shapeOf computes the per-partition (rows, uncompressed bytes) a rows batch
// adds to the ingest buffer: what the limit checks of C10 are stated over.
func (r *run) shapeOf(c Call, pf bs.PartitionFunc) []map[string]int {
	out := []map[string]int{}
	if c.Kind != "rows" {
		return out
	}
	idx := map[string]int{}
	for _, row := range r.rowsFor(c) {
		part := ""
		if pf != nil {
			part = pf(row)
		}
		i, ok := idx[part]
		if !ok {
			i = len(out)
			idx[part] = i
			out = append(out, map[string]int{"r": 0, "y": 0})
		}
		b, err := json.Marshal(row)
		h.Must(err, "marshal row")
		out[i]["r"]++
		out[i]["y"] += len(b) + 4
	}
	return out
}

func boolInt(b bool) int {
	if b {
		return 1
	}
	return 0
}

// settle waits for quiescence, observes, and releases delayed goroutines one
// at a time (oldest first) until nothing is parked.
func (r *run) settle(res *Result) bool {
	for iter := 0; iter < 10000; iter++ {
		if !h.Quiesce(r.activity, 10*time.Second) {
			res.Settled = false
			res.Note += " quiesce-timeout"
			return false
		}
		r.observe()
		if r.strict {
			if !r.strictStep() {
				return true
			}
			continue
		}
		if !r.gates.Release("*", "*") {
			return true
		}
	}
	res.Settled = false
	res.Note += " settle-loop-bound"
	return false
}

// strictStep releases the goroutine the script names next; reports false when
// the script is exhausted or cannot proceed (infeasible on this build).
func (r *run) strictStep() bool {
	parked := r.gates.Parked()
	if len(parked) == 0 {
		return false
	}
	for r.scriptPos < len(r.script) {
		want := r.script[r.scriptPos]
		for _, p := range parked {
			if p == want {
				parts := strings.SplitN(p, "|", 2)
				r.scriptPos++
				r.gates.Release(parts[0], parts[1])
				return true
			}
		}
		// the script's next step is not available: infeasible from here on
		r.infeasible = true
		r.ev(h.Ev{"ev": "infeasible", "name": want})
		break
	}
	// release the oldest parked goroutine to drain the run
	parts := strings.SplitN(parked[0], "|", 2)
	r.gates.Release(parts[0], parts[1])
	return true
}
