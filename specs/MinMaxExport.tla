---------------------------- MODULE MinMaxExport ----------------------------
EXTENDS MinMax
VARIABLE x
XInit == x = 0 /\ Init /\ PrintT(<<"MINMAX", ToJson(Export)>>)
XNext == FALSE /\ x' = x /\ UNCHANGED vars
=============================================================================
