SPECIFICATION Spec
CONSTANTS
  NAtoms = 3
  KeepEarlier = TRUE
  Mode = "chain"
INVARIANTS BuilderMeansConjunction
CHECK_DEADLOCK FALSE
