---------------------------- MODULE CoverMonitor ----------------------------
(***************************************************************************)
(* Judges cmd/cover: catalogue documents stored as they are (no unique     *)
(* member, partitioned by the shape of the row), flushed and merged, every  *)
(* block read back. The entries SearchCatalog.tla assigns to a block's rows  *)
(* must all be in the block's filters and in its file's filters (C18).      *)
(***************************************************************************)
EXTENDS Integers, Sequences, FiniteSets, TLC, Json

CONSTANT ObsFile
Obs == ndJsonDeserialize(ObsFile)
NObs == Len(Obs)
VARIABLES l, viol
vars == << l, viol >>

C18_BlockFiltersCover(o) == \A b \in 1..Len(o.blocks) : o.blocks[b].missb = 0
C18_FileFiltersCover(o) == \A b \in 1..Len(o.blocks) : o.blocks[b].missf = 0
\* (C11, seen here as well: what was stored is what was sent, merges included)
C11_BagUnchanged(o) == o.stored = o.wanted /\ \A b \in 1..Len(o.blocks) : o.blocks[b].unknown = 0
C11_MergeSucceeds(o) == o.merge_ok
\* entry probes (as in SearchMonitor.tla): the one-leaf query for an entry a filter denied must still return every stored row carrying it
C01_EntryProbesComplete(o) == o.probe_lost = 0
C11_EntryProbesAfterMerge(o) == o.merges > 0 => o.probe_lost = 0
C27_Silent(o) == o.stdio = 0

Props(o) ==
  [ C18_BlockFiltersCover |-> C18_BlockFiltersCover(o), C18_FileFiltersCover |-> C18_FileFiltersCover(o),
    C01_EntryProbesComplete |-> C01_EntryProbesComplete(o), C11_EntryProbesAfterMerge |-> C11_EntryProbesAfterMerge(o),
    C11_BagUnchanged |-> C11_BagUnchanged(o), C11_MergeSucceeds |-> C11_MergeSucceeds(o), C27_Silent |-> C27_Silent(o) ]

Init == l = 1 /\ viol = {}
Next == /\ l <= NObs
        /\ LET o == Obs[l] pr == Props(o) IN
             viol' = viol \cup { [p |-> n, id |-> o.id] : n \in { x \in DOMAIN pr : ~pr[x] } }
        /\ l' = l + 1
Spec == Init /\ [][Next]_vars
Report == (l = NObs + 1) => PrintT(<<"MONITOR-REPORT", ToJson([events |-> NObs, violations |-> viol])>>)
Count(P(_)) == Cardinality({ i \in 1..NObs : P(Obs[i]) })
Stats == (l = NObs + 1) => PrintT(<<"MONITOR-STATS", ToJson([
    scenarios |-> NObs, merged |-> Count(LAMBDA o : o.merges > 0), partitioned_by_shape |-> Count(LAMBDA o : o.part # "none"),
    several_blocks |-> Count(LAMBDA o : Len(o.blocks) > 1) ])>>)
AllConsumed == TLCGet("stats").diameter = NObs + 1
=============================================================================
