--------------------------- MODULE SearchCatalog ---------------------------
(***************************************************************************)
(* The finite catalogue of abstract documents the search families draw     *)
(* from, and its export for the Go harness (which concretizes the abstract *)
(* segments / word ids into real JSON and never interprets them).  The     *)
(* expected bloom entries of every document (Paths / Tokens / FieldTokens  *)
(* under both tokenizers) are computed HERE, by the specification.         *)
(***************************************************************************)
EXTENDS Search, Json

A == <<"a">>
Bk == <<"b">>
C == <<"c">>
AB == <<"a", "b">>      \* the single key "a.b"
M == <<"m">>            \* a key full of gjson metacharacters
U == <<"u">>            \* a non-ASCII key
E == <<"e">>            \* the empty key ""
EE == <<"e", "e">>      \* the key "."
AE == <<"a", "e">>      \* the key "a."
ABC == <<"a", "b", "c">> \* the single key "a.b.c"
UMB == <<"u", "m", "b">> \* the single key "<unicode>.<metachars>.b"

Docs == <<
  (* 1 *) Obj(<<Mem(A, Str(<<"w1", "w2">>))>>),
  (* 2 *) Obj(<<Mem(A, Obj(<<Mem(Bk, Str(<<"w1">>))>>))>>),
  (* 3 *) Obj(<<Mem(AB, Str(<<"w1">>))>>),
  (* 4 *) Obj(<<Mem(A, Arr(<<Str(<<"w1">>), Str(<<"w3">>)>>)), Mem(Bk, Num("n7"))>>),
  (* 5 *) Obj(<<Mem(A, Arr(<<Obj(<<Mem(Bk, Str(<<"w2">>))>>), Str(<<"w1">>)>>))>>),
  (* 6 *) Obj(<<Mem(E, Str(<<"w4">>)), Mem(Bk, Str(<<"w2">>))>>),
  (* 7 *) Obj(<<Mem(M, Str(<<"w1">>)), Mem(U, Str(<<"w3", "w1">>))>>),
  (* 8 *) Obj(<<Mem(A, Null), Mem(Bk, Bool(TRUE))>>),
  (* 9 *) Obj(<<Mem(A, Obj(<<Mem(Bk, Obj(<<Mem(C, Str(<<"w2">>))>>))>>)), Mem(C, Bool(FALSE))>>),
  (* 10 *) Obj(<<Mem(A, Str(<<>>)), Mem(Bk, Str(<<"w1">>))>>),
  (* 11 *) Obj(<<Mem(Bk, Num("nbig")), Mem(A, Arr(<<Num("n7"), Str(<<"w2">>)>>))>>),
  (* 12 *) Obj(<<Mem(EE, Str(<<"w1">>))>>),
  (* 13 *) Obj(<<Mem(A, Obj(<<Mem(E, Str(<<"w3">>))>>))>>),
  (* 14 *) Obj(<<Mem(A, Obj(<<>>)), Mem(Bk, Arr(<<>>))>>),
  (* 15 *) Obj(<<Mem(AB, Obj(<<Mem(C, Num("nfrac"))>>)), Mem(A, Obj(<<Mem(C, Str(<<"w4", "w4">>))>>))>>),
  (* 16 *) Obj(<<Mem(C, Arr(<<Arr(<<Str(<<"w2", "w3">>)>>), Null, Bool(TRUE)>>)), Mem(U, Num("nexp"))>>),
  (* 17 *) Obj(<<Mem(AE, Str(<<"w2">>)), Mem(M, Obj(<<Mem(U, Str(<<"w4">>))>>))>>),
  (* 18 *) Obj(<<Mem(Bk, Str(<<"w1", "w1", "w2">>)), Mem(C, Str(<<"w3">>))>>),
  (* 19 *) Obj(<<Mem(ABC, Str(<<"w1">>))>>),
  (* 20 *) Obj(<<Mem(C, Obj(<<Mem(ABC, Str(<<"w2", "w4">>))>>)), Mem(UMB, Num("n7"))>>),
  (* 21 *) Obj(<<Mem(Bk, Arr(<<Obj(<<Mem(ABC, Bool(TRUE))>>), Obj(<<Mem(AB, Null)>>)>>))>>)
>>

\* The members the harness adds to every stored row: a unique id, its
\* partition (when it has one) and its minmax values (when present).
PartWord(p) == <<"p1", "p2", "p3">>[p]
ValLit(x) == <<"i0", "i1", "i2", "i3", "i4", "i5", "i6", "i7", "i8", "i9">>[x + 1]
RowDoc(row) ==
  Obj(Docs[row.doc].m
      \o <<Mem(<<"id">>, Str(<<row.id>>))>>
      \o (IF row.part # 0 THEN <<Mem(<<"p">>, Str(<<PartWord(row.part)>>))>> ELSE <<>>)
      \o (IF "k1" \in DOMAIN row.vals /\ row.vals["k1"] # -1 THEN <<Mem(<<"k1">>, Num(ValLit(row.vals["k1"])))>> ELSE <<>>)
      \o (IF "k2" \in DOMAIN row.vals /\ row.vals["k2"] # -1 THEN <<Mem(<<"k2">>, Num(ValLit(row.vals["k2"])))>> ELSE <<>>))

SetToSeq(S) == LET RECURSIVE F(_) F(T) == IF T = {} THEN <<>> ELSE LET x == CHOOSE y \in T : TRUE IN <<x>> \o F(T \ {x}) IN F(S)

Export ==
  [ docs |-> Docs,
    entries |-> [i \in 1..Len(Docs) |->
        [ paths |-> SetToSeq(Paths(Docs[i])),
          tokens_ws |-> SetToSeq(Tokens(Docs[i], "ws")),
          tokens_whole |-> SetToSeq(Tokens(Docs[i], "whole")),
          ft_ws |-> SetToSeq(FieldTokens(Docs[i], "ws")),
          ft_whole |-> SetToSeq(FieldTokens(Docs[i], "whole")) ]] ]
=============================================================================
