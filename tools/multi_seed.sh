#!/bin/sh
# usage: tools/multi_seed.sh <seed>...   runs every quick check with each seed on the unchanged tree; prints one line per check
cd "$(dirname "$0")/.."
bin/setup >/dev/null 2>&1 || { echo "setup failed"; exit 2; }
python3 -c "
import json
for c in json.load(open('MANIFEST.json'))['checks']: print(c['property_id'])" > /tmp/.props.$$
for seed in "$@"; do
  for p in $(cat /tmp/.props.$$); do
    s=$(date +%s)
    r=$(VERIF_SEED=$seed bin/check $p --tier quick 2>&1 | grep -E "^(OK|VIOLATION|INFRA|KNOWN|DRIFT)" | head -4 | cut -c1-140 | tr '\n' '|')
    echo "seed=$seed $p $(( $(date +%s) - s ))s :: $r"
  done
done
rm -f /tmp/.props.$$
echo ALLDONE
