---- MODULE MCWritePath_TTrace_1790036084 ----
EXTENDS MCWritePath, Sequences, TLCExt, Toolbox, Naturals, TLC

_expression ==
    LET MCWritePath_TEExpression == INSTANCE MCWritePath_TEExpression
    IN MCWritePath_TEExpression!expression
----

_trace ==
    LET MCWritePath_TETrace == INSTANCE MCWritePath_TETrace
    IN MCWritePath_TETrace!trace
----

_inv ==
    ~(
        TLCGet("level") = Len(_TETrace)
        /\
        fstage = ("none")
        /\
        flate = (FALSE)
        /\
        freq = ([rows |-> {}, w |-> <<>>])
        /\
        answers = (<<<<>>, <<>>, <<>>>>)
        /\
        fch = (<<>>)
        /\
        fval = ("nil")
        /\
        fret = ("idle")
        /\
        faults = (1)
        /\
        aret = ("idle")
        /\
        ich = (<<>>)
        /\
        act = ([b |-> 0, n |-> "flusher.exit"])
        /\
        nfile = (0)
        /\
        apc = ("done")
        /\
        cpc = (<<"idle", "done", "idle">>)
        /\
        waiters = (<<>>)
        /\
        fpc = ("done")
        /\
        deadline = ("fired")
        /\
        lateCreates = (0)
        /\
        stopped = (TRUE)
        /\
        spc = ("ret_deadline")
        /\
        started = (TRUE)
        /\
        bctx = (TRUE)
        /\
        fctx = (TRUE)
        /\
        ffile = (0)
        /\
        areq = ([rows |-> {}, w |-> <<>>])
        /\
        wedges = (1)
        /\
        buf = ({})
        /\
        cres = (<<"none", "nil", "none">>)
        /\
        readers = ({})
        /\
        meta = ({})
        /\
        wWaiting = (FALSE)
        /\
        fidx = (0)
        /\
        accSeq = (<<2>>)
        /\
        files = (<<[rows |-> {}, st |-> "none"], [rows |-> {}, st |-> "none"], [rows |-> {}, st |-> "none"], [rows |-> {}, st |-> "none"]>>)
        /\
        creates = (0)
        /\
        afRan = (FALSE)
        /\
        lateOn = ({})
        /\
        wedged = (FALSE)
    )
----

_init ==
    /\ fctx = _TETrace[1].fctx
    /\ wedged = _TETrace[1].wedged
    /\ wedges = _TETrace[1].wedges
    /\ cres = _TETrace[1].cres
    /\ waiters = _TETrace[1].waiters
    /\ fval = _TETrace[1].fval
    /\ ffile = _TETrace[1].ffile
    /\ afRan = _TETrace[1].afRan
    /\ readers = _TETrace[1].readers
    /\ accSeq = _TETrace[1].accSeq
    /\ fch = _TETrace[1].fch
    /\ stopped = _TETrace[1].stopped
    /\ wWaiting = _TETrace[1].wWaiting
    /\ fpc = _TETrace[1].fpc
    /\ nfile = _TETrace[1].nfile
    /\ faults = _TETrace[1].faults
    /\ flate = _TETrace[1].flate
    /\ freq = _TETrace[1].freq
    /\ fret = _TETrace[1].fret
    /\ answers = _TETrace[1].answers
    /\ meta = _TETrace[1].meta
    /\ files = _TETrace[1].files
    /\ lateOn = _TETrace[1].lateOn
    /\ areq = _TETrace[1].areq
    /\ aret = _TETrace[1].aret
    /\ buf = _TETrace[1].buf
    /\ deadline = _TETrace[1].deadline
    /\ act = _TETrace[1].act
    /\ apc = _TETrace[1].apc
    /\ cpc = _TETrace[1].cpc
    /\ ich = _TETrace[1].ich
    /\ fidx = _TETrace[1].fidx
    /\ creates = _TETrace[1].creates
    /\ bctx = _TETrace[1].bctx
    /\ spc = _TETrace[1].spc
    /\ started = _TETrace[1].started
    /\ lateCreates = _TETrace[1].lateCreates
    /\ fstage = _TETrace[1].fstage
----

_next ==
    /\ \E i,j \in DOMAIN _TETrace:
        /\ \/ /\ j = i + 1
              /\ i = TLCGet("level")
        /\ fctx  = _TETrace[i].fctx
        /\ fctx' = _TETrace[j].fctx
        /\ wedged  = _TETrace[i].wedged
        /\ wedged' = _TETrace[j].wedged
        /\ wedges  = _TETrace[i].wedges
        /\ wedges' = _TETrace[j].wedges
        /\ cres  = _TETrace[i].cres
        /\ cres' = _TETrace[j].cres
        /\ waiters  = _TETrace[i].waiters
        /\ waiters' = _TETrace[j].waiters
        /\ fval  = _TETrace[i].fval
        /\ fval' = _TETrace[j].fval
        /\ ffile  = _TETrace[i].ffile
        /\ ffile' = _TETrace[j].ffile
        /\ afRan  = _TETrace[i].afRan
        /\ afRan' = _TETrace[j].afRan
        /\ readers  = _TETrace[i].readers
        /\ readers' = _TETrace[j].readers
        /\ accSeq  = _TETrace[i].accSeq
        /\ accSeq' = _TETrace[j].accSeq
        /\ fch  = _TETrace[i].fch
        /\ fch' = _TETrace[j].fch
        /\ stopped  = _TETrace[i].stopped
        /\ stopped' = _TETrace[j].stopped
        /\ wWaiting  = _TETrace[i].wWaiting
        /\ wWaiting' = _TETrace[j].wWaiting
        /\ fpc  = _TETrace[i].fpc
        /\ fpc' = _TETrace[j].fpc
        /\ nfile  = _TETrace[i].nfile
        /\ nfile' = _TETrace[j].nfile
        /\ faults  = _TETrace[i].faults
        /\ faults' = _TETrace[j].faults
        /\ flate  = _TETrace[i].flate
        /\ flate' = _TETrace[j].flate
        /\ freq  = _TETrace[i].freq
        /\ freq' = _TETrace[j].freq
        /\ fret  = _TETrace[i].fret
        /\ fret' = _TETrace[j].fret
        /\ answers  = _TETrace[i].answers
        /\ answers' = _TETrace[j].answers
        /\ meta  = _TETrace[i].meta
        /\ meta' = _TETrace[j].meta
        /\ files  = _TETrace[i].files
        /\ files' = _TETrace[j].files
        /\ lateOn  = _TETrace[i].lateOn
        /\ lateOn' = _TETrace[j].lateOn
        /\ areq  = _TETrace[i].areq
        /\ areq' = _TETrace[j].areq
        /\ aret  = _TETrace[i].aret
        /\ aret' = _TETrace[j].aret
        /\ buf  = _TETrace[i].buf
        /\ buf' = _TETrace[j].buf
        /\ deadline  = _TETrace[i].deadline
        /\ deadline' = _TETrace[j].deadline
        /\ act  = _TETrace[i].act
        /\ act' = _TETrace[j].act
        /\ apc  = _TETrace[i].apc
        /\ apc' = _TETrace[j].apc
        /\ cpc  = _TETrace[i].cpc
        /\ cpc' = _TETrace[j].cpc
        /\ ich  = _TETrace[i].ich
        /\ ich' = _TETrace[j].ich
        /\ fidx  = _TETrace[i].fidx
        /\ fidx' = _TETrace[j].fidx
        /\ creates  = _TETrace[i].creates
        /\ creates' = _TETrace[j].creates
        /\ bctx  = _TETrace[i].bctx
        /\ bctx' = _TETrace[j].bctx
        /\ spc  = _TETrace[i].spc
        /\ spc' = _TETrace[j].spc
        /\ started  = _TETrace[i].started
        /\ started' = _TETrace[j].started
        /\ lateCreates  = _TETrace[i].lateCreates
        /\ lateCreates' = _TETrace[j].lateCreates
        /\ fstage  = _TETrace[i].fstage
        /\ fstage' = _TETrace[j].fstage

\* Uncomment the ASSUME below to write the states of the error trace
\* to the given file in Json format. Note that you can pass any tuple
\* to `JsonSerialize`. For example, a sub-sequence of _TETrace.
    \* ASSUME
    \*     LET J == INSTANCE Json
    \*         IN J!JsonSerialize("MCWritePath_TTrace_1790036084.json", _TETrace)

=============================================================================

 Note that you can extract this module `MCWritePath_TEExpression`
  to a dedicated file to reuse `expression` (the module in the 
  dedicated `MCWritePath_TEExpression.tla` file takes precedence 
  over the module `MCWritePath_TEExpression` below).

---- MODULE MCWritePath_TEExpression ----
EXTENDS MCWritePath, Sequences, TLCExt, Toolbox, Naturals, TLC

expression == 
    [
        \* To hide variables of the `MCWritePath` spec from the error trace,
        \* remove the variables below.  The trace will be written in the order
        \* of the fields of this record.
        fctx |-> fctx
        ,wedged |-> wedged
        ,wedges |-> wedges
        ,cres |-> cres
        ,waiters |-> waiters
        ,fval |-> fval
        ,ffile |-> ffile
        ,afRan |-> afRan
        ,readers |-> readers
        ,accSeq |-> accSeq
        ,fch |-> fch
        ,stopped |-> stopped
        ,wWaiting |-> wWaiting
        ,fpc |-> fpc
        ,nfile |-> nfile
        ,faults |-> faults
        ,flate |-> flate
        ,freq |-> freq
        ,fret |-> fret
        ,answers |-> answers
        ,meta |-> meta
        ,files |-> files
        ,lateOn |-> lateOn
        ,areq |-> areq
        ,aret |-> aret
        ,buf |-> buf
        ,deadline |-> deadline
        ,act |-> act
        ,apc |-> apc
        ,cpc |-> cpc
        ,ich |-> ich
        ,fidx |-> fidx
        ,creates |-> creates
        ,bctx |-> bctx
        ,spc |-> spc
        ,started |-> started
        ,lateCreates |-> lateCreates
        ,fstage |-> fstage
        
        \* Put additional constant-, state-, and action-level expressions here:
        \* ,_stateNumber |-> _TEPosition
        \* ,_fctxUnchanged |-> fctx = fctx'
        
        \* Format the `fctx` variable as Json value.
        \* ,_fctxJson |->
        \*     LET J == INSTANCE Json
        \*     IN J!ToJson(fctx)
        
        \* Lastly, you may build expressions over arbitrary sets of states by
        \* leveraging the _TETrace operator.  For example, this is how to
        \* count the number of times a spec variable changed up to the current
        \* state in the trace.
        \* ,_fctxModCount |->
        \*     LET F[s \in DOMAIN _TETrace] ==
        \*         IF s = 1 THEN 0
        \*         ELSE IF _TETrace[s].fctx # _TETrace[s-1].fctx
        \*             THEN 1 + F[s-1] ELSE F[s-1]
        \*     IN F[_TEPosition - 1]
    ]

=============================================================================



Parsing and semantic processing can take forever if the trace below is long.
 In this case, it is advised to uncomment the module below to deserialize the
 trace from a generated binary file.

\*
\*---- MODULE MCWritePath_TETrace ----
\*EXTENDS MCWritePath, IOUtils, TLC
\*
\*trace == IODeserialize("MCWritePath_TTrace_1790036084.bin", TRUE)
\*
\*=============================================================================
\*

---- MODULE MCWritePath_TETrace ----
EXTENDS MCWritePath, TLC

trace == 
    <<
    ([fstage |-> "none",flate |-> FALSE,freq |-> [rows |-> {}, w |-> <<>>],answers |-> <<<<>>, <<>>, <<>>>>,fch |-> <<>>,fval |-> "nil",fret |-> "idle",faults |-> 1,aret |-> "idle",ich |-> <<>>,act |-> [b |-> 0, n |-> "init"],nfile |-> 0,apc |-> "notstarted",cpc |-> <<"idle", "idle", "idle">>,waiters |-> <<>>,fpc |-> "notstarted",deadline |-> "pending",lateCreates |-> 0,stopped |-> FALSE,spc |-> "none",started |-> FALSE,bctx |-> FALSE,fctx |-> FALSE,ffile |-> 0,areq |-> [rows |-> {}, w |-> <<>>],wedges |-> 1,buf |-> {},cres |-> <<"none", "none", "none">>,readers |-> {},meta |-> {},wWaiting |-> FALSE,fidx |-> 0,accSeq |-> <<>>,files |-> <<[rows |-> {}, st |-> "none"], [rows |-> {}, st |-> "none"], [rows |-> {}, st |-> "none"], [rows |-> {}, st |-> "none"]>>,creates |-> 0,afRan |-> FALSE,lateOn |-> {},wedged |-> FALSE]),
    ([fstage |-> "none",flate |-> FALSE,freq |-> [rows |-> {}, w |-> <<>>],answers |-> <<<<>>, <<>>, <<>>>>,fch |-> <<>>,fval |-> "nil",fret |-> "idle",faults |-> 1,aret |-> "idle",ich |-> <<>>,act |-> [b |-> 2, n |-> "ingest.checked"],nfile |-> 0,apc |-> "notstarted",cpc |-> <<"idle", "checked", "idle">>,waiters |-> <<>>,fpc |-> "notstarted",deadline |-> "pending",lateCreates |-> 0,stopped |-> FALSE,spc |-> "none",started |-> FALSE,bctx |-> FALSE,fctx |-> FALSE,ffile |-> 0,areq |-> [rows |-> {}, w |-> <<>>],wedges |-> 1,buf |-> {},cres |-> <<"none", "none", "none">>,readers |-> {2},meta |-> {},wWaiting |-> FALSE,fidx |-> 0,accSeq |-> <<>>,files |-> <<[rows |-> {}, st |-> "none"], [rows |-> {}, st |-> "none"], [rows |-> {}, st |-> "none"], [rows |-> {}, st |-> "none"]>>,creates |-> 0,afRan |-> FALSE,lateOn |-> {},wedged |-> FALSE]),
    ([fstage |-> "none",flate |-> FALSE,freq |-> [rows |-> {}, w |-> <<>>],answers |-> <<<<>>, <<>>, <<>>>>,fch |-> <<>>,fval |-> "nil",fret |-> "idle",faults |-> 1,aret |-> "idle",ich |-> <<2>>,act |-> [b |-> 2, n |-> "ingest.sent"],nfile |-> 0,apc |-> "notstarted",cpc |-> <<"idle", "done", "idle">>,waiters |-> <<>>,fpc |-> "notstarted",deadline |-> "pending",lateCreates |-> 0,stopped |-> FALSE,spc |-> "none",started |-> FALSE,bctx |-> FALSE,fctx |-> FALSE,ffile |-> 0,areq |-> [rows |-> {}, w |-> <<>>],wedges |-> 1,buf |-> {},cres |-> <<"none", "nil", "none">>,readers |-> {},meta |-> {},wWaiting |-> FALSE,fidx |-> 0,accSeq |-> <<2>>,files |-> <<[rows |-> {}, st |-> "none"], [rows |-> {}, st |-> "none"], [rows |-> {}, st |-> "none"], [rows |-> {}, st |-> "none"]>>,creates |-> 0,afRan |-> FALSE,lateOn |-> {},wedged |-> FALSE]),
    ([fstage |-> "none",flate |-> FALSE,freq |-> [rows |-> {}, w |-> <<>>],answers |-> <<<<>>, <<>>, <<>>>>,fch |-> <<>>,fval |-> "nil",fret |-> "idle",faults |-> 1,aret |-> "idle",ich |-> <<2>>,act |-> [b |-> 0, n |-> "stop.armed"],nfile |-> 0,apc |-> "notstarted",cpc |-> <<"idle", "done", "idle">>,waiters |-> <<>>,fpc |-> "notstarted",deadline |-> "pending",lateCreates |-> 0,stopped |-> FALSE,spc |-> "armed",started |-> FALSE,bctx |-> FALSE,fctx |-> FALSE,ffile |-> 0,areq |-> [rows |-> {}, w |-> <<>>],wedges |-> 1,buf |-> {},cres |-> <<"none", "nil", "none">>,readers |-> {},meta |-> {},wWaiting |-> FALSE,fidx |-> 0,accSeq |-> <<2>>,files |-> <<[rows |-> {}, st |-> "none"], [rows |-> {}, st |-> "none"], [rows |-> {}, st |-> "none"], [rows |-> {}, st |-> "none"]>>,creates |-> 0,afRan |-> FALSE,lateOn |-> {},wedged |-> FALSE]),
    ([fstage |-> "none",flate |-> FALSE,freq |-> [rows |-> {}, w |-> <<>>],answers |-> <<<<>>, <<>>, <<>>>>,fch |-> <<>>,fval |-> "nil",fret |-> "idle",faults |-> 1,aret |-> "idle",ich |-> <<2>>,act |-> [b |-> 0, n |-> "stop.lockreq"],nfile |-> 0,apc |-> "notstarted",cpc |-> <<"idle", "done", "idle">>,waiters |-> <<>>,fpc |-> "notstarted",deadline |-> "pending",lateCreates |-> 0,stopped |-> FALSE,spc |-> "waitlock",started |-> FALSE,bctx |-> FALSE,fctx |-> FALSE,ffile |-> 0,areq |-> [rows |-> {}, w |-> <<>>],wedges |-> 1,buf |-> {},cres |-> <<"none", "nil", "none">>,readers |-> {},meta |-> {},wWaiting |-> TRUE,fidx |-> 0,accSeq |-> <<2>>,files |-> <<[rows |-> {}, st |-> "none"], [rows |-> {}, st |-> "none"], [rows |-> {}, st |-> "none"], [rows |-> {}, st |-> "none"]>>,creates |-> 0,afRan |-> FALSE,lateOn |-> {},wedged |-> FALSE]),
    ([fstage |-> "none",flate |-> FALSE,freq |-> [rows |-> {}, w |-> <<>>],answers |-> <<<<>>, <<>>, <<>>>>,fch |-> <<>>,fval |-> "nil",fret |-> "idle",faults |-> 1,aret |-> "idle",ich |-> <<2>>,act |-> [b |-> 0, n |-> "stop.flagged"],nfile |-> 0,apc |-> "idle",cpc |-> <<"idle", "done", "idle">>,waiters |-> <<>>,fpc |-> "idle",deadline |-> "pending",lateCreates |-> 0,stopped |-> TRUE,spc |-> "flagged",started |-> TRUE,bctx |-> FALSE,fctx |-> FALSE,ffile |-> 0,areq |-> [rows |-> {}, w |-> <<>>],wedges |-> 1,buf |-> {},cres |-> <<"none", "nil", "none">>,readers |-> {},meta |-> {},wWaiting |-> FALSE,fidx |-> 0,accSeq |-> <<2>>,files |-> <<[rows |-> {}, st |-> "none"], [rows |-> {}, st |-> "none"], [rows |-> {}, st |-> "none"], [rows |-> {}, st |-> "none"]>>,creates |-> 0,afRan |-> FALSE,lateOn |-> {},wedged |-> FALSE]),
    ([fstage |-> "none",flate |-> FALSE,freq |-> [rows |-> {}, w |-> <<>>],answers |-> <<<<>>, <<>>, <<>>>>,fch |-> <<>>,fval |-> "nil",fret |-> "idle",faults |-> 1,aret |-> "idle",ich |-> <<>>,act |-> [b |-> 2, n |-> "actor.recv"],nfile |-> 0,apc |-> "directack",cpc |-> <<"idle", "done", "idle">>,waiters |-> <<>>,fpc |-> "idle",deadline |-> "pending",lateCreates |-> 0,stopped |-> TRUE,spc |-> "flagged",started |-> TRUE,bctx |-> FALSE,fctx |-> FALSE,ffile |-> 0,areq |-> [rows |-> {}, w |-> <<2>>],wedges |-> 1,buf |-> {},cres |-> <<"none", "nil", "none">>,readers |-> {},meta |-> {},wWaiting |-> FALSE,fidx |-> 0,accSeq |-> <<2>>,files |-> <<[rows |-> {}, st |-> "none"], [rows |-> {}, st |-> "none"], [rows |-> {}, st |-> "none"], [rows |-> {}, st |-> "none"]>>,creates |-> 0,afRan |-> FALSE,lateOn |-> {},wedged |-> FALSE]),
    ([fstage |-> "none",flate |-> FALSE,freq |-> [rows |-> {}, w |-> <<>>],answers |-> <<<<>>, <<>>, <<>>>>,fch |-> <<>>,fval |-> "nil",fret |-> "idle",faults |-> 1,aret |-> "idle",ich |-> <<>>,act |-> [b |-> 0, n |-> "stop.canceled"],nfile |-> 0,apc |-> "directack",cpc |-> <<"idle", "done", "idle">>,waiters |-> <<>>,fpc |-> "idle",deadline |-> "pending",lateCreates |-> 0,stopped |-> TRUE,spc |-> "waiting",started |-> TRUE,bctx |-> TRUE,fctx |-> FALSE,ffile |-> 0,areq |-> [rows |-> {}, w |-> <<2>>],wedges |-> 1,buf |-> {},cres |-> <<"none", "nil", "none">>,readers |-> {},meta |-> {},wWaiting |-> FALSE,fidx |-> 0,accSeq |-> <<2>>,files |-> <<[rows |-> {}, st |-> "none"], [rows |-> {}, st |-> "none"], [rows |-> {}, st |-> "none"], [rows |-> {}, st |-> "none"]>>,creates |-> 0,afRan |-> FALSE,lateOn |-> {},wedged |-> FALSE]),
    ([fstage |-> "none",flate |-> FALSE,freq |-> [rows |-> {}, w |-> <<>>],answers |-> <<<<>>, <<>>, <<>>>>,fch |-> <<>>,fval |-> "nil",fret |-> "idle",faults |-> 1,aret |-> "idle",ich |-> <<>>,act |-> [b |-> 0, n |-> "flusher.shutdown"],nfile |-> 0,apc |-> "directack",cpc |-> <<"idle", "done", "idle">>,waiters |-> <<>>,fpc |-> "shut",deadline |-> "pending",lateCreates |-> 0,stopped |-> TRUE,spc |-> "waiting",started |-> TRUE,bctx |-> TRUE,fctx |-> FALSE,ffile |-> 0,areq |-> [rows |-> {}, w |-> <<2>>],wedges |-> 1,buf |-> {},cres |-> <<"none", "nil", "none">>,readers |-> {},meta |-> {},wWaiting |-> FALSE,fidx |-> 0,accSeq |-> <<2>>,files |-> <<[rows |-> {}, st |-> "none"], [rows |-> {}, st |-> "none"], [rows |-> {}, st |-> "none"], [rows |-> {}, st |-> "none"]>>,creates |-> 0,afRan |-> FALSE,lateOn |-> {},wedged |-> FALSE]),
    ([fstage |-> "none",flate |-> FALSE,freq |-> [rows |-> {}, w |-> <<>>],answers |-> <<<<>>, <<>>, <<>>>>,fch |-> <<>>,fval |-> "nil",fret |-> "idle",faults |-> 1,aret |-> "idle",ich |-> <<>>,act |-> [b |-> 0, n |-> "ctx.deadline"],nfile |-> 0,apc |-> "directack",cpc |-> <<"idle", "done", "idle">>,waiters |-> <<>>,fpc |-> "shut",deadline |-> "fired",lateCreates |-> 0,stopped |-> TRUE,spc |-> "waiting",started |-> TRUE,bctx |-> TRUE,fctx |-> FALSE,ffile |-> 0,areq |-> [rows |-> {}, w |-> <<2>>],wedges |-> 1,buf |-> {},cres |-> <<"none", "nil", "none">>,readers |-> {},meta |-> {},wWaiting |-> FALSE,fidx |-> 0,accSeq |-> <<2>>,files |-> <<[rows |-> {}, st |-> "none"], [rows |-> {}, st |-> "none"], [rows |-> {}, st |-> "none"], [rows |-> {}, st |-> "none"]>>,creates |-> 0,afRan |-> FALSE,lateOn |-> {},wedged |-> FALSE]),
    ([fstage |-> "none",flate |-> FALSE,freq |-> [rows |-> {}, w |-> <<>>],answers |-> <<<<>>, <<>>, <<>>>>,fch |-> <<>>,fval |-> "nil",fret |-> "idle",faults |-> 1,aret |-> "idle",ich |-> <<>>,act |-> [b |-> 0, n |-> "stop.ret_deadline"],nfile |-> 0,apc |-> "directack",cpc |-> <<"idle", "done", "idle">>,waiters |-> <<>>,fpc |-> "shut",deadline |-> "fired",lateCreates |-> 0,stopped |-> TRUE,spc |-> "ret_deadline",started |-> TRUE,bctx |-> TRUE,fctx |-> TRUE,ffile |-> 0,areq |-> [rows |-> {}, w |-> <<2>>],wedges |-> 1,buf |-> {},cres |-> <<"none", "nil", "none">>,readers |-> {},meta |-> {},wWaiting |-> FALSE,fidx |-> 0,accSeq |-> <<2>>,files |-> <<[rows |-> {}, st |-> "none"], [rows |-> {}, st |-> "none"], [rows |-> {}, st |-> "none"], [rows |-> {}, st |-> "none"]>>,creates |-> 0,afRan |-> FALSE,lateOn |-> {},wedged |-> FALSE]),
    ([fstage |-> "none",flate |-> FALSE,freq |-> [rows |-> {}, w |-> <<>>],answers |-> <<<<>>, <<>>, <<>>>>,fch |-> <<>>,fval |-> "nil",fret |-> "idle",faults |-> 1,aret |-> "idle",ich |-> <<>>,act |-> [b |-> 2, n |-> "actor.ack_empty"],nfile |-> 0,apc |-> "idle",cpc |-> <<"idle", "done", "idle">>,waiters |-> <<>>,fpc |-> "shut",deadline |-> "fired",lateCreates |-> 0,stopped |-> TRUE,spc |-> "ret_deadline",started |-> TRUE,bctx |-> TRUE,fctx |-> TRUE,ffile |-> 0,areq |-> [rows |-> {}, w |-> <<>>],wedges |-> 1,buf |-> {},cres |-> <<"none", "nil", "none">>,readers |-> {},meta |-> {},wWaiting |-> FALSE,fidx |-> 0,accSeq |-> <<2>>,files |-> <<[rows |-> {}, st |-> "none"], [rows |-> {}, st |-> "none"], [rows |-> {}, st |-> "none"], [rows |-> {}, st |-> "none"]>>,creates |-> 0,afRan |-> FALSE,lateOn |-> {},wedged |-> FALSE]),
    ([fstage |-> "none",flate |-> FALSE,freq |-> [rows |-> {}, w |-> <<>>],answers |-> <<<<>>, <<>>, <<>>>>,fch |-> <<>>,fval |-> "nil",fret |-> "idle",faults |-> 1,aret |-> "idle",ich |-> <<>>,act |-> [b |-> 0, n |-> "actor.ctxdone"],nfile |-> 0,apc |-> "drain",cpc |-> <<"idle", "done", "idle">>,waiters |-> <<>>,fpc |-> "shut",deadline |-> "fired",lateCreates |-> 0,stopped |-> TRUE,spc |-> "ret_deadline",started |-> TRUE,bctx |-> TRUE,fctx |-> TRUE,ffile |-> 0,areq |-> [rows |-> {}, w |-> <<>>],wedges |-> 1,buf |-> {},cres |-> <<"none", "nil", "none">>,readers |-> {},meta |-> {},wWaiting |-> FALSE,fidx |-> 0,accSeq |-> <<2>>,files |-> <<[rows |-> {}, st |-> "none"], [rows |-> {}, st |-> "none"], [rows |-> {}, st |-> "none"], [rows |-> {}, st |-> "none"]>>,creates |-> 0,afRan |-> FALSE,lateOn |-> {},wedged |-> FALSE]),
    ([fstage |-> "none",flate |-> FALSE,freq |-> [rows |-> {}, w |-> <<>>],answers |-> <<<<>>, <<>>, <<>>>>,fch |-> <<>>,fval |-> "nil",fret |-> "idle",faults |-> 1,aret |-> "idle",ich |-> <<>>,act |-> [b |-> 0, n |-> "actor.finalflush"],nfile |-> 0,apc |-> "done",cpc |-> <<"idle", "done", "idle">>,waiters |-> <<>>,fpc |-> "shut",deadline |-> "fired",lateCreates |-> 0,stopped |-> TRUE,spc |-> "ret_deadline",started |-> TRUE,bctx |-> TRUE,fctx |-> TRUE,ffile |-> 0,areq |-> [rows |-> {}, w |-> <<>>],wedges |-> 1,buf |-> {},cres |-> <<"none", "nil", "none">>,readers |-> {},meta |-> {},wWaiting |-> FALSE,fidx |-> 0,accSeq |-> <<2>>,files |-> <<[rows |-> {}, st |-> "none"], [rows |-> {}, st |-> "none"], [rows |-> {}, st |-> "none"], [rows |-> {}, st |-> "none"]>>,creates |-> 0,afRan |-> FALSE,lateOn |-> {},wedged |-> FALSE]),
    ([fstage |-> "none",flate |-> FALSE,freq |-> [rows |-> {}, w |-> <<>>],answers |-> <<<<>>, <<>>, <<>>>>,fch |-> <<>>,fval |-> "nil",fret |-> "idle",faults |-> 1,aret |-> "idle",ich |-> <<>>,act |-> [b |-> 0, n |-> "flusher.ingestdone"],nfile |-> 0,apc |-> "done",cpc |-> <<"idle", "done", "idle">>,waiters |-> <<>>,fpc |-> "drainall",deadline |-> "fired",lateCreates |-> 0,stopped |-> TRUE,spc |-> "ret_deadline",started |-> TRUE,bctx |-> TRUE,fctx |-> TRUE,ffile |-> 0,areq |-> [rows |-> {}, w |-> <<>>],wedges |-> 1,buf |-> {},cres |-> <<"none", "nil", "none">>,readers |-> {},meta |-> {},wWaiting |-> FALSE,fidx |-> 0,accSeq |-> <<2>>,files |-> <<[rows |-> {}, st |-> "none"], [rows |-> {}, st |-> "none"], [rows |-> {}, st |-> "none"], [rows |-> {}, st |-> "none"]>>,creates |-> 0,afRan |-> FALSE,lateOn |-> {},wedged |-> FALSE]),
    ([fstage |-> "none",flate |-> FALSE,freq |-> [rows |-> {}, w |-> <<>>],answers |-> <<<<>>, <<>>, <<>>>>,fch |-> <<>>,fval |-> "nil",fret |-> "idle",faults |-> 1,aret |-> "idle",ich |-> <<>>,act |-> [b |-> 0, n |-> "flusher.exit"],nfile |-> 0,apc |-> "done",cpc |-> <<"idle", "done", "idle">>,waiters |-> <<>>,fpc |-> "done",deadline |-> "fired",lateCreates |-> 0,stopped |-> TRUE,spc |-> "ret_deadline",started |-> TRUE,bctx |-> TRUE,fctx |-> TRUE,ffile |-> 0,areq |-> [rows |-> {}, w |-> <<>>],wedges |-> 1,buf |-> {},cres |-> <<"none", "nil", "none">>,readers |-> {},meta |-> {},wWaiting |-> FALSE,fidx |-> 0,accSeq |-> <<2>>,files |-> <<[rows |-> {}, st |-> "none"], [rows |-> {}, st |-> "none"], [rows |-> {}, st |-> "none"], [rows |-> {}, st |-> "none"]>>,creates |-> 0,afRan |-> FALSE,lateOn |-> {},wedged |-> FALSE])
    >>
----


=============================================================================

---- CONFIG MCWritePath_TTrace_1790036084 ----
CONSTANTS
    Batches = { 1 , 2 , 3 }
    Kind <- KindB
    Chan <- ChanB
    Prev <- PrevB
    IBS = 1
    MBR = 2
    WithStart = TRUE
    StartFirst = FALSE
    StopMode = "deadline"
    MaxFaults = 1
    MaxWedges = 1
    FixStopCancels = TRUE
    FixStopUnblocks = TRUE
    FixStopDrains = TRUE

INVARIANT
    _inv

CHECK_DEADLOCK
    \* CHECK_DEADLOCK off because of PROPERTY or INVARIANT above.
    FALSE

INIT
    _init

NEXT
    _next

CONSTANT
    _TETrace <- _trace

ALIAS
    _expression
=============================================================================
\* Generated on Tue Sep 22 00:14:46 UTC 2026