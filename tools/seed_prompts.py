#!/usr/bin/env python3
"""seed_prompts.py <property-id>... : writes /tmp/seed-prompt-<ID>.txt for a sub-agent that is to produce a seeded
change for that property. The prompt holds the property text only (nothing from /verif beyond properties.jsonl) plus
one-line descriptions of the changes already kept under seeded/ for it, so that the agent picks another mechanism.
Create the agent's worktree with: git -C /repo worktree add --detach /tmp/seed-<ID> HEAD"""
import glob, json, os, sys
V = os.path.dirname(os.path.dirname(os.path.abspath(__file__)))
props = {json.loads(l)["id"]: json.loads(l) for l in open(os.path.join(V, "properties.jsonl"))}
have = {}
for m in sorted(glob.glob(os.path.join(V, "seeded", "*", "meta.json"))):
    d = json.load(open(m))
    have.setdefault(d["property"], []).append(d["what"])
extra = {}
if os.path.exists("/tmp/seed-extra.json"):
    extra = json.load(open("/tmp/seed-extra.json"))
for pid in sys.argv[1:]:
    p = props[pid]
    wt = "/tmp/seed-%s" % pid
    a = p.get("anchors", {})
    mech = "; ".join("%s (%s)" % (m["name"], m["where"]) for m in a.get("mechanism", []))
    prev = have.get(pid, []) + extra.get(pid, [])
    txt = """You are helping evaluate a verification effort by producing a realistic, subtle regression ("seeded change") in the Go library danthegoodman1/bloomsearch (a keyword search engine storing JSON rows in a custom block file format with bloom filters, minmax prefilters, async ingest/flush and file merging).

Work ONLY inside your own scratch git worktree: %(wt)s (a detached worktree of the repository). Never touch /repo or /verif, and do not read anything under /verif. Environment for every shell command: `export GOFLAGS=-mod=mod GOPROXY=off` (no network; do NOT set GOSUMDB or GOTOOLCHAIN). Run the existing tests with: `cd %(wt)s && go test -vet=off -count=1 -timeout 25m ./...` (takes ~10 s once built; first build ~30 s).

The semantic property to break:

%(id)s — %(title)s

Statement: %(statement)s

Quantified over: %(quant)s

Why the existing tests cannot settle it: %(why)s

Code anchors: files %(files)s; mechanisms: %(mech)s

""" % dict(wt=wt, id=pid, title=p["title"], statement=p["statement"], quant=p["quantifier"]["text"], why=p["why_tests_cant"],
           files=", ".join(a.get("files", [])), mech=mech)
    if prev:
        txt += "\nChanges of this kind have already been produced for this property; do NOT produce them again or close variants - pick a different mechanism, a different code site and a different triggering condition:\n"
        txt += "".join("  - %s\n" % w for w in prev)
    txt += """
Your task: write a change to the library's non-test source (not to *_test.go files, and do not touch verif_on.go / verif_off.go or remove existing `verifPoint(`/`verifFS(`/`verifQ(` calls - keep each of them at the step it observes) that BREAKS this property while (a) the package still compiles (both `go build ./...` and `go build -tags verif ./...`), and (b) the entire existing test suite still passes, unedited. The change should look like something a developer might plausibly do (a refactor, an "optimisation", a small logic slip, a reordering), not sabotage, and it must need something specific to manifest: a particular interleaving, a crash or fault at a particular point, a multi-step sequence of operations, an unusual input, or two cooperating sites that each look fine alone. Do NOT produce a change that ordinary use would expose at once (e.g. every query failing).

Also write a demonstration: a Go test file `zz_seed_demo_test.go` in the worktree root (package bloomsearch, test function names starting with `TestSeedDemo`) that FAILS with your change and PASSES without it, deterministically (run it at least 3 times each way). It may use internal package identifiers, custom DataStore/MetaStore wrappers, goroutines with explicit synchronisation, etc.

Deliverables, all inside %(wt)s/seed_out/ :
  - patch.diff  : `git diff` of the library change only (not including the demo test or seed_out), applicable with `git apply` on the original commit;
  - demo_test.go : a copy of your demonstration test; also create seed_out/go.mod containing just 'module seedout' so that `go test ./...` from the worktree root does not try to compile seed_out as a package;
  - notes.md : which part of the property it breaks, what exactly is needed for it to manifest, and the exact commands you ran with their outcomes (suite passing with the change; demo failing with / passing without).
Before finishing, verify from a clean state: `git stash`-free procedure — (1) `git checkout -- . ` then run the demo (must pass); (2) `git apply seed_out/patch.diff`, `go build ./... && go build -tags verif ./...`, run the full suite (must pass), run the demo (must fail). Leave the worktree with the patch applied and the demo file present. Remove any large build outputs you created. Report briefly what you did.
""" % dict(wt=wt)
    open("/tmp/seed-prompt-%s.txt" % pid, "w").write(txt)
    print("/tmp/seed-prompt-%s.txt (%d earlier changes listed)" % (pid, len(prev)))
