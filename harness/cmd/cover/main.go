// Command cover checks filter coverage (C18) on rows that carry no unique
// member: documents of the specification's catalogue are stored as they are -
// no id, no partition member - so that blocks can consist of rows adding no
// field::token pair the file has not seen already, while still carrying field
// paths of their own (null values, empty containers). The partition function
// is derived from what the row looks like (its key set), not from an indexed
// value. After flushes (and merges) every stored block is read back: every
// entry the specification assigns to its rows must be in the block's filters
// and in the file's.
package main

import (
	"bytes"
	"context"
	"encoding/json"
	"flag"
	"fmt"
	"math/rand"
	"os"
	"reflect"
	"sort"
	"strings"
	"time"

	bs "github.com/danthegoodman1/bloomsearch"
	"verifharness/internal/h"
	"verifharness/internal/sem"
)

type blockObs struct {
	Rows    int `json:"rows"`
	Unknown int `json:"unknown"` // stored rows that are no document of the scenario
	MissB   int `json:"missb"`   // entries of its rows the block's filters deny
	MissF   int `json:"missf"`   // entries of its rows the file's filters deny
}

type obs struct {
	ID      int        `json:"id"`
	Tok     string     `json:"tok"`
	Part    string     `json:"part"` // none | keys | haskey
	Docs    []int      `json:"docs"` // catalogue documents stored, in ingest order
	Groups  int        `json:"groups"`
	Merges  int        `json:"merges"`
	MRG     int        `json:"mrg"`
	Files   int        `json:"files"`
	Blocks  []blockObs `json:"blocks"`
	Stored  int        `json:"stored"`
	Wanted  int        `json:"wanted"`
	MergeOK bool       `json:"merge_ok"`
	// entry probes: one-leaf queries for entries a filter denied although a stored row under it carries them
	Probes    int `json:"probes"`
	ProbeLost int `json:"probe_lost"` // stored rows carrying the entry that the probe query did not return
	Stdio     int `json:"stdio"`
}

type testStringer interface{ TestString(string) bool }

func denies(f testStringer, e string) bool {
	if f == nil || reflect.ValueOf(f).IsNil() {
		return false
	}
	return !f.TestString(e)
}

func main() {
	out := flag.String("out", "", "output directory")
	catalog := flag.String("catalog", "", "catalogue exported from the specification")
	seed := flag.Int64("seed", 1, "seed")
	tier := flag.String("tier", "quick", "quick|thorough")
	flag.Parse()
	if *out == "" || *catalog == "" {
		fmt.Fprintln(os.Stderr, "usage: cover -out DIR -catalog FILE")
		os.Exit(2)
	}
	h.Must(os.MkdirAll(*out, 0o755), "mkdir")
	data, err := os.ReadFile(*catalog)
	h.Must(err, "catalogue")
	var cat sem.Catalog
	h.Must(json.Unmarshal(data, &cat), "catalogue json")
	guard := h.CaptureStdio()
	rng := rand.New(rand.NewSource(*seed*104729 + 3))
	n := 500
	if *tier == "thorough" {
		n = 10000
	}
	f, err := os.Create(*out + "/obs.ndjson")
	h.Must(err, "create")
	enc := json.NewEncoder(f)
	for id := 1; id <= n; id++ {
		std0 := guard.Len()
		o := obs{ID: id, Tok: []string{"ws", "whole"}[rng.Intn(2)], Part: []string{"none", "keys", "keys", "haskey"}[rng.Intn(4)], Blocks: []blockObs{}}
		// a small pool of documents, drawn with repetition: most rows add nothing new to what the file has seen
		pool := []int{1 + rng.Intn(len(cat.Docs)), 1 + rng.Intn(len(cat.Docs))}
		if rng.Intn(2) == 0 {
			pool = append(pool, 1+rng.Intn(len(cat.Docs)))
		}
		cfg := bs.DefaultBloomSearchEngineConfig()
		cfg.MaxBufferedTime = time.Hour
		cfg.BloomFalsePositiveRate = []float64{0.000001, 0.001, 0.05}[rng.Intn(3)]
		cfg.RowDataCompression = []bs.CompressionType{bs.CompressionNone, bs.CompressionSnappy, bs.CompressionZstd}[rng.Intn(3)]
		if o.Tok == "whole" {
			cfg.Tokenizer = sem.WholeTokenizer
		}
		// a third tokenizer: the default one with every token renamed (marked); nothing is a token of its own text any more,
		// number and boolean literals included
		mark := ""
		if o.Tok == "ws" && id%3 == 0 {
			mark = "~"
			o.Tok = "ws-marked"
			cfg.Tokenizer = func(v string) []string {
				ts := bs.BasicWhitespaceLowerTokenizer(v)
				out := make([]string, len(ts))
				for i, t := range ts {
					out[i] = "~" + t
				}
				return out
			}
		}
		switch o.Part {
		case "keys":
			cfg.PartitionFunc = func(row map[string]any) string {
				var ks []string
				for k := range row {
					ks = append(ks, k)
				}
				sort.Strings(ks)
				return strings.Join(ks, ",")
			}
		case "haskey":
			cfg.PartitionFunc = func(row map[string]any) string {
				if _, ok := row["a"]; ok {
					return "with-a"
				}
				return "without-a"
			}
		}
		mem, meta := h.NewMemData(), bs.NewMemoryMetaStore()
		eng, err := bs.NewBloomSearchEngine(cfg, meta, mem)
		h.Must(err, "engine")
		eng.Start()
		type stored struct {
			doc int
			rt  map[string]any
		}
		var rows []stored
		o.Groups = 1 + rng.Intn(3)
		for g := 0; g < o.Groups; g++ {
			var batch []map[string]any
			for k := 0; k < 1+rng.Intn(4); k++ {
				d := pool[rng.Intn(len(pool))]
				v := sem.Concrete(cat.Docs[d-1], rng, o.Tok == "whole")
				row, ok := v.(map[string]any)
				if !ok {
					// a document concretized as raw JSON: decode it so that it is a row
					b, _ := json.Marshal(v)
					row = map[string]any{}
					dec := json.NewDecoder(bytes.NewReader(b))
					dec.UseNumber() // numbers keep their digits
					if dec.Decode(&row) != nil {
						continue
					}
				}
				b, err := json.Marshal(row)
				h.Must(err, "marshal")
				rt := map[string]any{}
				h.Must(json.Unmarshal(b, &rt), "round trip")
				rows = append(rows, stored{d, rt})
				o.Docs = append(o.Docs, d)
				batch = append(batch, row)
			}
			if len(batch) == 0 {
				continue
			}
			done := make(chan error, 1)
			h.Must(eng.IngestRows(context.Background(), batch, done), "ingest")
			h.Must(eng.Flush(context.Background()), "flush")
			h.Must(<-done, "ack")
		}
		h.Must(eng.Stop(context.Background()), "stop")
		o.Wanted = len(rows)
		o.MergeOK = true
		if o.Groups > 1 && rng.Intn(2) == 0 {
			o.Merges = 1 + rng.Intn(2)
			mcfg := cfg
			o.MRG = []int{1, 2, 1000}[rng.Intn(3)]
			mcfg.MaxRowGroupRows = o.MRG
			meng, err := bs.NewBloomSearchEngine(mcfg, meta, mem)
			h.Must(err, "merge engine")
			for i := 0; i < o.Merges; i++ {
				if _, err := meng.Merge(context.Background()); err != nil {
					o.MergeOK = false
				}
			}
		}
		// read everything back
		type deniedEntry struct{ kind, entry string }
		var denied []deniedEntry
		carriers := map[deniedEntry]int{} // stored rows carrying the entry
		for mf, err := range meta.GetMaybeFilesForQuery(context.Background(), nil) {
			h.Must(err, "metastore")
			o.Files++
			for _, blk := range mf.Metadata.DataBlocks {
				bo := blockObs{}
				rd, err := mem.OpenFile(context.Background(), mf.PointerBytes)
				h.Must(err, "open")
				rowData, err := bs.ReadDataBlockRowData(rd, &blk)
				var bf *bs.BloomFilters
				if err == nil {
					bf, err = bs.ReadDataBlockBloomFilters(rd, blk)
				}
				rd.Close()
				if err != nil {
					bo.Unknown = 1000
					o.Blocks = append(o.Blocks, bo)
					continue
				}
				sc := bs.NewBlockRowScanner(rowData)
				for {
					rb, ok, err := sc.Next()
					if err != nil || !ok {
						break
					}
					var row map[string]any
					if json.Unmarshal(rb, &row) != nil {
						bo.Unknown++
						continue
					}
					bo.Rows++
					o.Stored++
					doc := 0
					for _, s := range rows {
						if reflect.DeepEqual(s.rt, row) {
							doc = s.doc
							break
						}
					}
					if doc == 0 {
						bo.Unknown++
						continue
					}
					e := cat.Entries[doc-1]
					toks, fts := e.TokensWS, e.FTWS
					if o.Tok == "whole" {
						toks, fts = e.TokensWhole, e.FTWhole
					}
					ff := mf.Metadata.BloomFilters
					for _, p := range e.Paths {
						ps := sem.PathString(p)
						carriers[deniedEntry{"f", ps}]++
						if denies(bf.FieldBloomFilter, ps) {
							bo.MissB++
							denied = append(denied, deniedEntry{"f", ps})
						}
						if denies(ff.FieldBloomFilter, ps) {
							bo.MissF++
							denied = append(denied, deniedEntry{"f", ps})
						}
					}
					for _, t := range toks {
						ts := mark + sem.TokenString(t)
						carriers[deniedEntry{"t", ts}]++
						if denies(bf.TokenBloomFilter, ts) {
							bo.MissB++
							denied = append(denied, deniedEntry{"t", ts})
						}
						if denies(ff.TokenBloomFilter, ts) {
							bo.MissF++
							denied = append(denied, deniedEntry{"t", ts})
						}
					}
					for _, ft := range fts {
						k := sem.PathString(ft[0]) + "::" + mark + sem.TokenString(ft[1])
						if denies(bf.FieldTokenBloomFilter, k) {
							bo.MissB++
						}
						if denies(ff.FieldTokenBloomFilter, k) {
							bo.MissF++
						}
					}
				}
				o.Blocks = append(o.Blocks, bo)
			}
		}
		// for (at most three of) the denied entries: the one-leaf query asking for exactly that entry, on the real engine
		seen := map[deniedEntry]bool{}
		for _, de := range denied {
			if seen[de] || o.Probes >= 3 {
				continue
			}
			seen[de] = true
			o.Probes++
			pq := bs.NewQuery().Field(de.entry).Build()
			if de.kind == "t" {
				pq = bs.NewQuery().Token(de.entry).Build()
			}
			qe, err := bs.NewBloomSearchEngine(cfg, meta, mem)
			h.Must(err, "probe engine")
			got := 0
			if r, err := qe.Query(context.Background(), pq); err == nil {
				for r.Next() {
					got++
				}
				r.Close()
			}
			if got < carriers[de] {
				o.ProbeLost += carriers[de] - got
			}
		}
		if o.Docs == nil {
			o.Docs = []int{}
		}
		o.Stdio = guard.Len() - std0
		h.Must(enc.Encode(o), "encode")
	}
	f.Close()
	guard.Restore()
	fmt.Printf("cover: %d scenarios\n", n)
}
