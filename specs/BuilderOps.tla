----------------------------- MODULE BuilderOps -----------------------------
(***************************************************************************)
(* Meaning of query expression trees (query.go) over truth assignments.    *)
(*                                                                         *)
(* A tree node is [t, a, c]: t in "atom" (a = atom index), "and", "or",    *)
(* "nilcond" (CONDITION node without a condition), "unk" (unknown          *)
(* expression type), "nil" (absent expression); c = children. An           *)
(* assignment is a natural number whose bit i-1 says whether atom i holds. *)
(* nil / nilcond are neutral (TRUE), an empty OR is FALSE, an empty AND is *)
(* TRUE, unknown nodes are FALSE - the same conventions as Search.tla.     *)
(***************************************************************************)
EXTENDS Integers, Sequences, FiniteSets, TLC

Pow2(n) == IF n = 0 THEN 1 ELSE IF n = 1 THEN 2 ELSE IF n = 2 THEN 4 ELSE IF n = 3 THEN 8 ELSE 16
Holds(asg, i) == (asg \div Pow2(i - 1)) % 2 = 1

RECURSIVE Eval(_, _)
Eval(e, asg) ==
  CASE e.t \in {"nil", "nilcond"} -> TRUE
    [] e.t = "atom" -> Holds(asg, e.a)
    [] e.t = "and"  -> \A i \in 1..Len(e.c) : Eval(e.c[i], asg)
    [] e.t = "or"   -> \E i \in 1..Len(e.c) : Eval(e.c[i], asg)
    [] OTHER        -> FALSE

TruthSet(e, Asgs) == { asg \in Asgs : Eval(e, asg) }

(***************************************************************************)
(* the constructors: And / Or splice the children of same-typed operands   *)
(***************************************************************************)
RECURSIVE FlattenArgs(_, _)
FlattenArgs(args, ty) ==
  IF args = << >> THEN << >>
  ELSE LET h == Head(args) IN
       (IF h.t = ty THEN h.c ELSE << h >>) \o FlattenArgs(Tail(args), ty)
MkAnd(args) == [t |-> "and", a |-> 0, c |-> FlattenArgs(args, "and")]
MkOr(args)  == [t |-> "or",  a |-> 0, c |-> FlattenArgs(args, "or")]
Atom(i)  == [t |-> "atom", a |-> i, c |-> << >>]
NilCond  == [t |-> "nilcond", a |-> 0, c |-> << >>]
Unk      == [t |-> "unk", a |-> 0, c |-> << >>]
NilExpr  == [t |-> "nil", a |-> 0, c |-> << >>]

(***************************************************************************)
(* the builder: implicit AND list, explicit expression, Build              *)
(* state: [explicit, impl, expr]                                           *)
(***************************************************************************)
B0 == [explicit |-> FALSE, impl |-> << >>, expr |-> NilExpr]
\* Field / Token / FieldToken / FieldRegex
AddLeaf(b, e) ==
  IF b.explicit
    THEN [b EXCEPT !.expr = IF b.expr.t = "nil" THEN e ELSE MkAnd(<< b.expr, e >>)]
    ELSE [b EXCEPT !.impl = Append(b.impl, e)]
\* Match / MatchRegex; KeepEarlier = the repaired behaviour (conditions chained before Match stay in the conjunction)
DoMatch(b, e, KeepEarlier) ==
  [explicit |-> TRUE, impl |-> << >>,
   expr |-> IF KeepEarlier /\ ~b.explicit /\ Len(b.impl) > 0 THEN MkAnd(b.impl \o << e >>) ELSE e]
Built(b) == IF ~b.explicit /\ Len(b.impl) > 0 THEN MkAnd(b.impl) ELSE b.expr
=============================================================================
