"""Structural trace validation of the real write path against WritePath.tla (WritePathTrace.tla).

A trace recorded by cmd/wp is translated into the labels WritePath's actions carry in `act`; TLC must explain every
line by the action of that name (unobservable actions are taken silently in between).  Only programs inside the
specification's abstraction are translated: one row per batch, one partition, the row-count flush trigger only, store
failures at create/close/update.  A rejected trace is model drift (reported, never a property verdict)."""
import collections
import json
import os
import random
import re
import shutil
import subprocess
from concurrent.futures import ThreadPoolExecutor

from vcommon import SPECS, TLC_JAR

POINTS = {"ingest.checked", "ingest.sent", "ingest.stopping", "actor.recv", "actor.ctxdone", "actor.finalflush", "actor.enqueued",
          "actor.enqueue_aborted", "flusher.recv", "flusher.shutdown", "flusher.ingestdone",
          "flusher.exit", "flush.abandoned", "flush.ackonly", "stop.armed", "stop.flagged", "stop.canceled", "stop.ret_nil",
          "stop.ret_deadline", "start.spawn"}


def eligible(p):
    c = p["cfg"]
    if c.get("mb_bytes") or c.get("mrg_rows") or c.get("mrg_bytes") or c.get("mb_time_ms") or c.get("partitions"):
        return False
    if p.get("timed") or p.get("clock"):
        return False
    for cl in p["calls"]:
        if cl["kind"] == "rows" and (cl.get("rows", 1) != 1 or cl.get("parts", 1) != 1 or cl.get("pad")):
            return False
        if cl["chan"] not in ("nil", "buf", "unbuf", "aband", "late"):
            return False
    for f in p.get("faults") or []:
        if f["kind"] not in ("create", "close", "update") or f["mode"] not in ("err", "wedge"):
            return False
    for ph in p["phases"]:
        for op in ph:
            if op["op"] in ("cancelcall", "sleep"):
                return False
    return len(p["calls"]) <= 6


def translate(p, events):
    kinds = {c["id"]: c["kind"] for c in p["calls"]}
    out = []
    checked = set()
    called, returned = {}, {}
    first_call_seq, start_ret = None, None
    for e in events:
        ev = e["ev"]
        if ev == "call":
            called[e["b"]] = e["seq"]
            if first_call_seq is None:
                first_call_seq = e["seq"]
        elif ev == "startret":
            start_ret = e["seq"]
        elif ev == "point":
            n = e["name"]
            if n in POINTS:
                if n == "ingest.checked":
                    checked.add(e["b"])
                out.append({"n": n, "b": e.get("b", 0) or 0})
        elif ev == "storeend" and e["name"] in ("create", "close", "update"):
            out.append({"n": "store.%s.%s" % (e["name"], "ok" if e["res"] == "ok" else "err"), "b": 0})
        elif ev == "wedged":
            out.append({"n": "store.wedge", "b": 0})
        elif ev == "unwedged":
            out.append({"n": "store.unwedge", "b": 0})
        elif ev == "deadline":
            out.append({"n": "ctx.deadline", "b": 0})
        elif ev == "afterfunc":
            # after a graceful return the callback has been unregistered (stopAfter): the harness's request runs nothing
            if not any(x["n"] == "stop.ret_nil" for x in out):
                out.append({"n": "ctx.afterfunc", "b": 0})
        elif ev == "recvstart":
            out.append({"n": "recvstart", "b": e["b"]})
        elif ev == "ret":
            returned[e["b"]] = e["seq"]
            b = e["b"]
            if e["res"] == "stopped" and b not in checked:
                out.append({"n": "ingest.checked", "b": b})
            elif kinds.get(b) == "force" and e["res"] in ("flushed", "flusherr"):
                out.append({"n": "flush.ret", "b": b})
    prev = {}
    for b, cs in called.items():
        prev[b] = sorted(b2 for b2, rs in returned.items() if rs < cs and b2 != b)
    has_start = any(op["op"] == "start" for ph in p["phases"] for op in ph)
    start_first = has_start and start_ret is not None and (first_call_seq is None or start_ret < first_call_seq)
    stop_mode = "none"
    for ph in p["phases"]:
        for op in ph:
            if op["op"] == "stop":
                stop_mode = "nodeadline" if op.get("mode") == "nodeadline" else "deadline"
    faults = sum(1 for f in p.get("faults") or [] if f["mode"] == "err")
    wedges = sum(1 for f in p.get("faults") or [] if f["mode"] == "wedge")
    if start_first:
        out = [e for e in out if e["n"] != "start.spawn"]
    out = normalise(out, kinds, p["cfg"]["ibs"])
    consts = {"batches": sorted(kinds), "kind": kinds, "chan": {c["id"]: c["chan"] for c in p["calls"]}, "prev": prev,
              "ibs": p["cfg"]["ibs"], "mbr": p["cfg"]["mb_rows"], "with_start": has_start, "start_first": start_first,
              "stop_mode": stop_mode, "faults": faults, "wedges": wedges, "called": sorted(called)}
    return consts, out


def normalise(out, kinds, ibs):
    """Channel hand-offs are ordered by their single consumer: the sender's hook is logged after the send took effect and
    may land behind the consumer's hook. A late 'ingest.sent b' / k-th 'actor.enqueued' is moved to just before the
    'actor.recv b' / k-th 'flusher.recv' it fed."""
    # give the Flush requests' receives (logged without a batch) their batch: Flush calls are received in the order sent
    force_order = [e["b"] for e in out if e["n"] == "ingest.checked" and kinds.get(e["b"]) == "force"]
    fi = 0
    for e in out:
        if e["n"] == "actor.recv" and not e["b"] and fi < len(force_order):
            e["b"] = force_order[fi]
            fi += 1
    changed, rounds = True, 0
    while changed and rounds < 500:
        rounds += 1
        changed = False
        for i, e in enumerate(out):
            if e["n"] == "ingest.sent":
                for j in range(i):
                    if out[j]["n"] == "actor.recv" and out[j]["b"] == e["b"]:
                        out.insert(j, out.pop(i))
                        changed = True
                        break
            if changed:
                break
        if changed:
            continue
        # the cancellation took effect before Stop's hook logged it: observers may have logged first
        ci = next((i for i, e in enumerate(out) if e["n"] == "stop.canceled"), None)
        oi = next((i for i, e in enumerate(out) if e["n"] in ("actor.ctxdone", "flusher.shutdown")), None)
        if ci is not None and oi is not None and oi < ci:
            out.insert(oi, out.pop(ci))
            changed = True
            continue
        enq = [i for i, e in enumerate(out) if e["n"] in ("actor.enqueued",)]
        rcv = [i for i, e in enumerate(out) if e["n"] == "flusher.recv"]
        for k in range(min(len(enq), len(rcv))):
            if enq[k] > rcv[k]:
                out.insert(rcv[k], out.pop(enq[k]))
                changed = True
                break
        if changed:
            continue
        # the consumer's hook, too, is logged after the receive took effect: a send that needed the room the k-th receive
        # made (channel capacity: 1 for the flush queue, IBS for the ingest buffer) may be logged before that receive
        for k in range(len(rcv)):
            if k + 1 < len(enq) and enq[k + 1] < rcv[k]:
                out.insert(enq[k + 1], out.pop(rcv[k]))
                changed = True
                break
        if changed:
            continue
        # senders log after their send took effect: the sends' order in the channel is the order of the receives
        arv0 = [e["b"] for e in out if e["n"] == "actor.recv"]
        pos = {e["b"]: i for i, e in enumerate(out) if e["n"] == "ingest.sent"}
        for k in range(len(arv0) - 1):
            a, b2 = arv0[k], arv0[k + 1]
            if a in pos and b2 in pos and pos[a] > pos[b2]:
                out.insert(pos[b2], out.pop(pos[a]))
                changed = True
                break
        if changed:
            continue
        # ingest buffer: channel order is the order of the receives; the send of the (k+IBS)-th received batch needed
        # the room the k-th receive made
        arv = [i for i, e in enumerate(out) if e["n"] == "actor.recv"]
        for k in range(len(arv)):
            if k + ibs >= len(arv):
                break
            late = out[arv[k + ibs]]["b"]
            si = next((i for i, e in enumerate(out) if e["n"] == "ingest.sent" and e["b"] == late), None)
            if si is not None and si < arv[k]:
                out.insert(si, out.pop(arv[k]))
                changed = True
                break
    return out


def tla_fun(d, val):
    return "(" + " @@ ".join("%d :> %s" % (k, val(v)) for k, v in sorted(d.items())) + ")"


def write_model(dirp, consts, trace, name="MCT"):
    os.makedirs(dirp, exist_ok=True)
    with open(os.path.join(dirp, "t.ndjson"), "w") as f:
        for e in trace:
            f.write(json.dumps(e) + "\n")
    B = consts["batches"]
    q = lambda s: '"%s"' % s
    chan = {b: ("aband" if c == "aband" else c) for b, c in consts["chan"].items()}
    prev = {b: consts["prev"].get(b, []) for b in B}
    with open(os.path.join(dirp, name + ".tla"), "w") as f:
        f.write("---- MODULE %s ----\nEXTENDS WritePathTrace\n" % name)
        f.write("KindC == %s\n" % tla_fun(consts["kind"], q))
        f.write("ChanC == %s\n" % tla_fun(chan, q))
        f.write("PrevC == %s\n" % tla_fun(prev, lambda v: "{" + ", ".join(map(str, v)) + "}"))
        f.write("====\n")
    tf = lambda b: "TRUE" if b else "FALSE"
    with open(os.path.join(dirp, name + ".cfg"), "w") as f:
        f.write("SPECIFICATION TSpec\nCONSTANTS\n  Batches = {%s}\n  Kind <- KindC\n  Chan <- ChanC\n  Prev <- PrevC\n" % ", ".join(map(str, B)))
        f.write("  IBS = %d\n  MBR = %d\n  WithStart = %s\n  StartFirst = %s\n  StopMode = \"%s\"\n  MaxFaults = %d\n  MaxWedges = %d\n"
                % (consts["ibs"], consts["mbr"], tf(consts["with_start"]), tf(consts["start_first"]), consts["stop_mode"], consts["faults"], consts["wedges"]))
        f.write("  FixStopCancels = TRUE\n  FixStopUnblocks = TRUE\n  FixStopExpiry = TRUE\n  FixStopDrains = TRUE\n  TraceFile = \"t.ndjson\"\n")
        f.write("INVARIANT NotAccepted\nCONSTRAINT HighWater\nPOSTCONDITION ReportHW\nCHECK_DEADLOCK FALSE\n")




def _one(args):
    d, timeout = args
    for f in ("WritePath.tla", "WritePathTrace.tla"):
        shutil.copyfile(os.path.join(SPECS, f), os.path.join(d, f))
    cmd = ["java", "-XX:+UseParallelGC", "-Xmx1g", "-Djava.io.tmpdir=" + d, "-Dtlc2.tool.queue.IStateQueue=StateDeque", "-cp", TLC_JAR, "tlc2.TLC",
           "-metadir", os.path.join(d, "m"), "-workers", "1", "-config", "MCT.cfg", "MCT.tla"]
    try:
        r = subprocess.run(cmd, cwd=d, capture_output=True, text=True, timeout=timeout)
    except subprocess.TimeoutExpired:
        return {"dir": d, "accepted": False, "timeout": True, "hw": None, "errors": []}
    out = r.stdout
    hw = re.search(r'"HIGHWATER", (\d+), (\d+)', out)
    errs = [l for l in out.splitlines() if l.startswith("Error:") and "NotAccepted" not in l and "behavior up to" not in l]
    st = re.search(r"(\d+) states generated", out)
    return {"dir": d, "accepted": "Invariant NotAccepted is violated" in out, "timeout": False,
            "hw": [int(hw.group(1)), int(hw.group(2))] if hw else None, "errors": errs[:2], "states": int(st.group(1)) if st else 0}


def validate(work, programs_path, traces_path, sample, seed, parallel=12, timeout=300):
    """Translates and validates up to `sample` eligible traces (seeded choice). Returns a summary dict."""
    progs = json.load(open(programs_path))
    traces = collections.defaultdict(list)
    for line in open(traces_path):
        e = json.loads(line)
        traces[e["t"]].append(e)
    elig = [pr for pr in progs if eligible(pr["program"])]
    rng = random.Random(seed)
    chosen = elig if len(elig) <= sample else rng.sample(elig, sample)
    base = os.path.join(work, "wptrace")
    jobs, meta = [], {}
    for pr in chosen:
        consts, tr = translate(pr["program"], traces[pr["trace"]])
        if not tr:
            continue
        d = os.path.join(base, "t%d" % pr["trace"])
        write_model(d, consts, tr)
        jobs.append((d, timeout))
        meta[d] = (pr, tr)
    with ThreadPoolExecutor(parallel) as ex:
        results = list(ex.map(_one, jobs))
    rejected, errors, states = [], [], 0
    for r in results:
        pr, tr = meta[r["dir"]]
        states += r.get("states", 0)
        if r["errors"] or r["timeout"]:
            errors.append({"trace": pr["trace"], "program": pr["program"]["name"], "errors": r["errors"], "timeout": r["timeout"]})
        elif not r["accepted"]:
            hw = r["hw"] or [0, len(tr)]
            rejected.append({"trace": pr["trace"], "program": pr["program"]["name"], "explained": max(hw[0] - 1, 0), "events": len(tr),
                             "first_unexplained": tr[hw[0] - 1] if 0 < hw[0] <= len(tr) else None})
    shutil.rmtree(base, ignore_errors=True)
    return {"eligible": len(elig), "validated": len(results), "accepted": len(results) - len(rejected) - len(errors),
            "rejected": rejected, "errors": errors, "tlc_states": states,
            "sample_trace": meta[jobs[0][0]][1][:25] if jobs else []}
