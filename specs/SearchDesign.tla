---------------------------- MODULE SearchDesign ----------------------------
(***************************************************************************)
(* Design-level check of the query pipeline against the search semantics:  *)
(* rows are stored in blocks of files (by flush, and after a merge that    *)
(* combines blocks of one partition and one minmax key set); every bloom   *)
(* filter is an ARBITRARY superset of the entries of the rows it covers    *)
(* (false positives are free choices); a query runs prefilter -> file      *)
(* filters -> block filters -> row verification.  TLC explores every       *)
(* combination of two catalogue rows, block structure, query and           *)
(* false-positive choice and checks the theorems below.                    *)
(***************************************************************************)
EXTENDS SearchCatalog

CONSTANTS DocSet,   \* catalogue documents the two rows are drawn from
          AttrIdx   \* which <<partition, k1>> attribute pairs rows may carry
AttrSeq == << <<0, -1>>, <<1, 2>>, <<1, 7>>, <<2, 7>> >>   \* <<partition, k1>>
Attrs == { AttrSeq[i] : i \in AttrIdx }
MkRow(d, a, id) == [doc |-> d, id |-> id, part |-> a[1], vals |-> [k1 |-> a[2], k2 |-> -1], copies |-> 1]

N0 == [t |-> "nil", f |-> <<>>, tok |-> <<>>, pat |-> [k |-> "", w |-> <<>>], c |-> <<>>, op |-> "", x |-> 0, xs |-> <<>>, lo |-> 0, hi |-> 0, key |-> ""]
F(p) == [N0 EXCEPT !.t = "f", !.f = p]
T(w) == [N0 EXCEPT !.t = "t", !.tok = w]
FT(p, w) == [N0 EXCEPT !.t = "ft", !.f = p, !.tok = w]
RE(p, k, w) == [N0 EXCEPT !.t = "re", !.f = p, !.pat = [k |-> k, w |-> w]]
AND(cs) == [N0 EXCEPT !.t = "and", !.c = cs]
OR(cs) == [N0 EXCEPT !.t = "or", !.c = cs]
PART(op, x) == [N0 EXCEPT !.t = "part", !.op = op, !.x = x, !.xs = <<x>>, !.lo = x, !.hi = x]
MM(op, x, lo, hi) == [N0 EXCEPT !.t = "mm", !.key = "k1", !.op = op, !.x = x, !.xs = <<x, lo>>, !.lo = lo, !.hi = hi]
NILC == [N0 EXCEPT !.t = "nilcond"]
UNK == [N0 EXCEPT !.t = "unk"]

Blooms == { N0, F(<<"a">>), F(<<"a", "b">>), F(<<"b">>), F(<<"e">>), F(<<"e", "e">>), T(<<"w1">>), T(<<"w2">>), T(<<"n7">>),
            FT(<<"a">>, <<"w1">>), FT(<<"a", "b">>, <<"w1">>), FT(<<"a", "b">>, <<"w2">>), FT(<<"b">>, <<"n7">>),
            AND(<<F(<<"a">>), T(<<"w1">>)>>), OR(<<FT(<<"a">>, <<"w3">>), F(<<"b">>)>>), AND(<<>>), OR(<<>>),
            AND(<<NILC, T(<<"w2">>)>>), OR(<<UNK, F(<<"a", "b">>)>>), AND(<<OR(<<T(<<"w1">>), T(<<"w4">>)>>), F(<<"a">>)>>) }
Regexes == { N0, RE(<<"a">>, "word", <<"w1">>), RE(<<"a">>, "any", <<>>), RE(<<"b">>, "exact", <<"n7">>), RE(<<"e">>, "any", <<>>),
             AND(<<RE(<<"a">>, "word", <<"w2">>), NILC>>), OR(<<RE(<<"a", "b">>, "word", <<"w1">>), RE(<<"b">>, "word", <<"w2">>)>>) }
Pres == { N0, PART("EQ", 1), PART("NE", 1), MM("GTE", 5, 0, 0), MM("LT", 7, 0, 0), MM("BETWEEN", 0, 3, 6), MM("NOT_IN", 7, 2, 2),
          AND(<<PART("EQ", 1), MM("GT", 2, 0, 0)>>), OR(<<PART("EQ", 2), MM("EQ", 2, 0, 0)>>), OR(<<>>), AND(<<UNK>>) }
MMIdxS == {"k1"}

VARIABLES rows, layout, q, fp
vars == << rows, layout, q, fp >>

\* layouts of two rows: 1 = one block; 2 = two blocks of one file; 3 = two files;
\* 4 = two files merged afterwards (combined when partition and key set agree)
Layouts == 1..4

KeysOf(r) == { k \in MMIdxS : RowHasKey(r, k, MMIdxS) }
SameMergeKey(r1, r2) == r1.part = r2.part /\ KeysOf(r1) = KeysOf(r2)
\* blocks as sets of row indices, files as sets of blocks
BlocksOf(rs, ly) ==
  IF ly = 1 THEN IF SameMergeKey(rs[1], rs[2]) THEN << {1, 2} >> ELSE << {1}, {2} >>   \* a flush splits by partition
  ELSE IF ly = 4 /\ SameMergeKey(rs[1], rs[2]) THEN << {1, 2} >>
  ELSE << {1}, {2} >>
FileOf(rs, ly, b) == IF ly = 3 /\ Len(BlocksOf(rs, ly)) = 2 THEN b ELSE 1
BlockMeta(rs, B) ==
  LET r0 == rs[CHOOSE i \in B : TRUE]
      ks == UNION { KeysOf(rs[i]) : i \in B }
      vals(k) == { rs[i].vals[k] : i \in { j \in B : k \in KeysOf(rs[j]) } }
      Min(S) == CHOOSE x \in S : \A y \in S : x <= y
      Max(S) == CHOOSE x \in S : \A y \in S : x >= y
  IN [part |-> r0.part, keys |-> ks,
      lo |-> [k \in {"k1", "k2"} |-> IF k \in ks THEN Min(vals(k)) ELSE 0],
      hi |-> [k \in {"k1", "k2"} |-> IF k \in ks THEN Max(vals(k)) ELSE 0]]

\* a filter over the rows R answers a leaf truthfully-or-positively
RECURSIVE FilterEval(_, _, _)
FilterEval(e, R, fpos) ==
  CASE e.t \in {"nil", "nilcond"} -> TRUE
    [] e.t \in {"f", "t", "ft"} -> fpos \/ \E i \in R : EvalBloom(RowDoc(rows[i]), e, "ws")
    [] e.t = "and" -> \A i \in 1..Len(e.c) : FilterEval(e.c[i], R, fpos)
    [] e.t = "or"  -> \E i \in 1..Len(e.c) : FilterEval(e.c[i], R, fpos)
    [] OTHER -> FALSE
Prune(qq) == AND(<<qq.bloom, RegexGuard(qq.regex)>>)

Bs == BlocksOf(rows, layout)
FileRows(f) == UNION { Bs[b] : b \in { c \in 1..Len(Bs) : FileOf(rows, layout, c) = f } }
Scanned(b) ==
  /\ EvalPreMeta(BlockMeta(rows, Bs[b]), q.pre, TRUE)
  /\ FilterEval(Prune(q), FileRows(FileOf(rows, layout, b)), fp[1])
  /\ FilterEval(Prune(q), Bs[b], fp[2])
Result == { i \in 1..2 : \E b \in 1..Len(Bs) : i \in Bs[b] /\ Scanned(b) /\ RowMatches(RowDoc(rows[i]), q, "ws") }

Init == /\ rows \in { << MkRow(d1, a1, "r1"), MkRow(d2, a2, "r2") >> : d1 \in DocSet, d2 \in DocSet, a1 \in Attrs, a2 \in Attrs }
        /\ layout = 0 /\ q = [bloom |-> N0, regex |-> N0, pre |-> N0] /\ fp = << FALSE, FALSE >>
Next == /\ layout = 0
        /\ rows' = rows
        /\ layout' \in Layouts
        /\ q' \in { [bloom |-> b, regex |-> r, pre |-> p] : b \in Blooms, r \in Regexes, p \in Pres }
        /\ fp' \in { << x, y >> : x \in BOOLEAN, y \in BOOLEAN }
Spec == Init /\ [][Next]_vars

Ready == layout # 0
\* C01 / C04: a matching row whose own partition and values satisfy the prefilter is returned
NoFalseNegative ==
  Ready => \A i \in 1..2 : (RowMatches(RowDoc(rows[i]), q, "ws") /\ RowSatisfiesPre(rows[i], q.pre, MMIdxS)) => i \in Result
\* C02: only matching rows; without a prefilter exactly the matching rows
Exact ==
  Ready => /\ \A i \in Result : RowMatches(RowDoc(rows[i]), q, "ws")
           /\ (~HasPrefilter(q) => Result = { i \in 1..2 : RowMatches(RowDoc(rows[i]), q, "ws") })
\* the regex tree's field guard never prunes a row the regex matches
GuardImpliedByRegex ==
  Ready => \A i \in 1..2 : EvalRegex(RowDoc(rows[i]), q.regex) => EvalBloom(RowDoc(rows[i]), RegexGuard(q.regex), "ws")
\* C04 lifted to blocks: a satisfying row's block metadata satisfies the prefilter
PrefilterSound ==
  Ready => \A b \in 1..Len(Bs) : \A i \in Bs[b] :
      RowSatisfiesPre(rows[i], q.pre, MMIdxS) => EvalPreMeta(BlockMeta(rows, Bs[b]), q.pre, TRUE)
\* the present-metadata bound contains the exact one
BoundsOrdered ==
  Ready => \A b \in 1..Len(Bs) :
      EvalPreMeta(BlockMeta(rows, Bs[b]), q.pre, TRUE) => EvalPreMeta(BlockMeta(rows, Bs[b]), q.pre, FALSE)
\* C11: merging (layout 3 -> 4) keeps prefilter-free answers and only widens prefiltered ones
MergeResult ==
  LET B4 == BlocksOf(rows, 4) IN
  { i \in 1..2 : \E b \in 1..Len(B4) : i \in B4[b]
        /\ EvalPreMeta(BlockMeta(rows, B4[b]), q.pre, TRUE) /\ RowMatches(RowDoc(rows[i]), q, "ws") }
MergePreservesAnswers ==
  (Ready /\ layout = 3 /\ fp = << FALSE, FALSE >>) =>
      /\ Result \subseteq MergeResult
      /\ (~HasPrefilter(q) => Result = MergeResult)
=============================================================================
