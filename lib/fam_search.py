"""Search-semantics family (C01 C02 C03 C11 C17 C18 C23 C24): Search.tla /
SearchCatalog.tla define the documented semantics and the document catalogue;
SearchDesign.tla checks the pipeline theorems with TLC; the Go harness
(cmd/search) replays seeded abstract cases on the real engine; SearchMonitor
.tla (TLC) judges every observation."""
import json
import os
import re
import shutil
import subprocess
import time
from concurrent.futures import ThreadPoolExecutor

from vcommon import (Infra, drive, build_harness, copy_specs, monitor_report, run, scratch_dir, tlc, tlc_errors, tlc_stats,
                     tlc_violations)

PROPS = ["C01", "C02", "C03", "C11", "C17", "C18", "C23", "C24"]
NCASES = {"quick": 1600, "thorough": 40000}
DESIGN_CFG = {"quick": "SearchDesign.cfg", "thorough": "SearchDesign_thorough.cfg"}
SHARDS = 16


def export_catalog(work):
    rc, out, _ = tlc(work, "SearchExport.tla", "SearchExport.cfg", workers=1, timeout=300)
    m = re.search(r'<<"CATALOG", (".*")>>', out)
    if not m:
        raise Infra("catalogue export failed:\n" + out[-2000:])
    path = os.path.join(work, "catalog.json")
    open(path, "w").write(json.loads(m.group(1)))
    return path


def monitor_shard(args):
    work, idx, lines = args
    d = os.path.join(work, "shard%d" % idx)
    copy_specs(d)
    with open(os.path.join(d, "obs.ndjson"), "w") as f:
        f.writelines(lines)
    rc, out, secs = tlc(d, "SearchMonitor.tla", "SearchMonitor.cfg", workers=1, timeout=6000, heap="3g")
    errs = tlc_errors(out)
    if errs:
        at = out.find("Error:")
        raise Infra("search monitor failed: %s\n%s\n...\n%s" % (errs[:3], out[at:at + 2500], out[-1500:]))
    rep = monitor_report(out)
    d2, g = tlc_stats(out)
    if d2 != len(lines) + 1:
        raise Infra("search monitor consumed %d of %d observations" % (d2 - 1, len(lines)))
    m = re.search(r'<<"MONITOR-STATS", (".*")>>', out)
    stats = json.loads(json.loads(m.group(1))) if m else {}
    shutil.rmtree(d, ignore_errors=True)
    return rep, stats


def run_monitor(work, obs_path):
    lines = open(obs_path).readlines()
    if not lines:
        raise Infra("no observations")
    k = min(SHARDS, max(1, len(lines) // 50))
    shards = [(work, i, lines[i::k]) for i in range(k)]
    with ThreadPoolExecutor(max_workers=k) as ex:
        results = list(ex.map(monitor_shard, shards))
    viol, stats = [], {}
    for rep, st in results:
        viol += rep["violations"]
        for a, b in st.items():
            stats[a] = stats.get(a, 0) + b
    return viol, stats, len(lines)


def chunk_run(work, tier, seed):
    cfg = "ChunkCursor_quick.cfg" if tier == "quick" else "ChunkCursor.cfg"
    rc, out, secs = tlc(work, "ChunkCursor.tla", cfg, workers=8, timeout=3000, heap="8g")
    d, g = tlc_stats(out)
    dv = tlc_violations(out) + tlc_errors(out)
    design_violations = [{"cfg": cfg, "violated": dv or ["did not complete"]}] if (dv or d == 0 or "No error has been found" not in out) else []
    cbin = build_harness("chunk")
    cdir = os.path.join(work, "chunkrun")

    def once(dirp):
        drive([cbin, "-out", dirp, "-seed", str(seed), "-tier", tier], work, "search", timeout=1800)
        shutil.copyfile(os.path.join(dirp, "obs.ndjson"), os.path.join(work, "obs.ndjson"))
        rc, out, secs = tlc(work, "ChunkMonitor.tla", "ChunkMonitor.cfg", workers=1, timeout=900, heap="3g")
        errs = tlc_errors(out)
        if errs:
            raise Infra("chunk monitor failed: %s\n%s" % (errs[:3], out[-2000:]))
        m = re.search(r'<<"MONITOR-STATS", (".*")>>', out)
        obs = {}
        for line in open(os.path.join(dirp, "obs.ndjson")):
            o = json.loads(line)
            obs[o["id"]] = o
        return monitor_report(out), (json.loads(json.loads(m.group(1))) if m else {}), obs

    rep, stats, obs = once(cdir)
    real = [v for v in rep["violations"] if not v["p"].startswith("DRIFT")]
    drift = [v for v in rep["violations"] if v["p"].startswith("DRIFT")]
    viol = []
    if real:
        rep2, _, _ = once(os.path.join(work, "chunkrerun"))
        again = set((v["id"], v["p"]) for v in rep2["violations"])
        for v in real:
            o = obs[v["id"]]
            viol.append({"pred": v["p"], "prop": v["p"][:3], "case_id": v["id"], "title": "multi-chunk %s candidates=%s" % (o["mode"], o["cands"]),
                         "sig": {"pred": v["p"]}, "reproduced": (v["id"], v["p"]) in again, "observation": o})
    return {"violations": viol, "design_violations": design_violations, "observations": len(obs), "stats": stats,
            "drift": [{"id": v["id"], "mode": obs[v["id"]]["mode"], "cands": obs[v["id"]]["cands"], "reads": obs[v["id"]]["reads"]} for v in drift][:5],
            "design": {"cfg": cfg, "states": d, "transitions": g, "secs": round(secs, 1)}}


def cover_run(work, tier, seed, cat):
    """cmd/cover + CoverMonitor.tla: filter coverage on rows without a unique member (C18; C11 for the stored bag)."""
    cbin = build_harness("cover")

    def once(dirp):
        drive([cbin, "-out", dirp, "-catalog", cat, "-seed", str(seed), "-tier", tier], work, "search", timeout=1800)
        shutil.copyfile(os.path.join(dirp, "obs.ndjson"), os.path.join(work, "obs.ndjson"))
        rc, out, secs = tlc(work, "CoverMonitor.tla", "CoverMonitor.cfg", workers=1, timeout=900, heap="3g")
        errs = tlc_errors(out)
        if errs:
            at = out.find("Error:")
            raise Infra("cover monitor failed: %s\n%s" % (errs[:3], out[at:at + 2000]))
        m = re.search(r'<<"MONITOR-STATS", (".*")>>', out)
        obs = {}
        for line in open(os.path.join(dirp, "obs.ndjson")):
            o = json.loads(line)
            obs[o["id"]] = o
        return monitor_report(out), (json.loads(json.loads(m.group(1))) if m else {}), obs

    rep, stats, obs = once(os.path.join(work, "coverrun"))
    viol = []
    if rep["violations"]:
        rep2, _, _ = once(os.path.join(work, "coverrerun"))
        again = set((v["id"], v["p"]) for v in rep2["violations"])
        for v in rep["violations"]:
            o = obs[v["id"]]
            viol.append({"pred": v["p"], "prop": v["p"][:3], "case_id": v["id"],
                         "title": "coverage scenario %d (%s, partition %s, documents %s, merges %d)" % (o["id"], o["tok"], o["part"], o["docs"], o["merges"]),
                         "sig": {"pred": v["p"]}, "reproduced": (v["id"], v["p"]) in again, "observation": o})
    return {"violations": viol, "observations": len(obs), "stats": stats}


def compute(tier, seed):
    t0 = time.time()
    work = scratch_dir("search")
    try:
        copy_specs(work)
        # design-level theorems
        rc, out, dsecs = tlc(work, "SearchDesign.tla", DESIGN_CFG[tier], workers=16, timeout=3000)
        dstates, dgen = tlc_stats(out)
        dviol = tlc_violations(out) + tlc_errors(out)
        design = {"cfg": DESIGN_CFG[tier], "states": dstates, "transitions": dgen, "secs": round(dsecs, 1),
                  "violations": dviol if (dviol or dstates == 0) else []}
        cat = export_catalog(work)
        sbin = build_harness("search")
        outdir = os.path.join(work, "run")
        txt, hsecs = drive([sbin, "-out", outdir, "-catalog", cat, "-n", str(NCASES[tier]), "-seed", str(seed),
                              "-tier", tier], work, "search", timeout=6000)
        summary = json.load(open(os.path.join(outdir, "summary.json")))
        obs_path = os.path.join(outdir, "obs.ndjson")
        viol, stats, nobs = run_monitor(work, obs_path)
        out_viol = []
        if viol:
            bad = sorted(set(v["id"] for v in viol))
            cases, obs = {}, {}
            for line in open(obs_path):
                o = json.loads(line)
                if o["id"] in bad:
                    cases[o["id"]] = o["case"]
                    obs[o["id"]] = o
            rp = os.path.join(work, "replay.ndjson")
            with open(rp, "w") as f:
                for i in bad:
                    f.write(json.dumps(cases[i]) + "\n")
            out2 = os.path.join(work, "rerun")
            rc, txt, _ = run([sbin, "-out", out2, "-catalog", cat, "-replay", rp, "-seed", str(seed)], timeout=3000, check=False)
            if rc != 0:
                raise Infra("search replay failed: " + txt[-2000:])
            viol2, _, _ = run_monitor(work, os.path.join(out2, "obs.ndjson"))
            again = set((v["id"], v["p"]) for v in viol2)
            for v in viol:
                o = obs[v["id"]]
                slim = dict(o)
                out_viol.append({"pred": v["p"], "prop": v["p"][:3], "case_id": v["id"], "title": "case %d" % v["id"],
                                 "sig": {"pred": v["p"]}, "reproduced": (v["id"], v["p"]) in again, "observation": slim})
        # the block filter cursor on a file whose region spans several chunks: ChunkCursor.tla (design), cmd/chunk, ChunkMonitor.tla
        chunk = chunk_run(work, tier, seed)
        out_viol += chunk["violations"]
        # filter coverage on rows that add no new pair (no unique member, partition derived from the row's shape)
        cover = cover_run(work, tier, seed, cat)
        out_viol += cover["violations"]
        if chunk["design_violations"]:
            design["violations"] = list(design["violations"]) + chunk["design_violations"]
        samples = []
        for i, line in enumerate(open(obs_path)):
            if i in (0, 7, 101):
                o = json.loads(line)
                samples.append({"case": o["case"], "res": o["res"], "blocks": len(o["blocks"])})
        return {"design": design, "chunk": {k: chunk[k] for k in ("observations", "stats", "drift", "design")},
                "cover": {k: cover[k] for k in ("observations", "stats")},
                "impl": {"cases": nobs, "stats": stats, "stdio_bytes": summary["stdio_bytes"],
                                           "harness_secs": round(hsecs, 1)},
                "violations": out_viol, "samples": samples, "wall_s": round(time.time() - t0, 1)}
    finally:
        shutil.rmtree(work, ignore_errors=True)


PREDS = {
    "C01": ["C01_NoFalseNegative", "C01_QuerySucceeds", "C01_EntryProbesComplete"],
    "C02": ["C02_OnlyMatching", "C02_AtMostStored", "C02_ExactWithoutPrefilter", "C02_BlockGranular"],
    "C03": ["C03_Faithful", "C03_IndependentOfMutation", "C03_RowsShareNothing", "C03_ConcurrentAgree"],
    "C11": ["C11_BagUnchanged", "C11_AnswersPreserved", "C11_MergeSucceeds", "C11_PartitionKept", "C11_RangesStillCover", "C11_EntryProbesAfterMerge"],
    "C17": ["C17_EntryCountsMeasured", "C17_RowCount", "C17_FileEntryCounts", "C17_Layout", "C17_MetadataMatchesBytes",
            "C17_HelpersReturnWhatWasWritten"],
    "C18": ["C18_PartitionIsRowsPartition", "C18_KeysExactlyProvided", "C18_RangesCover", "C18_BlockFiltersCover",
            "C18_FileFiltersCover"],
    "C23": ["C23_AtMostOncePerBlock", "C23_AllOrNoneOfAFile", "C23_ReturnedRowsBlockProcessed", "C23_SkippedZero",
            "C23_ProcessedWhole", "C23_Totals", "C23_RowsMatched"],
    "C24": ["C24_NoOpenOfRuledOutFile", "C24_NoRowReadOfRuledOutBlock", "C24_NoRowReadOfRuledOutBlockAfterOpenFault", "C24_NoRegionReadWithoutConditions",
            "C24_ReadsInsideDeclaredExtents"],
}
DESIGN_THEOREMS = {
    "C01": ["NoFalseNegative", "GuardImpliedByRegex", "PrefilterSound"], "C02": ["Exact", "BoundsOrdered"],
    "C03": [], "C11": ["MergePreservesAnswers"], "C17": [], "C18": ["PrefilterSound"], "C23": [], "C24": ["NoFalseNegative"],
}
LEVEL = {"C01": "model_checking", "C02": "model_checking", "C03": "exploration", "C11": "model_checking",
         "C17": "exploration", "C18": "model_checking", "C23": "exploration", "C24": "exploration"}
NONTRIVIAL = {
    "C01": "nontrivial_c01", "C02": "with_matches", "C03": "with_matches", "C11": "with_merges", "C17": "blocks",
    "C18": "blocks", "C23": "blocks", "C24": "with_prefilter",
}


def evidence(pid, tier, res):
    des, impl = res["design"], res["impl"]
    if des["violations"]:
        res["design_failed"] = des["violations"]
    st = impl["stats"]
    rule = ("cases are drawn by a seeded generator over the TLA+ catalogue (documents, atoms from the specification's "
            "entry sets, trees of depth <= 2 with nil/empty/unknown nodes, prefilter trees, flush groups, merges, "
            "tokenizer, minmax key set, compression/fpr/limit dimensions); non-trivial for %s = counted by "
            "SearchMonitor.tla as '%s' (for 'blocks' every case stores at least one block, so every case counts; "
            "units_judged is the number of blocks read back and judged)" % (pid, NONTRIVIAL[pid]))
    cov = {
        "evaluations": impl["cases"], "distinct_nontrivial": min(int(st.get(NONTRIVIAL[pid], 0)), impl["cases"]), "rule": rule,
        "units_judged": int(st.get(NONTRIVIAL[pid], 0)),
        "samples": res["samples"][:3],
        "monitor_predicates": PREDS[pid], "design_theorems": DESIGN_THEOREMS[pid], "design_run": des,
        "monitor_stats": st,
        "multi_chunk": res.get("chunk"),
        "filter_coverage_scenarios": res.get("cover"),
        "drift_traces": [{"trace": d["id"], "program": "multi-chunk filter pass (%s, candidates %s)" % (d["mode"], d["cands"]),
                          "explained": None, "events": len(d["reads"]), "first_unexplained": d["reads"][:3]}
                         for d in (res.get("chunk") or {}).get("drift", [])],
        "summary": "%d cases judged by SearchMonitor.tla, %d design states" % (impl["cases"], des["states"]),
    }
    if LEVEL[pid] == "model_checking":
        cov.update({"states": des["states"], "transitions": des["transitions"],
                    "traces_validated_against_impl": impl["cases"]})
    assumptions = [
        "the abstract-to-concrete tables of the harness (segments, words, surface variants) are injective and fold as "
        "the tables say (self-checked against strings.ToLower/strings.Fields at start-up)",
        "expected outcomes are computed only by Search.tla/SearchCatalog.tla; the harness never evaluates a query",
        "regex conditions with nil/unknown nodes under OR, containers under a top-level empty key and zstd levels 5..22 "
        "are not generated (DESIGN 8: outside what the properties state)",
    ]
    return LEVEL[pid], cov, assumptions
