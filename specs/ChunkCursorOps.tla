--------------------------- MODULE ChunkCursorOps ---------------------------
(***************************************************************************)
(* The block filter cursor of file_format.go (blockFilterCursor:            *)
(* filtersFor / heldSection / readChunkFrom): a file's candidate blocks are *)
(* evaluated in order; a block whose filter section is not inside the chunk  *)
(* in hand triggers a read that starts at its section and is extended over   *)
(* the following sections while they stay within Cap bytes of the chunk's    *)
(* start (sections behind the start, or reaching past the cap, end the       *)
(* extension; blocks without a section are skipped).                        *)
(*                                                                         *)
(* blocks: sequence of [off, size] in evaluation order. Reads(blocks, Cap)  *)
(* is the sequence of [start, len] the pass issues.                         *)
(***************************************************************************)
EXTENDS Integers, Sequences, FiniteSets, TLC

Max2(a, b) == IF a > b THEN a ELSE b

RECURSIVE Grow(_, _, _, _, _)
Grow(blocks, Cap, start, j, end) ==
  IF j > Len(blocks) THEN end
  ELSE IF blocks[j].size = 0 THEN Grow(blocks, Cap, start, j + 1, end)
  ELSE IF blocks[j].off < start \/ blocks[j].off + blocks[j].size - start > Cap THEN end
  ELSE Grow(blocks, Cap, start, j + 1, Max2(end, blocks[j].off + blocks[j].size))

ChunkFrom(blocks, Cap, i) ==
  [start |-> blocks[i].off, len |-> Grow(blocks, Cap, blocks[i].off, i + 1, blocks[i].off + blocks[i].size) - blocks[i].off]

Held(buf, b) == buf.len > 0 /\ b.off >= buf.start /\ b.off + b.size <= buf.start + buf.len

NoBuf == [start |-> 0, len |-> 0]

\* the pass as a fold: state [buf, reads, ok] after evaluating blocks 1..i
RECURSIVE Pass(_, _, _, _)
Pass(blocks, Cap, i, st) ==
  IF i > Len(blocks) THEN st
  ELSE LET b == blocks[i] IN
       IF b.size = 0 THEN Pass(blocks, Cap, i + 1, st)
       ELSE IF Held(st.buf, b) THEN Pass(blocks, Cap, i + 1, st)
       ELSE LET c == ChunkFrom(blocks, Cap, i) IN
            Pass(blocks, Cap, i + 1, [buf |-> c, reads |-> Append(st.reads, c), ok |-> st.ok /\ Held(c, b)])

Run(blocks, Cap) == Pass(blocks, Cap, 1, [buf |-> NoBuf, reads |-> << >>, ok |-> TRUE])
Reads(blocks, Cap) == Run(blocks, Cap).reads
=============================================================================
