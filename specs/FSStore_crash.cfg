SPECIFICATION Spec
CONSTANTS
  Names = {"n1","n2","n3"}
  Writers = {"w1","w2"}
  MergeOn = TRUE
  MaxFaults = 1
  CrashOn = TRUE
  PowerLossOn = TRUE
  DirSyncOnRemove = TRUE
  Groups = 1
  GroupSize = 2
  TombSyncs = TRUE
  MaxIno = 6
INVARIANTS AckedSurvive NoDuplicatesOutsideWindow NoDuplicatesAfterMergeReturned AckedNeverTorn ScanExact NeverExposed AbortLeavesNothing
PROPERTIES NoClobber
CHECK_DEADLOCK FALSE
