---------------------------- MODULE MergeGroupsOps ----------------------------
(***************************************************************************)
(* Transcription of bloomsearch's merge planning (merge.go:                *)
(* identifyFileMergeGroups, hasMergeableBlockPair, processPartitionBlocks, *)
(* blockMergeKey, blocksWithinMergeLimits) into TLA+ operators, with the   *)
(* unstable sort's tie order left nondeterministic. The limits are the      *)
(* record L = [mr, mb, mf, ms] (MaxRowGroupRows, MaxRowGroupBytes,          *)
(* MaxFilesToMergePerOperation, MaxFileSize). MergeGroups.tla checks the    *)
(* C12 invariants of the plan over a bounded domain; MergeMonitor.tla       *)
(* evaluates the same operators on the populations the real Merge met.      *)
(*                                                                         *)
(* A block is [part, keys, rows, usize, dsize]: partition id, minmax key   *)
(* set (as a set), row count, uncompressed bytes, on-disk footprint.       *)
(* A file is a sequence of blocks.                                         *)
(***************************************************************************)
EXTENDS Integers, Sequences, FiniteSets, TLC



RECURSIVE SumSeq(_, _)
SumSeq(F(_), n) == IF n = 0 THEN 0 ELSE F(n) + SumSeq(F, n - 1)

FileSize(f) == LET D(i) == f[i].dsize IN SumSeq(D, Len(f))
FileRows(f) == LET R(i) == f[i].rows IN SumSeq(R, Len(f))
AvgBlock(f) == FileSize(f) \div (IF Len(f) > 0 THEN Len(f) ELSE 1)

MergeKey(b) == << b.part, b.keys >>
PairWithin(L, b1, b2) == b1.rows + b2.rows <= L.mr /\ b1.usize + b2.usize <= L.mb

\* the sort's strict weak order: smaller average block size first, then smaller total size
Less(f, g) == AvgBlock(f) < AvgBlock(g) \/ (AvgBlock(f) = AvgBlock(g) /\ FileSize(f) < FileSize(g))
\* orders of the candidate indices the (unstable) sort may produce
Perms(n) == { p \in [1..n -> 1..n] : \A i, j \in 1..n : i # j => p[i] # p[j] }
SortedOrders(files) ==
  { p \in Perms(Len(files)) : \A i, j \in 1..Len(files) : i < j => ~Less(files[p[j]], files[p[i]]) }

\* hasMergeableBlockPair: some candidate block shares a merge key with a group block within pairwise limits
Mergeable(L, groupBlocks, f) ==
  \E i \in 1..Len(f) : \E j \in 1..Len(groupBlocks) :
      MergeKey(f[i]) = MergeKey(groupBlocks[j]) /\ PairWithin(L, f[i], groupBlocks[j])

RECURSIVE Concat(_, _)
Concat(files, idxs) == IF idxs = <<>> THEN <<>> ELSE files[Head(idxs)] \o Concat(files, Tail(idxs))

(***************************************************************************)
(* identifyFileMergeGroups over the candidates in sorted order `ord`.      *)
(* State of the outer loop: i, assigned, groups (seq of seq of file idx),  *)
(* total files in groups.  Inner loop: j, current group, its size.         *)
(***************************************************************************)
RECURSIVE Inner(_, _, _, _, _, _, _, _)
\* returns << group, assigned >>
Inner(L, files, ord, j, group, gsize, assigned, total) ==
  IF j > Len(ord) THEN << group, assigned >>
  ELSE IF ord[j] \in assigned THEN Inner(L, files, ord, j + 1, group, gsize, assigned, total)
  ELSE IF total + Len(group) + 1 > L.mf THEN << group, assigned >>
  ELSE LET f == files[ord[j]]
           newSize == gsize + FileSize(f) IN
       IF newSize > L.ms THEN Inner(L, files, ord, j + 1, group, gsize, assigned, total)
       ELSE IF Mergeable(L, Concat(files, group), f)
              THEN Inner(L, files, ord, j + 1, Append(group, ord[j]), newSize, assigned \cup {ord[j]}, total)
              ELSE Inner(L, files, ord, j + 1, group, gsize, assigned, total)

RECURSIVE Outer(_, _, _, _, _, _, _)
Outer(L, files, ord, i, assigned, groups, total) ==
  IF i > Len(ord) THEN groups
  ELSE IF ord[i] \in assigned THEN Outer(L, files, ord, i + 1, assigned, groups, total)
  ELSE IF total >= L.mf THEN groups
  ELSE LET r == Inner(L, files, ord, i + 1, << ord[i] >>, FileSize(files[ord[i]]), assigned \cup {ord[i]}, total)
           g == r[1] IN
       IF Len(g) > 1 THEN Outer(L, files, ord, i + 1, r[2], Append(groups, g), total + Len(g))
                     ELSE Outer(L, files, ord, i + 1, r[2], groups, total)

FileGroups(L, files, ord) == IF Len(files) < 2 THEN <<>> ELSE Outer(L, files, ord, 1, {}, <<>>, 0)

(***************************************************************************)
(* processPartitionBlocks over one bucket (blocks sharing a merge key, in  *)
(* their order of appearance): greedy seed + cumulative fit.               *)
(***************************************************************************)
RECURSIVE Collect(_, _, _, _, _, _, _, _)
\* returns << group (seq of positions in bucket), used >>
Collect(L, bucket, s, o, group, rows, size, used) ==
  IF o > Len(bucket) THEN << group, used >>
  ELSE IF o \in used \/ ~PairWithin(L, bucket[s], bucket[o])
         THEN Collect(L, bucket, s, o + 1, group, rows, size, used)
  ELSE IF rows + bucket[o].rows <= L.mr /\ size + bucket[o].usize <= L.mb
         THEN Collect(L, bucket, s, o + 1, Append(group, o), rows + bucket[o].rows, size + bucket[o].usize, used \cup {o})
         ELSE Collect(L, bucket, s, o + 1, group, rows, size, used)

RECURSIVE Seeds(_, _, _, _, _)
Seeds(L, bucket, s, used, out) ==
  IF s > Len(bucket) THEN out
  ELSE IF s \in used THEN Seeds(L, bucket, s + 1, used, out)
  ELSE LET r == Collect(L, bucket, s, s + 1, << s >>, bucket[s].rows, bucket[s].usize, used \cup {s})
       IN Seeds(L, bucket, s + 1, r[2], Append(out, r[1]))

BucketGroups(L, bucket) == Seeds(L, bucket, 1, {}, <<>>)

\* the buckets of a group's blocks
Keys(blocks) == { MergeKey(blocks[i]) : i \in 1..Len(blocks) }
RECURSIVE Filter(_, _)
Filter(blocks, k) ==
  IF blocks = <<>> THEN <<>>
  ELSE (IF MergeKey(Head(blocks)) = k THEN << Head(blocks) >> ELSE <<>>) \o Filter(Tail(blocks), k)

(***************************************************************************)
(* C12                                                                     *)
(***************************************************************************)
OutBlockOK(L, bucket, g) ==
  LET R(i) == bucket[g[i]].rows
      U(i) == bucket[g[i]].usize IN
  Len(g) > 1 => (SumSeq(R, Len(g)) <= L.mr /\ SumSeq(U, Len(g)) <= L.mb)

PlanOK(L, files, ord) ==
  LET groups == FileGroups(L, files, ord)
      NG(i) == Len(groups[i]) IN
  /\ SumSeq(NG, Len(groups)) <= L.mf                                          \* at most L.mf sources removed
  /\ \A gi \in 1..Len(groups) :
       LET blocks == Concat(files, groups[gi])
           FS(i) == FileSize(files[groups[gi][i]]) IN
       /\ Len(groups[gi]) >= 2
       /\ SumSeq(FS, Len(groups[gi])) <= L.ms                             \* merged files fit L.ms
       /\ \A k \in Keys(blocks) :
            \A g \in { BucketGroups(L, Filter(blocks, k))[x] : x \in 1..Len(BucketGroups(L, Filter(blocks, k))) } :
               OutBlockOK(L, Filter(blocks, k), g)                                  \* combined blocks within limits, one key
  /\ \A i, j \in 1..Len(groups) : i # j =>                                        \* no file in two groups
       { groups[i][x] : x \in 1..Len(groups[i]) } \cap { groups[j][x] : x \in 1..Len(groups[j]) } = {}
=============================================================================
