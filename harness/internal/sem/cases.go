package sem

import (
	"fmt"
	"math/rand"

	bs "github.com/danthegoodman1/bloomsearch"
)

// Pat mirrors the regex pattern record.
type Pat struct {
	K string   `json:"k"`
	W []string `json:"w"`
}

// Expr mirrors the uniform expression node record of Search.tla.
type Expr struct {
	T   string   `json:"t"`
	F   []string `json:"f"`
	Tok []string `json:"tok"`
	Pat Pat      `json:"pat"`
	C   []Expr   `json:"c"`
	Op  string   `json:"op"`
	X   int      `json:"x"`
	Xs  []int    `json:"xs"`
	Lo  int      `json:"lo"`
	Hi  int      `json:"hi"`
	Key string   `json:"key"`
}

func node(t string) Expr {
	return Expr{T: t, F: []string{}, Tok: []string{}, Pat: Pat{K: "", W: []string{}}, C: []Expr{}, Xs: []int{}}
}

type Query struct {
	Bloom Expr `json:"bloom"`
	Regex Expr `json:"regex"`
	Pre   Expr `json:"pre"`
}

// Dims are the configuration dimensions the model treats as irrelevant by
// design but the properties quantify over.
type Dims struct {
	Compression string  `json:"compression"`
	ZstdLevel   int     `json:"zstd_level"`
	FPR         float64 `json:"fpr"`
	MRGRows     int     `json:"mrg_rows"`
	MBRows      int     `json:"mb_rows"`
	FS          bool    `json:"fs"`
	JSONTrip    bool    `json:"json_trip"` // the Query goes through JSON before use
	External    bool    `json:"external"`  // one flush group is written by an external writer using the public helpers
	Conc        int     `json:"conc"`      // concurrent re-runs of the query
	MaxQC       int     `json:"max_qc"`
	MergeFiles  int     `json:"merge_files"` // MaxFilesToMergePerOperation
	MergeMRG    int     `json:"merge_mrg"`   // MaxRowGroupRows of the merging engine
	Batch       int     `json:"batch"`       // extra filler rows per flush group (large results / several batches)
	LegacyMeta  bool    `json:"legacy_meta"` // the MetaStore yields uncompressed blocks with Compression "" (what files written before "" was normalised look like)
	Reject      bool    `json:"reject"`      // a batch rejected as a whole is sent at a partition with buffered rows before each flush
	Overlap     bool    `json:"overlap"`     // the last flush is held at its first store write while a whole Merge runs
}

type Case struct {
	ID     int      `json:"id"`
	Rows   []Row    `json:"rows"`
	Flush  []int    `json:"flush"` // flush group of each row (1-based groups)
	Tok    string   `json:"tok"`
	MMIdx  []string `json:"mmidx"`
	Q      Query    `json:"q"`
	Merges int      `json:"merges"`
	PartOn bool     `json:"part_on"` // a PartitionFunc is configured
	Dims   Dims     `json:"dims"`
}

type gen struct {
	cat *Catalog
	rng *rand.Rand
}

func (g *gen) pick(n int) int { return g.rng.Intn(n) }

var absentPaths = [][]string{{"c", "a"}, {"e"}, {"b", "e"}, {"a", "a"}, {"m", "a"}, {"u", "u"}, {"e", "a"}, {"id", "a"}}
var absentTokens = [][]string{{"w4", "w1"}, {"w2", "w2"}, {"nfrac", "w1"}}

func (g *gen) somePath(c *Case) []string {
	if g.pick(5) == 0 {
		return absentPaths[g.pick(len(absentPaths))]
	}
	if g.pick(8) == 0 {
		return [][]string{{"id"}, {"p"}, {"k1"}, {"k2"}}[g.pick(4)]
	}
	r := c.Rows[g.pick(len(c.Rows))]
	ps := g.cat.Entries[r.Doc-1].Paths
	if len(ps) == 0 || g.pick(6) == 0 {
		d := g.pick(len(g.cat.Entries))
		ps = g.cat.Entries[d].Paths
	}
	if len(ps) == 0 {
		return []string{"a"}
	}
	return ps[g.pick(len(ps))]
}

func (g *gen) someToken(c *Case) []string {
	if g.pick(6) == 0 {
		return absentTokens[g.pick(len(absentTokens))]
	}
	if g.pick(10) == 0 {
		r := c.Rows[g.pick(len(c.Rows))]
		return []string{r.ID}
	}
	r := c.Rows[g.pick(len(c.Rows))]
	e := g.cat.Entries[r.Doc-1]
	ts := e.TokensWS
	if c.Tok == "whole" {
		ts = e.TokensWhole
	}
	if g.pick(4) == 0 { // the other tokenizer's tokens: mostly absent under this one
		if c.Tok == "whole" {
			ts = e.TokensWS
		} else {
			ts = e.TokensWhole
		}
	}
	if len(ts) == 0 {
		return []string{"w1"}
	}
	return ts[g.pick(len(ts))]
}

func (g *gen) bloomLeaf(c *Case) Expr {
	switch g.pick(12) {
	case 0:
		return node("nilcond")
	case 1:
		return node("unk")
	case 2:
		return node("unkcond")
	case 3, 4, 5:
		n := node("f")
		n.F = g.somePath(c)
		return n
	case 6, 7, 8:
		n := node("t")
		n.Tok = g.someToken(c)
		return n
	default:
		n := node("ft")
		r := c.Rows[g.pick(len(c.Rows))]
		e := g.cat.Entries[r.Doc-1]
		fts := e.FTWS
		if c.Tok == "whole" {
			fts = e.FTWhole
		}
		if len(fts) > 0 && g.pick(4) != 0 {
			ft := fts[g.pick(len(fts))]
			n.F, n.Tok = ft[0], ft[1]
			if g.pick(5) == 0 { // container path instead of the exact leaf path
				if len(n.F) > 1 {
					n.F = n.F[:len(n.F)-1]
				}
			}
		} else {
			n.F, n.Tok = g.somePath(c), g.someToken(c)
		}
		return n
	}
}

func (g *gen) bloomTree(c *Case, depth int) Expr {
	if depth == 0 || g.pick(3) == 0 {
		return g.bloomLeaf(c)
	}
	n := node([]string{"and", "or"}[g.pick(2)])
	k := g.pick(4) // 0..3 children (empty AND / OR included)
	for i := 0; i < k; i++ {
		n.C = append(n.C, g.bloomTree(c, depth-1))
	}
	return n
}

func (g *gen) regexLeaf(c *Case, allowSpecial bool) Expr {
	if allowSpecial {
		switch g.pick(14) {
		case 0:
			return node("nilcond")
		case 1:
			return node("unk")
		}
	}
	n := node("re")
	n.F = g.somePath(c)
	switch g.pick(6) {
	case 0:
		n.Pat = Pat{K: "any", W: []string{}}
	case 1, 2:
		// exact text of some leaf of some row
		r := c.Rows[g.pick(len(c.Rows))]
		toks := g.cat.Entries[r.Doc-1].TokensWhole
		if len(toks) > 0 {
			n.Pat = Pat{K: "exact", W: toks[g.pick(len(toks))]}
		} else {
			n.Pat = Pat{K: "exact", W: []string{}}
		}
	default:
		n.Pat = Pat{K: "word", W: []string{[]string{"w1", "w2", "w3", "w4"}[g.pick(4)]}}
	}
	return n
}

// regex trees: nil-condition and unknown nodes only at the top or under AND
// (under OR their meaning is not documented; see DESIGN "not obligations")
func (g *gen) regexTree(c *Case, depth int, underOr bool) Expr {
	if depth == 0 || g.pick(3) == 0 {
		return g.regexLeaf(c, !underOr)
	}
	t := []string{"and", "or"}[g.pick(2)]
	n := node(t)
	k := g.pick(4)
	for i := 0; i < k; i++ {
		n.C = append(n.C, g.regexTree(c, depth-1, underOr || t == "or"))
	}
	return n
}

var ops = []string{"EQ", "NE", "GT", "GTE", "LT", "LTE", "IN", "NOT_IN", "BETWEEN", "NOT_BETWEEN"}

func (g *gen) preLeaf(c *Case) Expr {
	switch g.pick(12) {
	case 0:
		return node("nilcond")
	case 1:
		return node("unk")
	}
	var n Expr
	hi := 9
	if g.pick(2) == 0 {
		n = node("part")
		hi = 3
	} else {
		n = node("mm")
		n.Key = []string{"k1", "k2"}[g.pick(2)]
	}
	n.Op = ops[g.pick(len(ops))]
	n.X = g.pick(hi + 1)
	if n.T == "part" && n.X == 0 {
		n.X = 1
	}
	for i := 0; i < 1+g.pick(3); i++ {
		v := g.pick(hi + 1)
		if n.T == "part" && v == 0 {
			v = 1
		}
		n.Xs = append(n.Xs, v)
	}
	n.Lo, n.Hi = g.pick(hi+1), g.pick(hi+1)
	if n.T == "part" {
		if n.Lo == 0 {
			n.Lo = 1
		}
		if n.Hi == 0 {
			n.Hi = 1
		}
	}
	return n
}

func (g *gen) preTree(c *Case, depth int) Expr {
	if depth == 0 || g.pick(3) == 0 {
		return g.preLeaf(c)
	}
	n := node([]string{"and", "or"}[g.pick(2)])
	k := g.pick(4)
	for i := 0; i < k; i++ {
		n.C = append(n.C, g.preTree(c, depth-1))
	}
	return n
}

// NewCase draws one case.
func (g *gen) NewCase(id int, thorough bool) *Case {
	c := &Case{ID: id}
	nrows := 1 + g.pick(5)
	// scan-state shape: many rows scanned one after the other by one worker (one flush group, one partition, one block),
	// queried with multi-leaf trees - whatever a row's evaluation leaves behind meets the next row
	scanState := g.pick(7) == 0
	if scanState {
		nrows = 8 + g.pick(7)
	}
	// merge shape: several files whose blocks really merge into one (one partition, one minmax key set, no row-group limit
	// in the way), queried by token - the merged block's filters are rebuilt from the rows of all its sources
	mergeShape := !scanState && g.pick(6) == 0
	if mergeShape {
		nrows = 3 + g.pick(4)
	}
	c.Tok = "ws"
	if g.pick(4) == 0 || mergeShape && g.pick(2) == 0 {
		c.Tok = "whole"
	}
	c.PartOn = g.pick(3) != 0 && !scanState && !mergeShape
	switch g.pick(4) {
	case 0:
		c.MMIdx = []string{}
	case 1:
		c.MMIdx = []string{"k1"}
	default:
		c.MMIdx = []string{"k1", "k2"}
	}
	groups := 1 + g.pick(3)
	if scanState {
		groups = 1
	}
	if mergeShape {
		groups = 2 + g.pick(2)
	}
	for i := 0; i < nrows; i++ {
		r := Row{Doc: 1 + g.pick(len(g.cat.Docs)), ID: fmt.Sprintf("r%d", i+1), Copies: 1, Vals: map[string]int{"k1": -1, "k2": -1}}
		if c.PartOn && g.pick(4) != 0 {
			r.Part = 1 + g.pick(3)
		}
		for _, k := range []string{"k1", "k2"} {
			if g.pick(3) != 0 || mergeShape {
				r.Vals[k] = g.pick(10)
			}
		}
		if g.pick(8) == 0 {
			r.Copies = 2
		}
		c.Rows = append(c.Rows, r)
		c.Flush = append(c.Flush, 1+g.pick(groups))
		if mergeShape && i < groups {
			c.Flush[i] = i + 1 // every file exists
		}
	}
	c.Merges = []int{0, 0, 1, 1, 2, 3}[g.pick(6)]
	// query
	c.Q.Bloom, c.Q.Regex, c.Q.Pre = node("nil"), node("nil"), node("nil")
	if g.pick(6) != 0 {
		c.Q.Bloom = g.bloomTree(c, 2)
	}
	if g.pick(3) == 0 {
		c.Q.Regex = g.regexTree(c, 2, false)
	}
	if g.pick(2) == 0 {
		c.Q.Pre = g.preTree(c, 2)
	}
	if scanState {
		c.Merges = 0
		c.Q.Pre = node("nil")
		// a regex tree with at least two condition leaves under one operator (and, half of the time, no bloom part)
		t := node([]string{"or", "or", "and"}[g.pick(3)])
		for i := 0; i < 2+g.pick(2); i++ {
			t.C = append(t.C, g.regexLeaf(c, false))
		}
		c.Q.Regex = t
		if g.pick(2) == 0 {
			c.Q.Bloom = node("nil")
		}
	}
	d := &c.Dims
	d.Compression = []string{"none", "snappy", "zstd", ""}[g.pick(4)]
	d.ZstdLevel = []int{1, 2, 3, 4}[g.pick(4)] // klauspost speed levels; see DESIGN 8 on levels 5..22
	d.FPR = []float64{0.000001, 0.001, 0.05, 0.3, 0.5, 0.9}[g.pick(6)]
	d.MRGRows = []int{1, 2, 3, 1000}[g.pick(4)]
	d.MBRows = []int{1, 2, 1000, 1000}[g.pick(4)]
	d.FS = g.pick(5) == 0
	d.JSONTrip = g.pick(3) == 0
	d.External = g.pick(6) == 0
	d.Conc = []int{0, 0, 2, 4}[g.pick(4)]
	d.MaxQC = []int{1, 2, 4, 1000}[g.pick(4)]
	d.MergeFiles = []int{2, 3, 10}[g.pick(3)]
	d.MergeMRG = []int{2, 4, 1000}[g.pick(3)]
	d.LegacyMeta = g.pick(5) == 0
	d.Reject = g.pick(5) == 0
	d.Overlap = g.pick(4) == 0
	if thorough && g.pick(10) == 0 {
		d.Batch = 150 + g.pick(200)
	} else if g.pick(25) == 0 {
		d.Batch = 70 + g.pick(60)
	}
	if scanState {
		d.MRGRows, d.MBRows, d.Batch = 1000, 1000, 0
	}
	if mergeShape {
		if c.Merges == 0 {
			c.Merges = 1 + g.pick(2)
		}
		d.MRGRows, d.MBRows, d.Batch, d.MergeMRG, d.MergeFiles = 1000, 1000, 0, 1000, 10
		c.Q.Pre = node("nil")
		if c.Q.Bloom.T == "nil" {
			c.Q.Bloom = g.bloomTree(c, 2)
		}
	}
	if d.Batch > 0 {
		// many copies of one row: results larger than a delivery batch, several batches per block
		c.Rows[0].Copies = d.Batch
		d.MRGRows, d.MBRows = 1000, 1000
	}
	return c
}

// ---------------------------------------------------------------------------
// Abstract expression -> real query types (pure construction).

func (e Expr) bloom() *bs.BloomExpression {
	switch e.T {
	case "nil":
		return nil
	case "nilcond":
		return &bs.BloomExpression{ExpressionType: bs.BloomExpressionCondition}
	case "unk":
		return &bs.BloomExpression{ExpressionType: "XOR"}
	case "unkcond":
		return &bs.BloomExpression{ExpressionType: bs.BloomExpressionCondition, Condition: &bs.BloomCondition{Type: "FUZZY", Field: "a", Token: "alpha"}}
	case "f":
		x := bs.Field(PathString(e.F))
		return &x
	case "t":
		x := bs.Token(TokenString(e.Tok))
		return &x
	case "ft":
		x := bs.FieldToken(PathString(e.F), TokenString(e.Tok))
		return &x
	case "and", "or":
		// built structurally (not through And/Or, whose flattening C25 checks separately)
		t := bs.BloomExpressionAnd
		if e.T == "or" {
			t = bs.BloomExpressionOr
		}
		out := &bs.BloomExpression{ExpressionType: t, Children: []bs.BloomExpression{}}
		for _, c := range e.C {
			out.Children = append(out.Children, *c.bloom())
		}
		return out
	}
	panic("bad bloom node " + e.T)
}

const sepClass = `[\s\p{Z}]`

// PatternString concretizes an abstract pattern.
func PatternString(p Pat) string {
	switch p.K {
	case "any":
		return ""
	case "word":
		return "(?i)" + quoteMeta(wordToken[p.W[0]])
	case "exact":
		s := "(?i)^" + sepClass + "*"
		for i, w := range p.W {
			if i > 0 {
				s += sepClass + "+"
			}
			s += quoteMeta(wordToken[w])
		}
		return s + sepClass + "*$"
	}
	panic("bad pattern " + p.K)
}

func quoteMeta(s string) string {
	out := ""
	for _, r := range s {
		switch r {
		case '.', '+', '*', '?', '(', ')', '[', ']', '{', '}', '^', '$', '|', '\\':
			out += `\`
		}
		out += string(r)
	}
	return out
}

func (e Expr) regex() *bs.RegexExpression {
	switch e.T {
	case "nil":
		return nil
	case "nilcond":
		return &bs.RegexExpression{ExpressionType: bs.RegexExpressionCondition}
	case "unk":
		return &bs.RegexExpression{ExpressionType: "NAND"}
	case "re":
		x := bs.FieldRegex(PathString(e.F), PatternString(e.Pat))
		return &x
	case "and", "or":
		t := bs.RegexExpressionAnd
		if e.T == "or" {
			t = bs.RegexExpressionOr
		}
		out := &bs.RegexExpression{ExpressionType: t, Children: []bs.RegexExpression{}}
		for _, c := range e.C {
			out.Children = append(out.Children, *c.regex())
		}
		return out
	}
	panic("bad regex node " + e.T)
}

func partName(p int) string { return fmt.Sprintf("p%d", p) }

func (e Expr) pre() *bs.PrefilterExpression {
	switch e.T {
	case "nil":
		return nil
	case "nilcond":
		return &bs.PrefilterExpression{ExpressionType: bs.PrefilterExpressionCondition}
	case "unk":
		return &bs.PrefilterExpression{ExpressionType: "NOT"}
	case "part":
		sc := bs.StringCondition{Operator: bs.QueryOperator(e.Op), Value: partName(e.X), Min: partName(e.Lo), Max: partName(e.Hi)}
		for _, v := range e.Xs {
			sc.Values = append(sc.Values, partName(v))
		}
		x := bs.Partition(sc)
		return &x
	case "mm":
		nc := bs.NumericCondition{Operator: bs.QueryOperator(e.Op), Value: int64(e.X), Min: int64(e.Lo), Max: int64(e.Hi)}
		for _, v := range e.Xs {
			nc.Values = append(nc.Values, int64(v))
		}
		x := bs.MinMax(e.Key, nc)
		return &x
	case "and", "or":
		t := bs.PrefilterExpressionAnd
		if e.T == "or" {
			t = bs.PrefilterExpressionOr
		}
		out := &bs.PrefilterExpression{ExpressionType: t, Children: []bs.PrefilterExpression{}}
		for _, c := range e.C {
			out.Children = append(out.Children, *c.pre())
		}
		return out
	}
	panic("bad prefilter node " + e.T)
}

// RealQuery builds the engine query for an abstract one.
func (q Query) RealQuery() *bs.Query {
	return &bs.Query{
		Prefilter: &bs.QueryPrefilter{Expression: q.Pre.pre()},
		Bloom:     &bs.BloomQuery{Expression: q.Bloom.bloom()},
		Regex:     &bs.RegexQuery{Expression: q.Regex.regex()},
	}
}

// Generate draws n cases. The first cases sweep every (document, single atom)
// pair family systematically; the rest are random trees.
func Generate(cat *Catalog, seed int64, n int, thorough bool) []*Case {
	g := &gen{cat: cat, rng: rand.New(rand.NewSource(seed))}
	var out []*Case
	for i := 0; i < n; i++ {
		out = append(out, g.NewCase(i+1, thorough))
	}
	return out
}
