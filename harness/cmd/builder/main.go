// Command builder executes seeded "programs" over the real query API (C25):
// expression definitions built with And/Or, RegexAnd/RegexOr,
// PrefilterAnd/PrefilterOr over atoms, earlier definitions (reused as
// operands, so bases are shared), JSON-decoded images of earlier definitions,
// and nil-condition / unknown / empty nodes; then builder chains (Field,
// Token, FieldToken, Match, FieldRegex, MatchRegex, MatchPrefilter, Build).
// After the whole program has run, every definition, its JSON image, every
// built Query and its JSON image is evaluated on every truth assignment - bloom
// and regex by querying a store that holds one row per assignment, prefilters
// with EvaluateDataBlockMetadata on one synthetic block per assignment - and
// written, next to the tree the caller wrote, for BuilderMonitor.tla.
package main

import (
	"context"
	"encoding/json"
	"flag"
	"fmt"
	"math/rand"
	"os"
	"sort"
	"time"

	bs "github.com/danthegoodman1/bloomsearch"
	"verifharness/internal/h"
)

// abstract tree as the specification sees it
type node struct {
	T string `json:"t"` // atom and or nilcond unk
	A int    `json:"a"`
	C []node `json:"c"`
}

func atom(i int) node { return node{T: "atom", A: i, C: []node{}} }

type defObs struct {
	K       int    `json:"k"`
	Kind    string `json:"kind"` // bloom regex pre
	Written node   `json:"written"`
	Obs     []int  `json:"obs"`      // assignments on which the real tree evaluates to true
	ObsJSON []int  `json:"obs_json"` // same for its JSON round trip
	JSONErr bool   `json:"json_err"`
}

type chainObs struct {
	Calls      []string `json:"calls"`
	Bloom      []node   `json:"bloom"` // what the caller chained for the bloom part (conjunction)
	Regex      []node   `json:"regex"`
	Pre        []node   `json:"pre"`      // at most one
	Obs        []int    `json:"obs"`      // rows returned by the built query
	ObsJSON    []int    `json:"obs_json"` // rows returned by its JSON round trip
	PreObs     []int    `json:"pre_obs"`
	PreObsJSON []int    `json:"pre_obs_json"`
	JSONErr    bool     `json:"json_err"`
	QErr       bool     `json:"qerr"`
}

type progObs struct {
	ID     int        `json:"id"`
	Defs   []defObs   `json:"defs"`
	Chains []chainObs `json:"chains"`
	Panic  string     `json:"panic"`
	Stdio  int        `json:"stdio"`
}

// ---------------------------------------------------------------------------
// the assignment store: 16 rows, bit i-1 of the row number says atom i holds
//   atom 1: field "f1" exists            (regex atom 1: FieldRegex("f1", "^x$"))
//   atom 2: FieldToken("f2", "v2")       (regex atom 2: FieldRegex("f2", "^v2$"))
//   atom 3: field "f3" exists            (regex atom 3: FieldRegex("f3", "."))
//   atom 4: Token("tok")                 (regex atom 4: FieldRegex("g", "^tok$"))

const nAtoms = 4

func bloomAtom(i int) bs.BloomExpression {
	switch i {
	case 1:
		return bs.Field("f1")
	case 2:
		return bs.FieldToken("f2", "v2")
	case 3:
		return bs.Field("f3")
	}
	return bs.Token("tok")
}

func regexAtom(i int) bs.RegexExpression {
	switch i {
	case 1:
		return bs.FieldRegex("f1", "^x$")
	case 2:
		return bs.FieldRegex("f2", "^v2$")
	case 3:
		return bs.FieldRegex("f3", ".")
	}
	return bs.FieldRegex("g", "^tok$")
}

// prefilter atoms: 1: partition = "p1"; 2: minmax n >= 5
func preAtom(i int) bs.PrefilterExpression {
	if i == 1 {
		return bs.Partition(bs.PartitionEquals("p1"))
	}
	return bs.MinMax("n", bs.NumericGreaterThanEqual(5))
}

type world struct {
	eng    *bs.BloomSearchEngine
	blocks []bs.DataBlockMetadata // synthetic block per prefilter assignment 0..3
}

func newWorld() (*world, error) {
	mem := h.NewMemData()
	meta := bs.NewMemoryMetaStore()
	cfg := bs.DefaultBloomSearchEngineConfig()
	cfg.MaxBufferedTime = time.Hour
	eng, err := bs.NewBloomSearchEngine(cfg, meta, mem)
	if err != nil {
		return nil, err
	}
	eng.Start()
	var rows []map[string]any
	for a := 0; a < 1<<nAtoms; a++ {
		row := map[string]any{"asg": a}
		if a&1 != 0 {
			row["f1"] = "x"
		}
		if a&2 != 0 {
			row["f2"] = "v2"
		} else {
			row["f2"] = "other"
		}
		if a&4 != 0 {
			row["f3"] = "y"
		}
		if a&8 != 0 {
			row["g"] = "tok"
		} else {
			row["g"] = "nothing"
		}
		rows = append(rows, row)
	}
	done := make(chan error, 1)
	if err := eng.IngestRows(context.Background(), rows, done); err != nil {
		return nil, err
	}
	if err := eng.Flush(context.Background()); err != nil {
		return nil, err
	}
	if err := <-done; err != nil {
		return nil, err
	}
	w := &world{eng: eng}
	for a := 0; a < 4; a++ {
		part := "p0"
		if a&1 != 0 {
			part = "p1"
		}
		rng := bs.MinMaxIndex{Min: 0, Max: 1}
		if a&2 != 0 {
			rng = bs.MinMaxIndex{Min: 7, Max: 9}
		}
		w.blocks = append(w.blocks, bs.DataBlockMetadata{PartitionID: part, MinMaxIndexes: map[string]bs.MinMaxIndex{"n": rng}})
	}
	return w, nil
}

func (w *world) run(q *bs.Query) ([]int, bool) {
	ctx, cancel := context.WithTimeout(context.Background(), 20*time.Second)
	defer cancel()
	res, err := w.eng.Query(ctx, q)
	if err != nil {
		return []int{}, true
	}
	defer res.Close()
	out := []int{}
	for res.Next() {
		switch v := res.Row()["asg"].(type) {
		case float64:
			out = append(out, int(v))
		case json.Number:
			n, _ := v.Int64()
			out = append(out, int(n))
		case int64:
			out = append(out, int(v))
		case int:
			out = append(out, v)
		}
	}
	sort.Ints(out)
	return out, res.Err() != nil
}

func (w *world) evalPre(e *bs.PrefilterExpression) []int {
	out := []int{}
	for a := range w.blocks {
		blk := w.blocks[a]
		if bs.EvaluateDataBlockMetadata(&blk, &bs.QueryPrefilter{Expression: e}) {
			out = append(out, a)
		}
	}
	return out
}

// ---------------------------------------------------------------------------
// program generation and execution

type def struct {
	kind    string
	written node
	bloom   bs.BloomExpression
	regex   bs.RegexExpression
	pre     bs.PrefilterExpression
}

func special(rng *rand.Rand, kind string) (node, any) {
	// an unknown regex expression type makes Query fail fast (compile error): there is no evaluation to compare
	if kind == "regex" || rng.Intn(2) == 0 {
		n := node{T: "nilcond", C: []node{}}
		switch kind {
		case "bloom":
			return n, bs.BloomExpression{ExpressionType: bs.BloomExpressionCondition}
		case "regex":
			return n, bs.RegexExpression{ExpressionType: bs.RegexExpressionCondition}
		}
		return n, bs.PrefilterExpression{ExpressionType: bs.PrefilterExpressionCondition}
	}
	n := node{T: "unk", C: []node{}}
	switch kind {
	case "bloom":
		return n, bs.BloomExpression{ExpressionType: "XOR"}
	case "regex":
		return n, bs.RegexExpression{ExpressionType: "XOR"}
	}
	return n, bs.PrefilterExpression{ExpressionType: "XOR"}
}

func roundTrip[T any](v T) (T, bool) {
	var out T
	b, err := json.Marshal(v)
	if err != nil {
		return out, false
	}
	if err := json.Unmarshal(b, &out); err != nil {
		return out, false
	}
	return out, true
}

func runProgram(id int, rng *rand.Rand, w *world, guard *h.StdioGuard) (o progObs) {
	o.ID = id
	std0 := guard.Len()
	defer func() { o.Stdio = guard.Len() - std0 }()
	defer func() {
		if p := recover(); p != nil {
			o.Panic = fmt.Sprint(p)
		}
	}()
	var defs []*def
	pick := func(kind string) []*def {
		var out []*def
		for _, d := range defs {
			if d.kind == kind {
				out = append(out, d)
			}
		}
		return out
	}
	nd := 4 + rng.Intn(10)
	for k := 0; k < nd; k++ {
		kind := []string{"bloom", "bloom", "regex", "pre"}[rng.Intn(4)]
		maxAtom := nAtoms
		if kind == "pre" {
			maxAtom = 2
		}
		nargs := rng.Intn(4)
		if rng.Intn(5) == 0 {
			nargs = 0
		}
		op := []string{"and", "or"}[rng.Intn(2)]
		// derive: an earlier group of the same operator as FIRST operand (composition by extension: q1 := And(base, x),
		// q2 := And(base, y)); the same base is preferred again and again so that it is shared by several derivations
		var base *def
		if cands := pick(kind); len(cands) > 0 && rng.Intn(10) < 5 {
			base = cands[len(cands)-1-rng.Intn(min(3, len(cands)))]
			op = base.written.T
			if nargs == 0 {
				nargs = 1 + rng.Intn(2)
			}
		}
		var wargs []node
		var bargs []bs.BloomExpression
		var rargs []bs.RegexExpression
		var pargs []bs.PrefilterExpression
		earlier := pick(kind)
		for i := 0; i < nargs; i++ {
			r := rng.Intn(10)
			switch {
			case base != nil && i == 0:
				wargs = append(wargs, base.written)
				if rng.Intn(3) == 0 {
					b, _ := roundTrip(base.bloom)
					rg, _ := roundTrip(base.regex)
					p, _ := roundTrip(base.pre)
					bargs, rargs, pargs = append(bargs, b), append(rargs, rg), append(pargs, p)
				} else {
					bargs, rargs, pargs = append(bargs, base.bloom), append(rargs, base.regex), append(pargs, base.pre)
				}
			case r < 4 || len(earlier) == 0 && r < 8:
				a := 1 + rng.Intn(maxAtom)
				wargs = append(wargs, atom(a))
				bargs, rargs, pargs = append(bargs, bloomAtom(a)), append(rargs, regexAtom(a)), append(pargs, preAtom(a))
			case r < 7 && len(earlier) > 0:
				// an earlier definition reused as operand - the first operand more often, so bases are shared
				d := earlier[rng.Intn(len(earlier))]
				wargs = append(wargs, d.written)
				bargs, rargs, pargs = append(bargs, d.bloom), append(rargs, d.regex), append(pargs, d.pre)
			case r < 8 && len(earlier) > 0:
				// the JSON-decoded image of an earlier definition, composed further
				d := earlier[rng.Intn(len(earlier))]
				wargs = append(wargs, d.written)
				b, _ := roundTrip(d.bloom)
				rg, _ := roundTrip(d.regex)
				p, _ := roundTrip(d.pre)
				bargs, rargs, pargs = append(bargs, b), append(rargs, rg), append(pargs, p)
			case kind == "regex" && op == "or":
				// the meaning of a condition-less regex node under OR is not defined anywhere (the compiler drops it,
				// i.e. treats it as OR's identity, while bloom evaluation treats it as TRUE): not generated
				a := 1 + rng.Intn(maxAtom)
				wargs = append(wargs, atom(a))
				bargs, rargs, pargs = append(bargs, bloomAtom(a)), append(rargs, regexAtom(a)), append(pargs, preAtom(a))
			default:
				n, v := special(rng, kind)
				wargs = append(wargs, n)
				var b bs.BloomExpression
				var rg bs.RegexExpression
				var p bs.PrefilterExpression
				switch kind {
				case "bloom":
					b = v.(bs.BloomExpression)
				case "regex":
					rg = v.(bs.RegexExpression)
				default:
					p = v.(bs.PrefilterExpression)
				}
				bargs, rargs, pargs = append(bargs, b), append(rargs, rg), append(pargs, p)
			}
		}
		if wargs == nil {
			wargs = []node{}
		}
		d := &def{kind: kind, written: node{T: op, C: wargs}}
		switch kind {
		case "bloom":
			if op == "and" {
				d.bloom = bs.And(bargs...)
			} else {
				d.bloom = bs.Or(bargs...)
			}
		case "regex":
			if op == "and" {
				d.regex = bs.RegexAnd(rargs...)
			} else {
				d.regex = bs.RegexOr(rargs...)
			}
		default:
			if op == "and" {
				d.pre = bs.PrefilterAnd(pargs...)
			} else {
				d.pre = bs.PrefilterOr(pargs...)
			}
		}
		defs = append(defs, d)
	}
	// builder chains
	type chain struct {
		obs  chainObs
		q    *bs.Query
		done bool // evaluated when it was built
	}
	var chains []*chain
	evalChain := func(ch *chain) chainObs {
		co := ch.obs
		// the bloom + regex part through the engine (the prefilter is evaluated on its own below)
		qq := &bs.Query{Bloom: ch.q.Bloom, Regex: ch.q.Regex}
		co.Obs, co.QErr = w.run(qq)
		if rt, ok := roundTrip(*ch.q); ok {
			co.ObsJSON, _ = w.run(&bs.Query{Bloom: rt.Bloom, Regex: rt.Regex})
			if rt.Prefilter != nil {
				co.PreObsJSON = w.evalPre(rt.Prefilter.Expression)
			} else {
				co.PreObsJSON = w.evalPre(nil)
			}
		} else {
			co.JSONErr, co.ObsJSON, co.PreObsJSON = true, []int{}, []int{}
		}
		if ch.q.Prefilter != nil {
			co.PreObs = w.evalPre(ch.q.Prefilter.Expression)
		} else {
			co.PreObs = w.evalPre(nil)
		}
		if co.Calls == nil {
			co.Calls = []string{}
		}
		if co.Bloom == nil {
			co.Bloom = []node{}
		}
		if co.Regex == nil {
			co.Regex = []node{}
		}
		if co.Pre == nil {
			co.Pre = []node{}
		}
		return co
	}
	nc := 1 + rng.Intn(3)
	for c := 0; c < nc; c++ {
		ch := &chain{}
		b := bs.NewQuery()
		matched, rmatched, pmatched := false, false, false
		steps := rng.Intn(6)
		for s := 0; s < steps; s++ {
			// Build is not a terminator: a builder that has been built keeps taking calls, and what was built at that
			// point is a query of its own (the conjunction written so far). Build hands out the builder's own Query, which
			// later calls keep changing, so that query is judged now, for what it means at this point.
			if s > 0 && rng.Intn(5) == 0 {
				snap := &chain{q: b.Build()}
				snap.obs.Calls = append(append([]string(nil), ch.obs.Calls...), "build")
				snap.obs.Bloom = append([]node(nil), ch.obs.Bloom...)
				snap.obs.Regex = append([]node(nil), ch.obs.Regex...)
				snap.obs.Pre = append([]node(nil), ch.obs.Pre...)
				snap.obs, snap.done = evalChain(snap), true
				chains = append(chains, snap)
				ch.obs.Calls = append(ch.obs.Calls, "build")
			}
			switch r := rng.Intn(10); {
			case r < 3:
				a := 1 + rng.Intn(nAtoms)
				switch a {
				case 1:
					b.Field("f1")
				case 2:
					b.FieldToken("f2", "v2")
				case 3:
					b.Field("f3")
				default:
					b.Token("tok")
				}
				ch.obs.Calls = append(ch.obs.Calls, fmt.Sprintf("leaf(%d)", a))
				ch.obs.Bloom = append(ch.obs.Bloom, atom(a))
			case r < 5:
				a := 1 + rng.Intn(nAtoms)
				ra := regexAtom(a)
				b.FieldRegex(ra.Condition.Field, ra.Condition.Pattern)
				ch.obs.Calls = append(ch.obs.Calls, fmt.Sprintf("regexleaf(%d)", a))
				ch.obs.Regex = append(ch.obs.Regex, atom(a))
			case r < 7 && !matched && len(pick("bloom")) > 0:
				ds := pick("bloom")
				d := ds[rng.Intn(len(ds))]
				b.Match(d.bloom)
				matched = true
				ch.obs.Calls = append(ch.obs.Calls, "match")
				ch.obs.Bloom = append(ch.obs.Bloom, d.written)
			case r < 8 && !rmatched && len(pick("regex")) > 0:
				ds := pick("regex")
				d := ds[rng.Intn(len(ds))]
				b.MatchRegex(d.regex)
				rmatched = true
				ch.obs.Calls = append(ch.obs.Calls, "matchregex")
				ch.obs.Regex = append(ch.obs.Regex, d.written)
			case r < 10 && !pmatched && len(pick("pre")) > 0:
				ds := pick("pre")
				d := ds[rng.Intn(len(ds))]
				b.MatchPrefilter(d.pre)
				pmatched = true
				ch.obs.Calls = append(ch.obs.Calls, "matchprefilter")
				ch.obs.Pre = append(ch.obs.Pre, d.written)
			}
		}
		ch.q = b.Build()
		chains = append(chains, ch)
	}
	// everything has been constructed: now evaluate every definition and every query
	for k, d := range defs {
		do := defObs{K: k + 1, Kind: d.kind, Written: d.written}
		switch d.kind {
		case "bloom":
			e := d.bloom
			do.Obs, _ = w.run(&bs.Query{Bloom: &bs.BloomQuery{Expression: &e}})
			if rt, ok := roundTrip(d.bloom); ok {
				do.ObsJSON, _ = w.run(&bs.Query{Bloom: &bs.BloomQuery{Expression: &rt}})
			} else {
				do.JSONErr, do.ObsJSON = true, []int{}
			}
		case "regex":
			e := d.regex
			do.Obs, _ = w.run(&bs.Query{Regex: &bs.RegexQuery{Expression: &e}})
			if rt, ok := roundTrip(d.regex); ok {
				do.ObsJSON, _ = w.run(&bs.Query{Regex: &bs.RegexQuery{Expression: &rt}})
			} else {
				do.JSONErr, do.ObsJSON = true, []int{}
			}
		default:
			e := d.pre
			do.Obs = w.evalPre(&e)
			if rt, ok := roundTrip(d.pre); ok {
				do.ObsJSON = w.evalPre(&rt)
			} else {
				do.JSONErr, do.ObsJSON = true, []int{}
			}
		}
		o.Defs = append(o.Defs, do)
	}
	for _, ch := range chains {
		co := ch.obs
		if !ch.done {
			co = evalChain(ch)
		}
		o.Chains = append(o.Chains, co)
	}
	return
}

func main() {
	out := flag.String("out", "", "output directory")
	seed := flag.Int64("seed", 1, "seed")
	tier := flag.String("tier", "quick", "quick|thorough")
	flag.Parse()
	if *out == "" {
		fmt.Fprintln(os.Stderr, "usage: builder -out DIR")
		os.Exit(2)
	}
	h.Must(os.MkdirAll(*out, 0o755), "mkdir")
	guard := h.CaptureStdio()
	w, err := newWorld()
	h.Must(err, "world")
	n := 600
	if *tier == "thorough" {
		n = 12000
	}
	rng := rand.New(rand.NewSource(*seed))
	f, err := os.Create(*out + "/obs.ndjson")
	h.Must(err, "create")
	enc := json.NewEncoder(f)
	for i := 1; i <= n; i++ {
		o := runProgram(i, rng, w, guard)
		if o.Defs == nil {
			o.Defs = []defObs{}
		}
		if o.Chains == nil {
			o.Chains = []chainObs{}
		}
		h.Must(enc.Encode(o), "encode")
	}
	f.Close()
	total := guard.Len()
	guard.Restore()
	h.WriteJSON(*out+"/summary.json", map[string]any{"programs": n, "stdio_bytes": total})
	fmt.Printf("builder: %d programs, %d stdio bytes\n", n, total)
}
