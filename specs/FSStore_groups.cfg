SPECIFICATION Spec
CONSTANTS
  Names = {n1,n2,n3,n4}
  Writers = {"w1","w2"}
  MergeOn = TRUE
  MaxFaults = 1
  CrashOn = TRUE
  PowerLossOn = TRUE
  DirSyncOnRemove = TRUE
  Groups = 2
  GroupSize = 1
  TombSyncs = TRUE
  MaxIno = 8
INVARIANTS AckedSurvive NoDuplicatesOutsideWindow NoDuplicatesAfterMergeReturned AckedNeverTorn ScanExact NeverExposed AbortLeavesNothing FailedMergeLeavesNothing
PROPERTIES NoClobber
SYMMETRY NameSym
CHECK_DEADLOCK FALSE
