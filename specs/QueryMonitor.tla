---------------------------- MODULE QueryMonitor ----------------------------
(***************************************************************************)
(* Judges what the real read path did (cmd/query observations). Each       *)
(* observation is one scenario derived from QueryPipeline.tla's action     *)
(* space: a pipeline goroutine held at a store call while the consumer,    *)
(* closers or the caller context act; a store failure at a call position;  *)
(* corrupted row data; several queries sharing the budget with every read  *)
(* held until quiescence. The predicates are the observable counterparts   *)
(* of QueryPipeline.tla's invariants (same names where they coincide).     *)
(***************************************************************************)
EXTENDS Integers, Sequences, FiniteSets, TLC, Json

CONSTANT ObsFile
Obs == ndJsonDeserialize(ObsFile)
NObs == Len(Obs)
VARIABLES l, viol
vars == << l, viol >>

AllQ(o, P(_)) == \A i \in 1..Len(o.qs) : P(o.qs[i])
\* the caller canceled before the terminal state was decided (first false Next / Close call)
\* (... or after Close had been called but while a held pipeline goroutine still kept Close from deciding anything)
Canceled(q) == q.canceled_before_decision \/ q.cancel_while_close_held
\* ran to its own end: neither canceled nor closed before Next returned false
OwnEnd(q) == ~Canceled(q) /\ ~q.closed_early /\ ~q.cancel_during_close

(***************************************************************************)
(* C20                                                                     *)
(***************************************************************************)
C20_NextEventuallyFalse(o) == AllQ(o, LAMBDA q : ~q.hung /\ q.first_false # 0)
C20_FalseIsSticky(o) == AllQ(o, LAMBDA q : (\A i \in 1..Len(q.next_later) : q.next_later[i] = FALSE) /\ q.row_nil_after)
C20_ErrNilOnlyIfClean(o) == AllQ(o, LAMBDA q : q.err_at_false = "nil" => (q.promised = 0 /\ ~Canceled(q)))
C20_ErrWrapsCtx(o) == AllQ(o, LAMBDA q : Canceled(q) => q.err_at_false = "ctx")
C20_ErrCtxOnlyIfCanceled(o) == AllQ(o, LAMBDA q : q.err_at_false = "ctx" => (q.cancel_seq # 0 /\ q.cancel_seq < q.first_false))
C20_ErrReportsFailures(o) ==
  AllQ(o, LAMBDA q : (~Canceled(q) /\ ~q.cancel_during_close /\ q.promised > 0) => (q.err_at_false = "errs" /\ q.reported >= q.promised))
C20_CorruptionReported(o) == AllQ(o, LAMBDA q : (OwnEnd(q) /\ q.corrupt_scanned) => q.err_at_false = "errs")
\* a terminal state decided by a Close that had returned before the caller canceled stays what Close decided
C20_CloseDecisionStands(o) ==
  AllQ(o, LAMBDA q : (q.close_ret_seq # 0 /\ q.first_false # 0 /\ q.close_ret_seq < q.first_false
                        /\ (q.cancel_seq = 0 \/ q.cancel_seq > q.close_ret_seq)) => q.err_at_false # "ctx")
C20_CloseReturnsNil(o) == AllQ(o, LAMBDA q : ~q.close_hung /\ \A i \in 1..Len(q.close_rets) : q.close_rets[i] = "nil")
C20_DecidedOnce(o) == AllQ(o, LAMBDA q : \A i \in 1..Len(q.err_later) : q.err_later[i] = q.err_at_false)
\* rows are sound whatever the schedule, and complete when the query ran to its own end with nothing failing
C20_RowsSound(o) == AllQ(o, LAMBDA q : q.alien = 0 /\ q.dup_rows = 0 /\ q.outside = 0)
C20_RowsCompleteOnCleanEnd(o) ==
  AllQ(o, LAMBDA q : (OwnEnd(q) /\ q.err_at_false = "nil" /\ q.injected = 0 /\ o.sc.corrupt = "") => q.missing = 0)
C20_NoPanic(o) == o.panic = ""
\* C03 (seen from the cursor's side): rows the consumer holds on to still say what they said at delivery, after Close / cancel and
\* after a later query has scanned the same blocks
C03_KeptRowsIntact(o) == AllQ(o, LAMBDA q : q.kept_changed = 0)

(***************************************************************************)
(* C21                                                                     *)
(***************************************************************************)
C21_EveryHandleClosedOnce(o) == \A i \in 1..Len(o.handles) : o.handles[i].closes = 1
C21_NoUseAfterClose(o) == \A i \in 1..Len(o.handles) : o.handles[i].after_use = 0
C21_NoSharedHandle(o) == \A i \in 1..Len(o.handles) : o.handles[i].max_users <= 1
C21_IteratorReturned(o) == AllQ(o, LAMBDA q : ~q.iter_open_at_done /\ ~q.iter_open_at_false /\ ~q.iter_open_at_close_ret)
C21_NoWorkerAlive(o) == o.leftover = 0
C21_BudgetRestored(o) == o.probe_want >= 0 => o.probe_held = o.probe_want

(***************************************************************************)
(* C22                                                                     *)
(***************************************************************************)
C22_ReadsBounded(o) == o.in_read_max <= o.sc.n
\* an OpenFile call in progress is query I/O against the DataStore as well (the property's title: query I/O stays within
\* MaxQueryConcurrency): opens and reads in progress together stay within the budget
C22_IOBounded(o) == o.in_io_max <= o.sc.n
C22_NoStarvation(o) == o.sc.kind = "multi" => AllQ(o, LAMBDA q : ~q.stalled => (~q.hung /\ q.err_at_false = "nil" /\ q.missing = 0))

(***************************************************************************)
(* C23 (pipeline half)                                                     *)
(***************************************************************************)
C23_AtMostOncePerBlock(o) == AllQ(o, LAMBDA q : q.stats.dups = 0 /\ q.stats.unknown = 0)
C23_AllOrNoneOfAFile(o) == AllQ(o, LAMBDA q : OwnEnd(q) => q.stats.partial_files = 0)
C23_ReturnedRowsBlockProcessed(o) == AllQ(o, LAMBDA q : q.stats.row_blocks_unprocessed = 0)
C23_SkippedZeroAndTotals(o) == AllQ(o, LAMBDA q : q.stats.skipped_nonzero = 0 /\ q.stats.totals_ok)
C23_RowsMatched(o) == AllQ(o, LAMBDA q : (OwnEnd(q) /\ ~q.stalled) => q.stats.rows_matched = q.rows_n)

C27_Silent(o) == o.stdio = 0

Props(o) ==
  [ C20_NextEventuallyFalse |-> C20_NextEventuallyFalse(o), C20_FalseIsSticky |-> C20_FalseIsSticky(o),
    C20_ErrNilOnlyIfClean |-> C20_ErrNilOnlyIfClean(o), C20_ErrWrapsCtx |-> C20_ErrWrapsCtx(o),
    C20_ErrCtxOnlyIfCanceled |-> C20_ErrCtxOnlyIfCanceled(o), C20_ErrReportsFailures |-> C20_ErrReportsFailures(o),
    C20_CorruptionReported |-> C20_CorruptionReported(o), C20_CloseReturnsNil |-> C20_CloseReturnsNil(o),
    C20_CloseDecisionStands |-> C20_CloseDecisionStands(o),
    C20_DecidedOnce |-> C20_DecidedOnce(o), C20_RowsSound |-> C20_RowsSound(o),
    C20_RowsCompleteOnCleanEnd |-> C20_RowsCompleteOnCleanEnd(o), C20_NoPanic |-> C20_NoPanic(o), C03_KeptRowsIntact |-> C03_KeptRowsIntact(o),
    C21_EveryHandleClosedOnce |-> C21_EveryHandleClosedOnce(o), C21_NoUseAfterClose |-> C21_NoUseAfterClose(o),
    C21_NoSharedHandle |-> C21_NoSharedHandle(o), C21_IteratorReturned |-> C21_IteratorReturned(o),
    C21_NoWorkerAlive |-> C21_NoWorkerAlive(o), C21_BudgetRestored |-> C21_BudgetRestored(o),
    C22_ReadsBounded |-> C22_ReadsBounded(o), C22_IOBounded |-> C22_IOBounded(o), C22_NoStarvation |-> C22_NoStarvation(o),
    C23_AtMostOncePerBlock |-> C23_AtMostOncePerBlock(o), C23_AllOrNoneOfAFile |-> C23_AllOrNoneOfAFile(o),
    C23_ReturnedRowsBlockProcessed |-> C23_ReturnedRowsBlockProcessed(o), C23_SkippedZeroAndTotals |-> C23_SkippedZeroAndTotals(o),
    C23_RowsMatched |-> C23_RowsMatched(o), C27_Silent |-> C27_Silent(o) ]

Init == l = 1 /\ viol = {}
Next == /\ l <= NObs
        /\ LET o == Obs[l] pr == Props(o) IN
             viol' = viol \cup { [p |-> n, id |-> o.id] : n \in { x \in DOMAIN pr : ~pr[x] } }
        /\ l' = l + 1
Spec == Init /\ [][Next]_vars
Report == (l = NObs + 1) => PrintT(<<"MONITOR-REPORT", ToJson([events |-> NObs, violations |-> viol])>>)
Count(P(_)) == Cardinality({ i \in 1..NObs : P(Obs[i]) })
Stats == (l = NObs + 1) => PrintT(<<"MONITOR-STATS", ToJson([
    paused_reached |-> Count(LAMBDA o : o.sc.pause # "" /\ o.reached),
    faults_reached |-> Count(LAMBDA o : o.sc.fault # "" /\ o.reached),
    promised |-> Count(LAMBDA o : \E i \in 1..Len(o.qs) : o.qs[i].promised > 0),
    canceled_before_decision |-> Count(LAMBDA o : \E i \in 1..Len(o.qs) : o.qs[i].canceled_before_decision),
    closed_early |-> Count(LAMBDA o : \E i \in 1..Len(o.qs) : o.qs[i].closed_early),
    corrupt_scanned |-> Count(LAMBDA o : \E i \in 1..Len(o.qs) : o.qs[i].corrupt_scanned),
    multi |-> Count(LAMBDA o : o.sc.kind = "multi"),
    budget_reached |-> Count(LAMBDA o : o.in_read_max = o.sc.n),
    gated |-> Count(LAMBDA o : o.sc.gate_reads),
    handles |-> Count(LAMBDA o : Len(o.handles) > 0) ])>>)
AllConsumed == TLCGet("stats").diameter = NObs + 1
=============================================================================
