#!/bin/sh
# usage: try_mutant.sh <patch.diff> <property>...   (applies to /repo, runs quick checks, reverts)
patch="$1"; shift
cd /repo || exit 2
git diff --quiet || { echo "repo dirty"; exit 2; }
git apply "$patch" || { echo "patch does not apply"; exit 2; }
for p in "$@"; do
  (cd /verif && timeout 1800 bin/check "$p" --tier quick 2>&1 | grep -E "^(VIOLATION|OK|INFRA|KNOWN)" | head -5)
done
git -C /repo checkout -- . 
