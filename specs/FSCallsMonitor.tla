--------------------------- MODULE FSCallsMonitor ---------------------------
(***************************************************************************)
(* Replays call sequences recorded from the real FileSystemDataStore       *)
(* (cmd/fs -mode calls) through the operators of FSCallsOps.tla: after     *)
(* every call the real directory (projected onto cells), the call's result, *)
(* a directory scan and OpenFile must equal what the specification yields.  *)
(* After a mismatch the model's directory is re-synchronised with the       *)
(* observed one so that the rest of the sequence is still checked.          *)
(***************************************************************************)
EXTENDS FSCallsOps, Json

CONSTANT TraceFile
Trace == ndJsonDeserialize(TraceFile)
NT == Len(Trace)
MonWriters == 1..400
MonNames == {"n1", "n2", "n3"}
VARIABLES l, s, viol
vars == << l, s, viol >>

Cell(c) == [e |-> c.e, p |-> c.p, k |-> c.k]
ObsDat(ev) == [n \in Names |-> Cell(ev.dat[n])]
ObsTmp(ev) == [n \in Names |-> Cell(ev.tmp[n])]

Step(s0, ev) ==
  CASE ev.op = "create"    -> LET r == DoCreate(s0, ev.w, ev.draws, ev.fault, ev.pay) IN [s |-> r.s, res |-> r.res, name |-> r.name]
    [] ev.op = "write"     -> LET r == DoWrite(s0, ev.w, ev.fault) IN [s |-> r.s, res |-> r.res, name |-> ev.name]
    [] ev.op = "close"     -> LET r == DoClose(s0, ev.w, ev.fault) IN [s |-> r.s, res |-> r.res, name |-> ev.name]
    [] ev.op = "abort"     -> LET r == DoAbort(s0, ev.w) IN [s |-> r.s, res |-> r.res, name |-> ev.name]
    [] ev.op = "tombstone" -> LET r == DoTombstone(s0, ev.w) IN [s |-> r.s, res |-> r.res, name |-> ev.name]
    [] ev.op = "open"      -> [s |-> s0, res |-> IF OpenView(s0, ev.w).e THEN "ok" ELSE "err", name |-> ev.name]

Checks(s0, ev) ==
  LET r == Step(s0, ev) IN
  [ C16_DirMatchesSpec |-> (ObsDat(ev) = r.s.dat /\ ObsTmp(ev) = r.s.tmp /\ ev.junk = 0),
    C16_ResultMatchesSpec |-> (ev.res = r.res /\ (ev.op = "create" /\ r.res = "ok" => ev.name = r.name)),
    C16_ScanExact |-> ({ ev.scan[i] : i \in 1..Len(ev.scan) } = ScanOf(r.s)),
    C16_OpenExact |-> (ev.op = "open" /\ ev.res = "ok" => Cell(ev.open) = OpenView(s0, ev.w)),
    C27_Silent |-> ev.stdio = 0 ]

Init == l = 1 /\ s = S0 /\ viol = {}
Next == /\ l <= NT
        /\ LET ev == Trace[l]
               s0 == IF ev.reset THEN S0 ELSE s
               r == Step(s0, ev)
               ck == Checks(s0, ev) IN
             /\ viol' = viol \cup { [p |-> n, id |-> ev.t, seq |-> ev.seq] : n \in { x \in DOMAIN ck : ~ck[x] } }
             \* continue from the specification's writers and the observed directory
             /\ s' = [r.s EXCEPT !.dat = ObsDat(ev), !.tmp = ObsTmp(ev)]
        /\ l' = l + 1
Spec == Init /\ [][Next]_vars
Report == (l = NT + 1) => PrintT(<<"MONITOR-REPORT", ToJson([events |-> NT, violations |-> viol])>>)
Count(P(_)) == Cardinality({ i \in 1..NT : P(Trace[i]) })
Stats == (l = NT + 1) => PrintT(<<"MONITOR-STATS", ToJson([
    traces |-> Count(LAMBDA e : e.reset), creates |-> Count(LAMBDA e : e.op = "create"),
    collisions |-> Count(LAMBDA e : e.op = "create" /\ Len(e.draws) > 1),
    closes_ok |-> Count(LAMBDA e : e.op = "close" /\ e.res = "ok"), closes_err |-> Count(LAMBDA e : e.op = "close" /\ e.res = "err"),
    aborts |-> Count(LAMBDA e : e.op = "abort"), tombstones |-> Count(LAMBDA e : e.op = "tombstone"),
    faults |-> Count(LAMBDA e : e.fault # ""), opens |-> Count(LAMBDA e : e.op = "open") ])>>)
AllConsumed == TLCGet("stats").diameter = NT + 1
=============================================================================
