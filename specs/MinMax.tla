------------------------------- MODULE MinMax -------------------------------
(***************************************************************************)
(* C04: minmax prefilters never prune a block holding a satisfying row.    *)
(*                                                                         *)
(* TLC integers are 32-bit, so the int64 boundary reasoning uses a finite  *)
(* symbolic ORDERED domain: the points below, listed in increasing numeric *)
(* order.  The specification only uses order, equality, floor/ceil and     *)
(* clamping, so the domain is order-isomorphic to the real values the      *)
(* harness substitutes (point name -> Go values of every numeric kind that *)
(* can hold it).                                                           *)
(***************************************************************************)
EXTENDS Integers, Sequences, SequencesExt, FiniteSets, TLC, Json

CONSTANT MaxVals   \* largest block (number of distinct row values) the design check explores

\* name, integer-valued?, representable as int64?
Points == <<
  [n |-> "BELOW",   int |-> TRUE,  i64 |-> FALSE],  \*  1  -1e19 (and -Inf)
  [n |-> "MIN",     int |-> TRUE,  i64 |-> TRUE ],  \*  2  math.MinInt64
  [n |-> "MIN1",    int |-> TRUE,  i64 |-> TRUE ],  \*  3  MinInt64+1
  [n |-> "NEG2",    int |-> TRUE,  i64 |-> TRUE ],  \*  4  -2
  [n |-> "NEG1H",   int |-> FALSE, i64 |-> FALSE],  \*  5  -1.5
  [n |-> "NEG1",    int |-> TRUE,  i64 |-> TRUE ],  \*  6  -1
  [n |-> "ZERO",    int |-> TRUE,  i64 |-> TRUE ],  \*  7  0
  [n |-> "HALF",    int |-> FALSE, i64 |-> FALSE],  \*  8  0.5
  [n |-> "ONE",     int |-> TRUE,  i64 |-> TRUE ],  \*  9  1
  [n |-> "TWO",     int |-> TRUE,  i64 |-> TRUE ],  \* 10  2
  [n |-> "MAXF",    int |-> TRUE,  i64 |-> TRUE ],  \* 11  2^63-1024 (largest float64 below 2^63)
  [n |-> "MAX1",    int |-> TRUE,  i64 |-> TRUE ],  \* 12  MaxInt64-1
  [n |-> "MAX",     int |-> TRUE,  i64 |-> TRUE ],  \* 13  math.MaxInt64
  [n |-> "ABOVE",   int |-> TRUE,  i64 |-> FALSE],  \* 14  2^63 (uint64 / float)
  [n |-> "ABOVE2",  int |-> TRUE,  i64 |-> FALSE]   \* 15  1e19 (and +Inf)
>>
P == 1..Len(Points)
MINP == 2
MAXP == 13
I64 == { p \in P : Points[p].i64 }

Floor(p) == IF Points[p].int THEN p ELSE p - 1     \* the neighbours of a non-integer point are integers
Ceil(p)  == IF Points[p].int THEN p ELSE p + 1
Clamp(p) == IF p < MINP THEN MINP ELSE IF p > MAXP THEN MAXP ELSE p
\* ConvertToMinMaxInt64
Conv(p) == [lo |-> Clamp(Floor(p)), hi |-> Clamp(Ceil(p))]

\* conditions: operands are int64 points
Ops1 == {"EQ", "NE", "GT", "GTE", "LT", "LTE"}
Conds ==
  { [op |-> o, x |-> x, xs |-> <<>>, lo |-> MINP, hi |-> MINP] : o \in Ops1, x \in I64 }
  \cup { [op |-> o, x |-> MINP, xs |-> <<a>>, lo |-> MINP, hi |-> MINP] : o \in {"IN", "NOT_IN"}, a \in I64 }
  \cup { [op |-> o, x |-> MINP, xs |-> <<ab[1], ab[2]>>, lo |-> MINP, hi |-> MINP] :
            o \in {"IN", "NOT_IN"}, ab \in { pr \in I64 \X I64 : pr[1] < pr[2] } }
  \cup { [op |-> o, x |-> MINP, xs |-> <<>>, lo |-> a, hi |-> b] : o \in {"BETWEEN", "NOT_BETWEEN"}, a \in I64, b \in I64 }

\* the row's own value satisfies the condition (real-number comparison)
Sat(v, c) ==
  CASE c.op = "EQ"  -> v = c.x
    [] c.op = "NE"  -> v # c.x
    [] c.op = "GT"  -> v > c.x
    [] c.op = "GTE" -> v >= c.x
    [] c.op = "LT"  -> v < c.x
    [] c.op = "LTE" -> v <= c.x
    [] c.op = "IN"  -> \E i \in 1..Len(c.xs) : c.xs[i] = v
    [] c.op = "NOT_IN" -> \A i \in 1..Len(c.xs) : c.xs[i] # v
    [] c.op = "BETWEEN" -> c.lo <= v /\ v <= c.hi
    [] c.op = "NOT_BETWEEN" -> v < c.lo \/ v > c.hi

\* block range of a set of row values
MinOf(S) == CHOOSE x \in S : \A y \in S : x <= y
MaxOf(S) == CHOOSE x \in S : \A y \in S : x >= y
RangeOf(V) == [lo |-> MinOf({Conv(v).lo : v \in V}), hi |-> MaxOf({Conv(v).hi : v \in V})]

\* EvaluateMinMaxCondition: bounds stored at the int64 extremes are open-ended
Eval(r, c) ==
  LET satAbove == r.hi = MAXP
      satBelow == r.lo = MINP IN
  CASE c.op = "EQ"  -> r.lo <= c.x /\ c.x <= r.hi
    [] c.op = "NE"  -> r.lo # c.x \/ r.hi # c.x \/ satAbove \/ satBelow
    [] c.op = "GT"  -> r.hi > c.x \/ satAbove
    [] c.op = "GTE" -> r.hi >= c.x
    [] c.op = "LT"  -> r.lo < c.x \/ satBelow
    [] c.op = "LTE" -> r.lo <= c.x
    [] c.op = "IN"  -> \E i \in 1..Len(c.xs) : r.lo <= c.xs[i] /\ c.xs[i] <= r.hi
    [] c.op = "NOT_IN" -> TRUE
    [] c.op = "BETWEEN" -> r.lo <= c.hi /\ c.lo <= r.hi
    [] c.op = "NOT_BETWEEN" -> r.lo < c.lo \/ r.hi > c.hi \/ satAbove \/ satBelow

(***************************************************************************)
(* Design theorem, checked by TLC for every block of one to three values   *)
(* and every condition.                                                    *)
(***************************************************************************)
VARIABLES vals, cond
vars == << vals, cond >>
Init == vals \in { S \in SUBSET P : Cardinality(S) \in 1..MaxVals } /\ cond = [op |-> "none", x |-> MINP, xs |-> <<>>, lo |-> MINP, hi |-> MINP]
Next == cond.op = "none" /\ cond' \in Conds /\ vals' = vals
Spec == Init /\ [][Next]_vars

NeverPrunesSatisfyingRow ==
  cond.op # "none" => ((\E v \in vals : Sat(v, cond)) => Eval(RangeOf(vals), cond))
\* unions only widen: adding rows never turns an included block into an excluded one
UnionMonotone ==
  cond.op # "none" => \A S \in SUBSET vals : (S # {} /\ Eval(RangeOf(S), cond)) => Eval(RangeOf(vals), cond)
\* the range really covers the converted values
RangeCovers == \A v \in vals : RangeOf(vals).lo <= Conv(v).lo /\ Conv(v).hi <= RangeOf(vals).hi

(***************************************************************************)
(* Export for the replayer: the expected verdicts are computed here.       *)
(***************************************************************************)
CondSeq == SetToSeq(Conds)
Export ==
  [ points |-> Points, conds |-> CondSeq,
    conv |-> [p \in P |-> Conv(p)],
    sat |-> [p \in P |-> [i \in 1..Len(CondSeq) |-> Sat(p, CondSeq[i])]] ]
=============================================================================
