SPECIFICATION Spec
CONSTANT MaxVals = 3
INVARIANTS NeverPrunesSatisfyingRow UnionMonotone RangeCovers
CHECK_DEADLOCK FALSE
