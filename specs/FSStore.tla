------------------------------ MODULE FSStore ------------------------------
(***************************************************************************)
(* FileSystemDataStore used as DataStore and MetaStore, at the granularity *)
(* of its filesystem mutations (the verifFS boundaries of                  *)
(* file_system_store.go), with the callers that drive it:                  *)
(*                                                                         *)
(*   flush writers  CreateFile (draw, exclusive 0-byte reservation,        *)
(*                  exclusive temp create), Write x2 (rows, footer), Close *)
(*                  (fsync, fd close, rename over the reservation,         *)
(*                  directory fsync), then the engine acknowledges; any    *)
(*                  step may fail, then Abort (remove temp, remove final)  *)
(*   merger         the same writer over the union of a group of published *)
(*                  files, once per merge group, then MetaStore.Update =   *)
(*                  remove each source of every group (followed by a       *)
(*                  directory fsync when DirSyncOnRemove); when a later    *)
(*                  group fails, its own output is aborted and the outputs *)
(*                  the earlier groups had already published are           *)
(*                  tombstoned (removed, then a directory fsync when       *)
(*                  TombSyncs) before Merge reports the failure            *)
(*   environment    Crash (process dies; page cache survives) and          *)
(*                  PowerLoss (namespace := last fsynced namespace plus    *)
(*                  any subset of the later directory operations; file     *)
(*                  data := anything between fsynced and written)          *)
(*                                                                         *)
(* A file holds a set of batches; it is readable iff both chunks reached   *)
(* its inode. A directory scan sees the ".dat" names bound to readable     *)
(* inodes. Properties are evaluated on what a new engine would see.        *)
(***************************************************************************)
EXTENDS Integers, Sequences, FiniteSets, TLC

CONSTANTS Names,            \* base names the draw can return (collisions forced by keeping it small)
          Writers,          \* flush writers, one batch each
          MergeOn,          \* a merger may run
          MaxFaults,        \* injected failures (each: the step reports an error and has no effect)
          CrashOn, PowerLossOn,
          DirSyncOnRemove,  \* Update fsyncs the directory after removing sources
          Groups, GroupSize,\* a merge runs Groups groups of GroupSize sources each, one output per group
          TombSyncs,        \* TombstoneFile of a published file ends with a directory fsync
          MaxIno

NameSym == Permutations(Names)   \* configs that make Names model values may declare it as SYMMETRY
Procs == Writers \cup (IF MergeOn THEN {"merger"} ELSE {})
Paths == Names \X {"dat", "tmp"}
NoIno == 0

VARIABLES
  dir,     \* volatile namespace: Paths -> inode or 0
  ddir,    \* namespace as of the last directory fsync
  pend,    \* directory operations since then: <<"bind", path, i>> | <<"unbind", path>> | <<"rename", from, to>>
  ino,     \* inode -> [data, synced, content]   data/synced in 0..2 chunks
  nextIno,
  p,       \* process -> [pc, name, tmpIno, content, sources, todo, outs]
           \*   merger: sources = every group's sources (what Update removes), todo = the groups still to be written,
           \*   outs = names of the outputs earlier groups have published
  acked,   \* batches whose flush reported success
  failed,  \* batches whose flush reported failure
  faults,
  mwin,    \* the merge window is open (see InWindow)
  dead,    \* "no" | "crash" | "power"
  window   \* history: the merger had published its output and Update (with its directory fsync) had not finished when the process died

vars == << dir, ddir, pend, ino, nextIno, p, acked, failed, faults, mwin, dead, window >>

P0 == [pc |-> "idle", name |-> "", tmpIno |-> 0, content |-> {}, sources |-> {}, todo |-> << >>, outs |-> {}]
BatchOf(w) == w

Init ==
  /\ dir = [x \in Paths |-> NoIno] /\ ddir = [x \in Paths |-> NoIno] /\ pend = << >>
  /\ ino = [i \in 1..MaxIno |-> [data |-> 0, synced |-> 0, content |-> {}]]
  /\ nextIno = 1
  /\ p = [x \in Procs |-> IF x \in Writers THEN [P0 EXCEPT !.content = {BatchOf(x)}] ELSE P0]
  /\ acked = {} /\ failed = {} /\ faults = 0 /\ mwin = FALSE /\ dead = "no" /\ window = FALSE

Alive == dead = "no"

(***************************************************************************)
(* what a scan of a namespace sees                                         *)
(***************************************************************************)
Readable(I, i) == i # NoIno /\ I[i].data = 2
VisibleNames(D, I) == { n \in Names : Readable(I, D[<< n, "dat" >>]) }
Count(D, I, b) == Cardinality({ n \in VisibleNames(D, I) : b \in I[D[<< n, "dat" >>]].content })
AllBatches == Writers

(***************************************************************************)
(* CreateFile                                                              *)
(***************************************************************************)
Bind(path, i) == /\ dir' = [dir EXCEPT ![path] = i] /\ pend' = Append(pend, << "bind", path, i >>)
Unbind(path) == /\ dir' = [dir EXCEPT ![path] = NoIno]
                /\ pend' = IF dir[path] = NoIno THEN pend ELSE Append(pend, << "unbind", path >>)

Fail(x) == /\ faults < MaxFaults /\ faults' = faults + 1

\* draw + exclusive reservation of the final name (a taken name redraws)
Reserve(x) ==
  /\ Alive /\ p[x].pc = "create" /\ nextIno <= MaxIno
  /\ \E n \in Names :
       IF dir[<< n, "dat" >>] # NoIno
         THEN UNCHANGED vars                                     \* EEXIST: redraw
         ELSE /\ Bind(<< n, "dat" >>, nextIno) /\ nextIno' = nextIno + 1
              /\ p' = [p EXCEPT ![x] = [@ EXCEPT !.pc = "tmpcreate", !.name = n]]
              /\ UNCHANGED << ddir, ino, acked, failed, faults, mwin, dead, window >>

\* exclusive create of the temp name; an orphaned temp releases the reservation and redraws
TmpCreate(x) ==
  LET n == p[x].name IN
  /\ Alive /\ p[x].pc = "tmpcreate" /\ nextIno <= MaxIno
  /\ IF dir[<< n, "tmp" >>] # NoIno
       THEN /\ Unbind(<< n, "dat" >>) /\ p' = [p EXCEPT ![x] = [@ EXCEPT !.pc = "create", !.name = ""]]
            /\ UNCHANGED << ddir, ino, nextIno, acked, failed, faults, mwin, dead, window >>
       ELSE /\ Bind(<< n, "tmp" >>, nextIno) /\ nextIno' = nextIno + 1
            /\ ino' = [ino EXCEPT ![nextIno].content = p[x].content]
            /\ p' = [p EXCEPT ![x] = [@ EXCEPT !.pc = "write", !.tmpIno = nextIno]]
            /\ UNCHANGED << ddir, acked, failed, faults, mwin, dead, window >>

Write(x) ==
  LET i == p[x].tmpIno IN
  /\ Alive /\ p[x].pc = "write"
  /\ ino' = [ino EXCEPT ![i].data = @ + 1]
  /\ p' = [p EXCEPT ![x].pc = IF ino[i].data = 1 THEN "sync" ELSE "write"]
  /\ UNCHANGED << dir, ddir, pend, nextIno, acked, failed, faults, mwin, dead, window >>

Sync(x) ==
  LET i == p[x].tmpIno IN
  /\ Alive /\ p[x].pc = "sync"
  /\ ino' = [ino EXCEPT ![i].synced = ino[i].data]
  /\ p' = [p EXCEPT ![x].pc = "rename"]
  /\ UNCHANGED << dir, ddir, pend, nextIno, acked, failed, faults, mwin, dead, window >>

\* rename the temp over the reservation
Rename(x) ==
  LET n == p[x].name IN
  /\ Alive /\ p[x].pc = "rename"
  /\ dir' = [dir EXCEPT ![<< n, "dat" >>] = dir[<< n, "tmp" >>], ![<< n, "tmp" >>] = NoIno]
  /\ pend' = Append(pend, << "rename", << n, "tmp" >>, << n, "dat" >> >>)
  /\ p' = [p EXCEPT ![x].pc = "dirsync"]
  /\ mwin' = (mwin \/ x = "merger")
  /\ UNCHANGED << ddir, ino, nextIno, acked, failed, faults, dead, window >>

DirSync(x) ==
  /\ Alive /\ p[x].pc = "dirsync"
  /\ ddir' = dir /\ pend' = << >>
  /\ p' = [p EXCEPT ![x].pc = "published"]
  /\ UNCHANGED << dir, ino, nextIno, acked, failed, faults, mwin, dead, window >>

\* any step of the write cycle may report a failure instead of taking effect: the caller aborts
StepFails(x) ==
  /\ Alive /\ p[x].pc \in {"tmpcreate", "write", "sync", "rename", "dirsync"} /\ p[x].name # ""
  /\ Fail(x)
  /\ p' = [p EXCEPT ![x].pc = "abort_tmp"]
  /\ UNCHANGED << dir, ddir, pend, ino, nextIno, acked, failed, mwin, dead, window >>

AbortRmTmp(x) ==
  /\ Alive /\ p[x].pc = "abort_tmp"
  /\ Unbind(<< p[x].name, "tmp" >>)
  /\ p' = [p EXCEPT ![x].pc = "abort_final"]
  /\ UNCHANGED << ddir, ino, nextIno, acked, failed, faults, mwin, dead, window >>

AbortRmFinal(x) ==
  /\ Alive /\ p[x].pc = "abort_final"
  /\ Unbind(<< p[x].name, "dat" >>)
  /\ p' = [p EXCEPT ![x].pc = "abort_sync"]
  /\ UNCHANGED << ddir, ino, nextIno, acked, failed, faults, mwin, dead, window >>

\* Abort ends with a directory fsync (when DirSyncOnRemove): the removals are durable before the failure is reported
AbortSync(x) ==
  /\ Alive /\ p[x].pc = "abort_sync"
  /\ IF DirSyncOnRemove THEN ddir' = dir /\ pend' = << >> ELSE UNCHANGED << ddir, pend >>
  /\ p' = [p EXCEPT ![x].pc = IF p[x].outs # {} THEN "tomb" ELSE "failed"]
  /\ failed' = IF x \in Writers THEN failed \cup {BatchOf(x)} ELSE failed
  /\ mwin' = IF x = "merger" /\ DirSyncOnRemove /\ p[x].outs = {} THEN FALSE ELSE mwin
  /\ UNCHANGED << dir, ino, nextIno, acked, faults, dead, window >>

(***************************************************************************)
(* flush writers                                                           *)
(***************************************************************************)
FlushStart(w) ==
  /\ Alive /\ p[w].pc = "idle" /\ p' = [p EXCEPT ![w].pc = "create"]
  /\ UNCHANGED << dir, ddir, pend, ino, nextIno, acked, failed, faults, mwin, dead, window >>

\* Close returned nil; MetaStore.Update is a no-op for writes; the engine acknowledges
FlushAck(w) ==
  /\ Alive /\ p[w].pc = "published" /\ w \in Writers
  /\ acked' = acked \cup {BatchOf(w)}
  /\ p' = [p EXCEPT ![w].pc = "done"]
  /\ UNCHANGED << dir, ddir, pend, ino, nextIno, failed, faults, mwin, dead, window >>

(***************************************************************************)
(* merger                                                                  *)
(***************************************************************************)
Published == { n \in VisibleNames(dir, ino) : \E w \in Writers : p[w].pc = "done" /\ p[w].name = n }

ContentOf(S) == UNION { ino[dir[<< n, "dat" >>]].content : n \in S }

\* the planner's result: Groups disjoint groups of GroupSize published files
MergeStart ==
  /\ Alive /\ MergeOn /\ p["merger"].pc = "idle"
  /\ \E gs \in [1..Groups -> SUBSET Published] :
       /\ \A g \in 1..Groups : Cardinality(gs[g]) = GroupSize
       /\ \A g, h \in 1..Groups : g # h => gs[g] \cap gs[h] = {}
       /\ p' = [p EXCEPT !["merger"] = [@ EXCEPT !.pc = "create", !.sources = UNION { gs[g] : g \in 1..Groups },
                   !.content = ContentOf(gs[1]),
                   !.todo = [g \in 1..(Groups - 1) |-> ContentOf(gs[g + 1])], !.outs = {}]]
  /\ UNCHANGED << dir, ddir, pend, ino, nextIno, acked, failed, faults, mwin, dead, window >>

\* a group's output is published and further groups remain: the next one is written the same way
MergeNextGroup ==
  /\ Alive /\ MergeOn /\ p["merger"].pc = "published" /\ p["merger"].todo # << >>
  /\ p' = [p EXCEPT !["merger"] = [@ EXCEPT !.pc = "create", !.outs = @ \cup {p["merger"].name}, !.name = "", !.tmpIno = 0,
                !.content = Head(p["merger"].todo), !.todo = Tail(p["merger"].todo)]]
  /\ UNCHANGED << dir, ddir, pend, ino, nextIno, acked, failed, faults, mwin, dead, window >>

\* a later group failed (its own output is aborted): TombstoneFile of each output published before it
TombRemove ==
  /\ Alive /\ MergeOn /\ p["merger"].pc = "tomb"
  /\ \E n \in p["merger"].outs :
       /\ Unbind(<< n, "dat" >>)
       /\ p' = [p EXCEPT !["merger"] = [@ EXCEPT !.pc = "tomb_sync", !.outs = @ \ {n}]]
  /\ UNCHANGED << ddir, ino, nextIno, acked, failed, faults, mwin, dead, window >>

TombSync ==
  /\ Alive /\ MergeOn /\ p["merger"].pc = "tomb_sync"
  /\ IF TombSyncs THEN ddir' = dir /\ pend' = << >> ELSE UNCHANGED << ddir, pend >>
  /\ p' = [p EXCEPT !["merger"].pc = IF p["merger"].outs = {} THEN "failed" ELSE "tomb"]
  /\ mwin' = IF TombSyncs /\ p["merger"].outs = {} THEN FALSE ELSE mwin
  /\ UNCHANGED << dir, ino, nextIno, acked, failed, faults, dead, window >>

\* MetaStore.Update: remove one source
MergeRemove ==
  /\ Alive /\ MergeOn /\ p["merger"].pc = "published" /\ p["merger"].todo = << >> /\ p["merger"].sources # {}
  /\ \E s \in p["merger"].sources :
       /\ Unbind(<< s, "dat" >>)
       /\ p' = [p EXCEPT !["merger"].sources = @ \ {s}]
  /\ UNCHANGED << ddir, ino, nextIno, acked, failed, faults, mwin, dead, window >>

MergeUpdateDone ==
  /\ Alive /\ MergeOn /\ p["merger"].pc = "published" /\ p["merger"].todo = << >> /\ p["merger"].sources = {}
  /\ IF DirSyncOnRemove THEN ddir' = dir /\ pend' = << >> ELSE UNCHANGED << ddir, pend >>
  /\ p' = [p EXCEPT !["merger"].pc = "done"]
  /\ mwin' = IF DirSyncOnRemove THEN FALSE ELSE mwin
  /\ UNCHANGED << dir, ino, nextIno, acked, failed, faults, dead, window >>

(***************************************************************************)
(* crash and power loss                                                    *)
(***************************************************************************)
\* the merge window: from the rename that exposes the first merged output until the directory fsync that makes the
\* removal of the sources (Update) or of every published output (Abort of the failing one, TombstoneFile of the
\* earlier ones) durable
InWindow == mwin

Crash ==
  /\ Alive /\ CrashOn /\ dead' = "crash" /\ window' = InWindow
  /\ UNCHANGED << dir, ddir, pend, ino, nextIno, p, acked, failed, faults, mwin >>

\* apply a subset of the pending directory operations, in order, to the durable namespace
RECURSIVE ApplyOps(_, _, _)
ApplyOps(D, ops, keep) ==
  IF ops = << >> THEN D
  ELSE LET op == Head(ops)
           D2 == IF ~Head(keep) THEN D
                 ELSE IF op[1] = "bind" THEN [D EXCEPT ![op[2]] = op[3]]
                 ELSE IF op[1] = "unbind" THEN [D EXCEPT ![op[2]] = NoIno]
                 ELSE IF D[op[2]] = NoIno THEN D            \* rename whose source never became durable
                 ELSE [D EXCEPT ![op[3]] = D[op[2]], ![op[2]] = NoIno]
       IN ApplyOps(D2, Tail(ops), Tail(keep))

PowerLoss ==
  /\ Alive /\ PowerLossOn /\ dead' = "power" /\ window' = InWindow
  /\ \E keep \in [1..Len(pend) -> BOOLEAN] :
       dir' = ApplyOps(ddir, pend, [k \in 1..Len(pend) |-> keep[k]])
  /\ \E d \in [1..MaxIno -> 0..2] :
       /\ \A i \in 1..MaxIno : d[i] >= ino[i].synced /\ d[i] <= ino[i].data
       /\ ino' = [i \in 1..MaxIno |-> [ino[i] EXCEPT !.data = d[i]]]
  /\ UNCHANGED << ddir, pend, nextIno, p, acked, failed, faults, mwin >>

Next ==
  \/ \E x \in Procs : Reserve(x) \/ TmpCreate(x) \/ Write(x) \/ Sync(x) \/ Rename(x) \/ DirSync(x)
                      \/ StepFails(x) \/ AbortRmTmp(x) \/ AbortRmFinal(x) \/ AbortSync(x)
  \/ \E w \in Writers : FlushStart(w) \/ FlushAck(w)
  \/ MergeStart \/ MergeNextGroup \/ MergeRemove \/ MergeUpdateDone \/ TombRemove \/ TombSync
  \/ Crash \/ PowerLoss

Spec == Init /\ [][Next]_vars

(***************************************************************************)
(* C15: what a new engine over the directory sees after the process died   *)
(***************************************************************************)
AckedSurvive == dead # "no" => \A b \in acked : Count(dir, ino, b) >= 1
NoDuplicatesOutsideWindow == (dead # "no" /\ ~window) => \A b \in AllBatches : Count(dir, ino, b) <= 1
NoDuplicates == dead # "no" => \A b \in AllBatches : Count(dir, ino, b) <= 1   \* fails exactly in the known window
\* once Merge has returned (either way) no later crash or power loss shows a row twice
NoDuplicatesAfterMergeReturned == (dead # "no" /\ MergeOn /\ p["merger"].pc \in {"done", "failed"}) =>
                                     \A b \in AllBatches : Count(dir, ino, b) <= 1
\* a ".dat" name is never bound to a torn file that had been acknowledged
AckedNeverTorn == dead # "no" => \A n \in Names : LET i == dir[<< n, "dat" >>] IN
                     (i # NoIno /\ ino[i].data = 1) => ino[i].content \cap acked = {}

(***************************************************************************)
(* C16 (no crash): the store behaves like its specification                *)
(***************************************************************************)
Quiescent == \A x \in Procs : p[x].pc \in {"idle", "done", "failed"}
\* a quiescent scan lists exactly the files whose Close succeeded (and that were not removed), with their bytes
ScanExact == (Alive /\ Quiescent) =>
     /\ \A w \in Writers : p[w].pc = "done" => Count(dir, ino, BatchOf(w)) >= 1
     /\ \A w \in Writers : p[w].pc \in {"failed", "idle"} => Count(dir, ino, BatchOf(w)) = 0
     /\ \A b \in AllBatches : Count(dir, ino, b) <= 1
\* a name bound to a readable file only ever belongs to a writer that is publishing or has published it
NeverExposed == Alive => \A n \in VisibleNames(dir, ino) :
     \E x \in Procs : \/ p[x].name = n /\ p[x].pc \in {"dirsync", "published", "done", "abort_tmp", "abort_final", "abort_sync"}
                      \/ n \in p[x].outs
\* a published file's binding never changes except by its removal
NoClobber == [][\A n \in Names : (Alive /\ dir[<< n, "dat" >>] # NoIno /\ Readable(ino, dir[<< n, "dat" >>])
                    /\ \E w \in Writers : p[w].pc = "done" /\ p[w].name = n)
                  => (dir'[<< n, "dat" >>] \in {dir[<< n, "dat" >>], NoIno} \/ dead' # "no")]_vars
\* a Merge that reports a failure leaves none of its outputs behind
FailedMergeLeavesNothing == (Alive /\ MergeOn /\ p["merger"].pc = "failed") =>
     \A w \in Writers : p[w].pc = "done" => Count(dir, ino, BatchOf(w)) = 1
AbortLeavesNothing == Alive => \A x \in Procs : p[x].pc = "failed" =>
     \A k \in {"dat", "tmp"} : dir[<< p[x].name, k >>] = NoIno \/ \E y \in Procs \ {x} : p[y].name = p[x].name /\ p[y].pc # "failed"
=============================================================================
