---------------------------- MODULE SilentMonitor ----------------------------
(***************************************************************************)
(* C27: with no Logger configured no engine operation writes to standard   *)
(* output or standard error. In every specification of this directory the  *)
(* engine's actions leave standard output untouched - stdio is not a        *)
(* variable any action changes - so the property is [][stdio' = stdio]_vars *)
(* by construction; what has to be established is that the implementation   *)
(* has no action outside the model that writes. Each observation is one     *)
(* operation history (cmd/silent) run twice: with a capturing Logger, which  *)
(* lists the diagnostics the history provokes (the engine's logging sites    *)
(* reached), and with no Logger under captured file descriptors 1 and 2.    *)
(***************************************************************************)
EXTENDS Integers, Sequences, FiniteSets, TLC, Json

CONSTANT ObsFile
Obs == ndJsonDeserialize(ObsFile)
NObs == Len(Obs)
VARIABLES l, viol
vars == << l, viol >>

C27_Silent(o) == o.stdio = 0
C27_NoPanic(o) == o.panic = ""
Props(o) == [ C27_Silent |-> C27_Silent(o), C27_NoPanic |-> C27_NoPanic(o) ]

Init == l = 1 /\ viol = {}
Next == /\ l <= NObs
        /\ LET o == Obs[l] pr == Props(o) IN
             viol' = viol \cup { [p |-> n, id |-> o.id] : n \in { x \in DOMAIN pr : ~pr[x] } }
        /\ l' = l + 1
Spec == Init /\ [][Next]_vars
Report == (l = NObs + 1) => PrintT(<<"MONITOR-REPORT", ToJson([events |-> NObs, violations |-> viol])>>)
Sites == UNION { { Obs[i].messages[j] : j \in 1..Len(Obs[i].messages) } : i \in 1..NObs }
Stats == (l = NObs + 1) => PrintT(<<"MONITOR-STATS", ToJson([
    scenarios |-> NObs, logging_sites_reached |-> Cardinality(Sites),
    scenarios_with_diagnostics |-> Cardinality({ i \in 1..NObs : Len(Obs[i].messages) > 0 }),
    scenarios_with_warnings |-> Cardinality({ i \in 1..NObs : \E j \in 1..Len(Obs[i].messages) : SubSeq(Obs[i].messages[j], 1, 4) = "WARN" }) ])>>)
AllConsumed == TLCGet("stats").diameter = NObs + 1
=============================================================================
