---------------------------- MODULE MCWritePath ----------------------------
EXTENDS WritePath

\* configuration A: two row batches and a Flush behind the first
KindA == (1 :> "rows" @@ 2 :> "rows" @@ 3 :> "force")
ChanA == (1 :> "buf" @@ 2 :> "unbuf" @@ 3 :> "buf")
PrevA == (1 :> {} @@ 2 :> {} @@ 3 :> {1})

\* configuration B: empty / rejected / abandoned
KindB == (1 :> "rows" @@ 2 :> "empty" @@ 3 :> "bad")
ChanB == (1 :> "aband" @@ 2 :> "late" @@ 3 :> "late")
PrevB == (1 :> {} @@ 2 :> {} @@ 3 :> {})

\* configuration C: three row batches, nil channel in the middle, sequential client
KindC == (1 :> "rows" @@ 2 :> "rows" @@ 3 :> "rows")
ChanC == (1 :> "late" @@ 2 :> "nil" @@ 3 :> "buf")
PrevC == (1 :> {} @@ 2 :> {1} @@ 3 :> {})

\* configuration D (four calls): rows, rows, Flush, rows
KindD == (1 :> "rows" @@ 2 :> "rows" @@ 3 :> "force" @@ 4 :> "rows")
ChanD == (1 :> "buf" @@ 2 :> "unbuf" @@ 3 :> "buf" @@ 4 :> "aband")
PrevD == (1 :> {} @@ 2 :> {} @@ 3 :> {1} @@ 4 :> {})
=============================================================================
