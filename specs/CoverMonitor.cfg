SPECIFICATION Spec
CONSTANTS
  ObsFile = "obs.ndjson"
INVARIANTS Report Stats
POSTCONDITION AllConsumed
CHECK_DEADLOCK FALSE
