SPECIFICATION Spec
CONSTANT MaxVals = 2
INVARIANTS NeverPrunesSatisfyingRow UnionMonotone RangeCovers
CHECK_DEADLOCK FALSE
