"""C04: MinMax.tla (symbolic ordered int64 domain) design-checked by TLC; every
point / pair of points with every Go numeric kind replayed on the real
conversion + evaluation functions and end to end; judged by MinMaxMonitor.tla."""
import json
import os
import re
import shutil
import time

from vcommon import Infra, drive, build_harness, copy_specs, monitor_report, run, scratch_dir, tlc, tlc_errors, tlc_stats, tlc_violations

PROPS = ["C04"]
N = {"quick": 500, "thorough": 6000}
E2E = {"quick": 90, "thorough": 1500}
DESIGN = {"quick": "MinMaxDesign.cfg", "thorough": "MinMaxDesign_thorough.cfg"}


def monitor(work, obs):
    shutil.copyfile(obs, os.path.join(work, "obs.ndjson"))
    rc, out, secs = tlc(work, "MinMaxMonitor.tla", "MinMaxMonitor.cfg", workers=1, timeout=3000)
    errs = tlc_errors(out)
    if errs:
        raise Infra("minmax monitor failed: %s\n%s" % (errs[:3], out[-2000:]))
    return monitor_report(out)


def compute(tier, seed):
    t0 = time.time()
    work = scratch_dir("minmax")
    try:
        copy_specs(work)
        rc, out, dsecs = tlc(work, "MinMax.tla", DESIGN[tier], workers=16, timeout=3000)
        ds, dg = tlc_stats(out)
        dv = tlc_violations(out) + tlc_errors(out)
        design = {"cfg": DESIGN[tier], "states": ds, "transitions": dg, "secs": round(dsecs, 1),
                  "violations": dv if (dv or ds == 0) else []}
        rc, out, _ = tlc(work, "MinMaxExport.tla", "MinMaxExport.cfg", workers=1, timeout=300)
        m = re.search(r'<<"MINMAX", (".*")>>', out)
        if not m:
            raise Infra("minmax export failed: " + out[-1500:])
        exp = os.path.join(work, "minmax.json")
        open(exp, "w").write(json.loads(m.group(1)))
        mbin = build_harness("minmax")
        outdir = os.path.join(work, "run")
        txt, _ = drive([mbin, "-out", outdir, "-export", exp, "-n", str(N[tier]), "-e2e", str(E2E[tier]), "-seed", str(seed)], work, "minmax", timeout=3000)
        obs_path = os.path.join(outdir, "obs.ndjson")
        rep = monitor(work, obs_path)
        obs = {}
        nobs = e2e = 0
        kinds = set()
        for line in open(obs_path):
            o = json.loads(line)
            nobs += 1
            e2e += 1 if o["e2e"] else 0
            kinds.update(o["kinds"])
            obs[o["id"]] = o
        viol = []
        if rep["violations"]:
            # deterministic harness: a second run with the same seed must show the same violations
            out2 = os.path.join(work, "rerun")
            run([mbin, "-out", out2, "-export", exp, "-n", str(N[tier]), "-e2e", str(E2E[tier]), "-seed", str(seed)], timeout=3000)
            rep2 = monitor(work, os.path.join(out2, "obs.ndjson"))
            again = set((v["id"], v["p"]) for v in rep2["violations"])
            for v in rep["violations"]:
                o = dict(obs[v["id"]])
                for k in ("eval", "evalm"):
                    o.pop(k, None)
                viol.append({"pred": v["p"], "prop": "C04", "title": "values %s kinds %s" % (o["vals"], o["kinds"]),
                             "sig": {"pred": v["p"], "kinds": sorted(set(o["kinds"]))}, "reproduced": (v["id"], v["p"]) in again,
                             "observation": o})
        samples = [{k: obs[i][k] for k in ("vals", "kinds", "clo", "chi", "rlo", "rhi", "layout")} for i in sorted(obs)[:200:67]]
        return {"design": design, "impl": {"obs": nobs, "e2e": e2e, "kinds": sorted(kinds), "drift": rep.get("drift", [])[:20],
                                           "conds": len(json.load(open(exp))["conds"])},
                "violations": viol, "samples": samples, "wall_s": round(time.time() - t0, 1)}
    finally:
        shutil.rmtree(work, ignore_errors=True)


def evidence(pid, tier, res):
    des, impl = res["design"], res["impl"]
    if des["violations"]:
        res["design_failed"] = des["violations"]
    cov = {"states": des["states"], "transitions": des["transitions"], "traces_validated_against_impl": impl["obs"],
           "samples": res["samples"], "design_run": des,
           "conditions_per_observation": impl["conds"], "end_to_end_observations": impl["e2e"], "go_kinds_exercised": impl["kinds"],
           "model_drift": impl["drift"], "exhaustive": True,
           "summary": "%d value sets x %d conditions on the real functions, %d end to end; design %d states"
                      % (impl["obs"], impl["conds"], impl["e2e"], des["states"])}
    assumptions = ["the symbolic points are order-isomorphic to the concrete values substituted (math.MinInt64+k, small integers and "
                   "halves, 2^63-1024, math.MaxInt64-k, 2^63, 1e19, +-Inf)", "NaN is excluded (documented as not indexed)"]
    return "model_checking", cov, assumptions
