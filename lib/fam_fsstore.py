"""Filesystem-store family (C15 C16).

FSStore.tla: the store at the granularity of its filesystem mutations with
flush and merge callers, Crash and PowerLoss; TLC checks the recovery
invariants (AckedSurvive, NoDuplicatesOutsideWindow,
NoDuplicatesAfterMergeReturned, ...) and, without crashes, ScanExact /
NeverExposed / NoClobber under forced name collisions.  FSCalls.tla: the
call-level specification of the DataStore, explored by TLC.

cmd/fs runs the real store: (calls) seeded call sequences with forced
collisions, replayed through FSCalls' operators by FSCallsMonitor.tla with
the real directory compared after every call; (crash) engine histories with a
directory snapshot at every mutation boundary, from which the crash image and
the model's power-loss images are materialised, reopened and queried, judged
by FSImageMonitor.tla."""
import json
import os
import re
import shutil
import time

from vcommon import Infra, drive, build_harness, copy_specs, monitor_report, run, scratch_dir, tlc, tlc_errors, tlc_stats, tlc_violations

PROPS = ["C15", "C16"]
DESIGN = {
    "quick": [("FSStore.tla", "FSStore_crash.cfg"), ("FSStore.tla", "FSStore_groups.cfg"), ("FSCalls.tla", "FSCalls.cfg")],
    "thorough": [("FSStore.tla", "FSStore_crash.cfg"), ("FSStore.tla", "FSStore_groups.cfg"), ("FSStore.tla", "FSStore_collide.cfg"), ("FSCalls.tla", "FSCalls.cfg")],
}
# counterexamples that must exist: the recorded merge-window finding, the repaired "removals are not fsynced" defect
# with the repair switched off in the specification, and a failed two-group merge whose tombstone of the first group's
# published output is not fsynced
EXPECTED = [("FSStore.tla", "FSStore_window.cfg", "NoDuplicates"), ("FSStore.tla", "FSStore_nosync.cfg", "NoDuplicatesAfterMergeReturned"),
            ("FSStore.tla", "FSStore_tombnosync.cfg", "NoDuplicatesAfterMergeReturned")]


def run_monitor(work, module, trace_name, src):
    shutil.copyfile(src, os.path.join(work, trace_name))
    rc, out, secs = tlc(work, module + ".tla", module + ".cfg", workers=1, timeout=3000, heap="8g")
    errs = tlc_errors(out)
    if errs:
        raise Infra("%s failed: %s\n%s" % (module, errs[:3], out[-2000:]))
    rep = monitor_report(out)
    m = re.search(r'<<"MONITOR-STATS", (".*")>>', out)
    return rep, (json.loads(json.loads(m.group(1))) if m else {})


def judge(work, outdir):
    crep, cstats = run_monitor(work, "FSCallsMonitor", "calls.ndjson", os.path.join(outdir, "calls.ndjson"))
    irep, istats = run_monitor(work, "FSImageMonitor", "images.ndjson", os.path.join(outdir, "images.ndjson"))
    images = {}
    for line in open(os.path.join(outdir, "images.ndjson")):
        o = json.loads(line)
        images[o["id"]] = o
    v = []
    for x in crep["violations"]:
        v.append({"pred": x["p"], "key": ("calls", x["id"], x["seq"], x["p"]), "trace": x["id"], "seq": x["seq"]})
    for x in irep["violations"]:
        o = images[x["id"]]
        v.append({"pred": x["p"], "key": ("image", o["hist"], o["k"], o["label"], o["mode"], o["variant"], x["p"]), "image": o})
    rrep, rstats = run_monitor(work, "FSRaceMonitor", "races.ndjson", os.path.join(outdir, "races.ndjson"))
    races = {}
    for line in open(os.path.join(outdir, "races.ndjson")):
        o = json.loads(line)
        races[o["id"]] = o
    drift = []
    for x in rrep["violations"]:
        if x["p"].startswith("DRIFT"):
            drift.append({"trace": x["id"], "program": "race history (%s held at %s)" % (races[x["id"]]["held_op"], races[x["id"]]["hold_at"]),
                          "explained": None, "events": len(races[x["id"]]["steps"]), "first_unexplained": x["p"]})
        else:
            v.append({"pred": x["p"], "key": ("race", x["id"], x["p"]), "race": races[x["id"]]})
    istats = dict(istats, races=rstats, race_drift=drift)
    return v, cstats, istats, images


def compute(tier, seed):
    t0 = time.time()
    work = scratch_dir("fsstore")
    try:
        copy_specs(work)
        design = {"runs": [], "states": 0, "transitions": 0, "violations": []}
        for mod, cfg in DESIGN[tier]:
            rc, out, secs = tlc(work, mod, cfg, workers=16, timeout=5400)
            d, g = tlc_stats(out)
            v = tlc_violations(out) + tlc_errors(out)
            if v or d == 0 or "No error has been found" not in out:
                design["violations"].append({"cfg": cfg, "violated": v or ["did not complete"]})
            design["runs"].append({"cfg": cfg, "distinct": d, "generated": g, "secs": round(secs, 1)})
            design["states"] += d
            design["transitions"] += g
        for mod, cfg, inv in EXPECTED:
            rc, out, secs = tlc(work, mod, cfg, workers=4, timeout=900)
            got = tlc_violations(out)
            design["runs"].append({"cfg": cfg, "expected_violation": inv, "violated": got})
            if inv not in got:
                design["violations"].append({"cfg": cfg, "violated": ["expected counterexample of %s not found" % inv]})
        fbin = build_harness("fs")
        outdir = os.path.join(work, "run")
        txt, hsecs = drive([fbin, "-out", outdir, "-seed", str(seed), "-tier", tier], work, "fsstore", timeout=5400)
        summary = json.load(open(os.path.join(outdir, "summary.json")))
        found, cstats, istats, images = judge(work, outdir)
        viol = []
        if found:
            out2 = os.path.join(work, "rerun")
            rc, txt, _ = run([fbin, "-out", out2, "-seed", str(seed), "-tier", tier], timeout=5400, check=False)
            if rc != 0:
                raise Infra("fs harness re-run failed: " + txt[-2000:])
            again, _, _, _ = judge(work, out2)
            akeys = set(x["key"] for x in again)
            for x in found:
                prop = x["pred"][:3]
                if "race" in x:
                    o = x["race"]
                    sig = {"pred": x["pred"], "held_op": o["held_op"]}
                    title = "race history %d: %s held at %s" % (o["id"], o["held_op"], o["hold_at"])
                    payload = {"race": o}
                elif "image" in x:
                    o = x["image"]
                    sig = {"pred": x["pred"], "in_window": bool(o["in_window"]), "mode": o["mode"]}
                    title = "history %d boundary %d (%s) %s image %s" % (o["hist"], o["k"], o["label"], o["mode"], o["variant"])
                    payload = {"image": o}
                else:
                    sig = {"pred": x["pred"]}
                    title = "call trace %d step %d" % (x["trace"], x["seq"])
                    steps = []
                    for line in open(os.path.join(outdir, "calls.ndjson")):
                        e = json.loads(line)
                        if e["t"] == x["trace"] and e["seq"] <= x["seq"]:
                            steps.append(e)
                    payload = {"steps": steps}
                viol.append(dict({"pred": x["pred"], "prop": prop, "title": title, "sig": sig, "reproduced": x["key"] in akeys}, **payload))
        ids = sorted(images)
        samples = [{k: images[i][k] for k in ("hist", "k", "label", "mode", "variant", "acked", "rows", "dups", "in_window", "ops")}
                   for i in ids[::max(1, len(ids) // 4)]][:4]
        csample = []
        for i, line in enumerate(open(os.path.join(outdir, "calls.ndjson"))):
            if i < 6:
                e = json.loads(line)
                csample.append({k: e[k] for k in ("t", "seq", "op", "w", "name", "draws", "fault", "res", "scan")})
        return {"design": design, "impl": {"call_events": summary["call_events"], "images": summary["images"], "calls_stats": cstats,
                                           "image_stats": istats, "harness_secs": round(hsecs, 1)},
                "violations": viol, "samples": samples, "call_samples": csample, "wall_s": round(time.time() - t0, 1)}
    finally:
        shutil.rmtree(work, ignore_errors=True)


LEVEL = {"C15": "model_checking", "C16": "model_checking"}


def evidence(pid, tier, res):
    des, impl = res["design"], res["impl"]
    if des["violations"]:
        res["design_failed"] = des["violations"]
    if pid == "C15":
        n = impl["images"]
        cov = {"states": des["states"], "transitions": des["transitions"], "traces_validated_against_impl": n, "samples": res["samples"],
               "design_runs": des["runs"], "image_stats": impl["image_stats"],
               "summary": "%d crash/power-loss images of real histories reopened and judged, %d design states" % (n, des["states"])}
    else:
        n = impl["calls_stats"].get("traces", 0)
        cov = {"states": des["states"], "transitions": des["transitions"], "traces_validated_against_impl": n, "samples": res["call_samples"],
               "design_runs": des["runs"], "calls_stats": impl["calls_stats"], "call_events": impl["call_events"],
               "race_histories": impl["image_stats"].get("races", {}), "drift_traces": impl["image_stats"].get("race_drift", [])[:10],
               "summary": "%d call sequences (%d calls) of the real store replayed through FSCalls.tla, %d concurrent histories with a held call judged, %d design states"
                          % (n, impl["call_events"], impl["image_stats"].get("races", {}).get("races", 0), des["states"])}
    assumptions = ["completed fsyncs are inferred from the verifFS boundaries (a 'sync'/'dirsync'/'*.dirsync' boundary passed without an injected "
                   "failure and followed by the call's next boundary); the syscalls themselves are not traced",
                   "power loss: namespace = last directory-fsynced namespace plus any subset of later directory operations (all subsets up to 4 "
                   "pending operations, a capped sample beyond); data of a file never fsynced is dropped, halved or kept",
                   "injected failures are fail-stop (the named step reports an error and has no effect)",
                   "C16 concurrent histories: one call held at one of its verifFS boundaries while whole calls of other writers run; the "
                   "others never name the pointer the held call is working on at that boundary (it has not been handed out), they do name "
                   "every name it abandoned; names whose fate a failed or overlapping call leaves open are not compared",
                   "C16 call domain: Write only on an open writer; Close/Abort on any writer repeatedly; TombstoneFile only for a pointer whose "
                   "writer has finished and whose name no later writer has drawn (a pointer is a path)"]
    return LEVEL[pid], cov, assumptions
