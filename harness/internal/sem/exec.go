package sem

import (
	"context"
	"encoding/json"
	"errors"
	"fmt"
	"iter"
	"math"
	"math/rand"
	"os"
	"reflect"
	"sort"
	"strings"
	"sync"
	"sync/atomic"
	"time"

	bs "github.com/danthegoodman1/bloomsearch"
	"verifharness/internal/h"
)

// BlockObs is what the harness reads back about one stored block.
type BlockObs struct {
	File  int            `json:"file"`
	Bi    int            `json:"bi"`
	Rows  []int          `json:"rows"` // indices (1-based) into the case's rows, one per stored row
	Part  int            `json:"part"` // 0 = no partition id, -1 = a partition id the case does not know
	Keys  []string       `json:"keys"`
	Lo    map[string]int `json:"lo"`
	Hi    map[string]int `json:"hi"`
	Cnt   []int          `json:"cnt"`   // recorded distinct entry counts: fields, tokens, field-tokens
	MissB int            `json:"missb"` // spec entries of its rows the block's filters lack
	MissF int            `json:"missf"` // spec entries of its rows the file's filters lack
	NRows int            `json:"nrows"` // metadata Rows
	Alien int            `json:"alien"` // stored rows that are not rows of the case
	// leaf answers of the real filters for the query's prune expression (DFS order)
	BA []bool `json:"ba"`
	FA []bool `json:"fa"`
	// C23 / C24 observations of the main query
	Listed  int  `json:"listed"` // number of BlockStats entries for this block
	Skipped bool `json:"skipped"`
	RP      int  `json:"rp"`
	BP      int  `json:"bp"`
	TR      int  `json:"tr"`
	RowRead bool `json:"rowread"`
	// RowReadF: row data of the block was read by the re-run of the query whose first OpenFile failed
	RowReadF bool `json:"rowread_f"`
	USize    int  `json:"usize"`
}

type FileObs struct {
	File       int  `json:"file"`
	Opened     int  `json:"opened"`
	RegionRead bool `json:"regionread"`
	OOB        int  `json:"oob"`
	Closed     int  `json:"closed"`
	// layout facts (C17), recomputed from the bytes
	Size        int   `json:"size"`
	RegionOff   int   `json:"region_off"`
	RegionSize  int   `json:"region_size"`
	Offs        []int `json:"offs"`
	Sizes       []int `json:"sizes"`
	FOffs       []int `json:"foffs"`
	FSizes      []int `json:"fsizes"`
	ParseOK     bool  `json:"parse_ok"`
	BlocksTrue  bool  `json:"blocks_true"` // rows, uncompressed size, CRC, compression of every block match its bytes
	HelpersOK   bool  `json:"helpers_ok"`  // the public read helpers returned exactly what was written
	FileCnt     []int `json:"file_cnt"`
	FooterStart int   `json:"footer_start"` // offset where the file-level filter section starts
}

type Obs struct {
	ID     int    `json:"id"`
	Case   *Case  `json:"case"`
	Err    string `json:"err"`
	Res    []int  `json:"res"`
	Alien  int    `json:"alien"`
	Shared int    `json:"shared"` // returned rows that changed when arrays of returned rows were appended to
	// entry probes: one-leaf queries for entries a filter denied although a stored row under it carries them
	Probes    int        `json:"probes"`
	ProbeLost int        `json:"probe_lost"` // stored rows carrying the entry that the probe query did not return
	Res2      []int      `json:"res2"`
	Conc      [][]int    `json:"conc"`
	HasPre    bool       `json:"has_pre"`
	Pre       []int      `json:"pre"`
	PreErr    string     `json:"pre_err"`
	Blocks    []BlockObs `json:"blocks"`
	Files     []FileObs  `json:"files"`
	// stats of the main query
	Matched    int    `json:"matched"`
	StatBlocks int    `json:"stat_blocks"`
	StatProc   int    `json:"stat_proc"`
	StatSkip   int    `json:"stat_skip"`
	StatRows   int    `json:"stat_rows"`
	StatBytes  int    `json:"stat_bytes"`
	Unknown    int    `json:"stat_unknown"` // BlockStats entries that name no stored block
	MergeErr   string `json:"merge_err"`
	IngestErr  int    `json:"ingest_err"` // valid batches on healthy stores that were answered with an error
	Stdio      int    `json:"stdio"`
}

// ioCtl records the DataStore calls of the main query.
type ioCtl struct {
	mu        sync.Mutex
	on        bool
	opens     map[string]int
	closes    map[string]int
	reads     []readRec
	failOpens int    // the next OpenFile calls fail (transiently)
	hold      func() // run once, on the goroutine of the next write call, before that write takes effect
}

type readRec struct {
	ptr    string
	off, n int64
}

func (c *ioCtl) Before(op *h.StoreOp) error {
	if op.Kind == "open" {
		c.mu.Lock()
		defer c.mu.Unlock()
		if c.failOpens > 0 {
			c.failOpens--
			return errors.New("verif: transient open failure")
		}
		return nil
	}
	if op.Kind != "write" {
		return nil
	}
	c.mu.Lock()
	f := c.hold
	c.hold = nil
	c.mu.Unlock()
	if f != nil {
		f()
	}
	return nil
}
func (c *ioCtl) After(op *h.StoreOp, err error) {
	c.mu.Lock()
	defer c.mu.Unlock()
	if !c.on {
		return
	}
	switch op.Kind {
	case "open":
		if err == nil {
			c.opens[op.Ptr]++
		}
	case "rclose":
		c.closes[op.Ptr]++
	case "read":
		if op.N > 0 {
			c.reads = append(c.reads, readRec{op.Ptr, op.Off, int64(op.N)})
		}
	}
}

type executor struct {
	cat     *Catalog
	seed    int64
	scratch string
	legacy  bool         // the case in progress feeds the engines legacy ("") compression metadata
	shared  atomic.Int64 // returned rows that changed when other returned values were appended to
}

// legacyMeta yields uncompressed blocks the way old files describe them: Compression "" instead of "none".
type legacyMeta struct{ bs.MetaStore }

func (m legacyMeta) GetMaybeFilesForQuery(ctx context.Context, p *bs.QueryPrefilter) iter.Seq2[bs.MaybeFile, error] {
	return func(yield func(bs.MaybeFile, error) bool) {
		for mf, err := range m.MetaStore.GetMaybeFilesForQuery(ctx, p) {
			if err == nil {
				blocks := append([]bs.DataBlockMetadata(nil), mf.Metadata.DataBlocks...)
				for i := range blocks {
					if blocks[i].Compression == bs.CompressionNone {
						blocks[i].Compression = ""
					}
				}
				mf.Metadata.DataBlocks = blocks
			}
			if !yield(mf, err) {
				return
			}
		}
	}
}

func NewExecutor(cat *Catalog, seed int64, scratch string) *executor {
	return &executor{cat: cat, seed: seed, scratch: scratch}
}

func engineCfg(c *Case) bs.BloomSearchEngineConfig {
	cfg := bs.DefaultBloomSearchEngineConfig()
	if c.Tok == "whole" {
		cfg.Tokenizer = WholeTokenizer
	}
	if c.PartOn {
		cfg.PartitionFunc = func(row map[string]any) string { s, _ := row["p"].(string); return s }
	}
	cfg.MinMaxIndexes = append([]string(nil), c.MMIdx...)
	cfg.RowDataCompression = bs.CompressionType(c.Dims.Compression)
	cfg.ZstdCompressionLevel = c.Dims.ZstdLevel
	cfg.BloomFalsePositiveRate = c.Dims.FPR
	cfg.MaxRowGroupRows = c.Dims.MRGRows
	cfg.MaxBufferedRows = c.Dims.MBRows
	cfg.MaxBufferedTime = time.Hour
	cfg.MaxQueryConcurrency = c.Dims.MaxQC
	cfg.MaxFilesToMergePerOperation = c.Dims.MergeFiles
	return cfg
}

func roundTrip(row map[string]any) (map[string]any, error) {
	b, err := json.Marshal(row)
	if err != nil {
		return nil, err
	}
	var out map[string]any
	if err := json.Unmarshal(b, &out); err != nil {
		return nil, err
	}
	return out, nil
}

func rowIndex(row map[string]any) int {
	s, _ := row["id"].(string)
	var i int
	if _, err := fmt.Sscanf(s, "r%d", &i); err != nil {
		return 0
	}
	return i
}

// mutate overwrites everything reachable from a returned row.
func mutate(v any) {
	switch x := v.(type) {
	case map[string]any:
		for k, c := range x {
			mutate(c)
			switch c.(type) {
			case map[string]any, []any:
			default:
				x[k] = "MUTATED"
			}
		}
		x["__mutated"] = true
	case []any:
		for i, c := range x {
			mutate(c)
			switch c.(type) {
			case map[string]any, []any:
			default:
				x[i] = "MUTATED"
			}
		}
	}
}

// grow appends to every array reachable from a returned row and drops the result: the row itself is unchanged, but an
// array whose spare capacity runs into storage another array (of this row or of another one) was carved from is
// written through into that neighbour.
func grow(v any) {
	switch x := v.(type) {
	case map[string]any:
		for _, c := range x {
			grow(c)
		}
	case []any:
		for _, c := range x {
			grow(c)
		}
		y := append(x, "GROWN")
		for len(y) < cap(x) {
			y = append(y, "GROWN")
		}
	}
}

func matchesTrip(row map[string]any, ts []map[string]any) bool {
	for _, t := range ts {
		if reflect.DeepEqual(t, row) {
			return true
		}
	}
	return false
}

// runQuery executes q and maps returned rows to case row indices.
func (x *executor) runQuery(e *bs.BloomSearchEngine, q *bs.Query, trips map[int][]map[string]any, doMutate bool) (res []int, alien int, errs string, stats bs.QueryStats) {
	r, err := e.Query(context.Background(), q)
	if err != nil {
		return []int{}, 0, "queryerr", stats
	}
	defer r.Close()
	res = []int{}
	var got []map[string]any
	var oks []bool
	for r.Next() {
		row := r.Row()
		i := rowIndex(row)
		ok := false
		for _, t := range trips[i] {
			if reflect.DeepEqual(t, row) {
				ok = true
				break
			}
		}
		if !ok {
			alien++
		}
		res = append(res, i)
		got = append(got, row)
		oks = append(oks, ok)
	}
	if doMutate {
		// first through the arrays' spare capacity (which leaves independent rows as they were), then destructively
		for _, row := range got {
			grow(row)
		}
		changed := make([]bool, len(got))
		for k, row := range got {
			// a row that already differed when it was returned has been counted; this one changed under the appends
			if oks[k] && !matchesTrip(row, trips[res[k]]) {
				x.shared.Add(1)
				changed[k] = true
			}
		}
		// then destructively, one row after the other: a row must still be what it was when the rows returned before it
		// have been overwritten in place (nested values included)
		for k, row := range got {
			if oks[k] && !changed[k] && !matchesTrip(row, trips[res[k]]) {
				x.shared.Add(1)
			}
			mutate(row)
		}
	}
	errs = "nil"
	if r.Err() != nil {
		errs = "err"
	}
	return res, alien, errs, r.Stats()
}

func sortedCopy(a []int) []int {
	b := append([]int{}, a...)
	sort.Ints(b)
	return b
}

// Run executes one case on the real engine.
func (x *executor) Run(c *Case) *Obs {
	o := &Obs{ID: c.ID, Case: c, Res: []int{}, Res2: []int{}, Conc: [][]int{}, Pre: []int{}, Blocks: []BlockObs{}, Files: []FileObs{}}
	// every case has its own generator, so a case re-executed alone is concretized identically
	rng := rand.New(rand.NewSource(x.seed*1000003 + int64(c.ID)))
	var rawData bs.DataStore
	var rawMeta bs.MetaStore
	var mem *h.MemData
	dir := ""
	if c.Dims.FS {
		dir = fmt.Sprintf("%s/case-%d", x.scratch, c.ID)
		os.MkdirAll(dir, 0o755)
		defer os.RemoveAll(dir)
		fs := bs.NewFileSystemDataStore(dir)
		rawData, rawMeta = fs, fs
	} else {
		mem = h.NewMemData()
		rawData, rawMeta = mem, bs.NewMemoryMetaStore()
	}
	io := &ioCtl{opens: map[string]int{}, closes: map[string]int{}}
	data := &h.InstrData{Inner: rawData, C: io}
	cfg := engineCfg(c)
	// the engines see the store through engMeta; the observation code below keeps reading rawMeta
	engMeta := rawMeta
	x.legacy = c.Dims.LegacyMeta
	if c.Dims.LegacyMeta {
		engMeta = legacyMeta{rawMeta}
	}
	eng, err := bs.NewBloomSearchEngine(cfg, engMeta, data)
	h.Must(err, "engine config")
	eng.Start()

	// ---- ingest, one flush group at a time
	trips := map[int][]map[string]any{}
	groups := 0
	for _, g := range c.Flush {
		if g > groups {
			groups = g
		}
	}
	canonical := c.Tok == "whole"
	var dones []chan error
	var overlapLate chan struct{}
	for g := 1; g <= groups; g++ {
		var batch []map[string]any
		for i, r := range c.Rows {
			if c.Flush[i] != g {
				continue
			}
			for k := 0; k < r.Copies; k++ {
				row := RowValue(x.cat, r, rng, canonical)
				rt, err := roundTrip(row)
				h.Must(err, "row round trip")
				trips[i+1] = append(trips[i+1], rt)
				batch = append(batch, row)
			}
		}
		if len(batch) == 0 {
			continue
		}
		// the last flush of the case is overtaken by a whole Merge of the files written so far: the flush worker is held at
		// its first write to the store until that Merge has returned (Merge runs on its caller's goroutine, nothing
		// serialises it against a flush)
		if c.Dims.Overlap && g == groups && groups >= 3 {
			io.mu.Lock()
			io.hold = func() {
				mdone := make(chan struct{})
				go func() {
					defer close(mdone)
					eng.Merge(context.Background())
				}()
				select {
				case <-mdone:
				case <-time.After(5 * time.Second):
					// the Merge waits for something the held flush owns: let the flush go on, the Merge ends after it
					overlapLate = mdone
				}
			}
			io.mu.Unlock()
		}
		// split the group over one or two IngestRows calls
		cut := len(batch)
		if len(batch) > 1 && rng.Intn(2) == 0 {
			cut = 1 + rng.Intn(len(batch)-1)
		}
		for _, part := range [][]map[string]any{batch[:cut], batch[cut:]} {
			if len(part) == 0 {
				continue
			}
			done := make(chan error, 1)
			h.Must(eng.IngestRows(context.Background(), part, done), "ingest")
			if rng.Intn(2) == 0 {
				h.Must(eng.Flush(context.Background()), "flush")
			}
			dones = append(dones, done)
		}
		// a batch that has to be rejected as a whole (its second row cannot be marshaled), aimed at a partition that has
		// rows buffered: it must leave no trace - no row, and nothing in the entry sets the block's filters are built from
		if c.Dims.Reject && len(batch) > 0 {
			extra := map[string]any{}
			for k, v := range batch[len(batch)-1] {
				extra[k] = v
			}
			extra["id"], extra["zzrej"] = "rej", "zzrejected zztoken"
			bad := map[string]any{"id": "bad", "x": math.NaN()}
			if p, ok := extra["p"]; ok {
				bad["p"] = p
			}
			rdone := make(chan error, 1)
			if err := eng.IngestRows(context.Background(), []map[string]any{extra, bad}, rdone); err == nil {
				if rerr := <-rdone; rerr == nil {
					o.IngestErr++ // a batch with an unmarshalable row was acknowledged as durable
				}
			}
		}
		h.Must(eng.Flush(context.Background()), "flush")
		for _, d := range dones {
			if err := <-d; err != nil {
				o.IngestErr++
			}
		}
		dones = dones[:0]
	}
	if overlapLate != nil {
		<-overlapLate
	}
	io.mu.Lock()
	io.hold = nil
	io.mu.Unlock()
	h.Must(eng.Stop(context.Background()), "stop")

	q := c.Q.RealQuery()
	if c.Dims.JSONTrip {
		b, err := json.Marshal(q)
		h.Must(err, "query marshal")
		q = &bs.Query{}
		h.Must(json.Unmarshal(b, q), "query unmarshal")
	}

	// a query engine (queries are independent of the ingest lifecycle)
	qeng, err := bs.NewBloomSearchEngine(cfg, engMeta, data)
	h.Must(err, "query engine")

	if c.Merges > 0 {
		o.HasPre = true
		o.Pre, _, o.PreErr, _ = x.runQuery(qeng, q, trips, false)
		mcfg := cfg
		mcfg.MaxRowGroupRows = c.Dims.MergeMRG
		if rng.Intn(2) == 0 {
			mcfg.RowDataCompression = []bs.CompressionType{bs.CompressionNone, bs.CompressionSnappy, bs.CompressionZstd}[rng.Intn(3)]
			mcfg.BloomFalsePositiveRate = []float64{0.001, 0.2}[rng.Intn(2)]
		}
		meng, err := bs.NewBloomSearchEngine(mcfg, engMeta, data)
		h.Must(err, "merge engine")
		o.MergeErr = "nil"
		for i := 0; i < c.Merges; i++ {
			if _, err := meng.Merge(context.Background()); err != nil {
				o.MergeErr = "err"
			}
		}
	}

	// ---- read the store back: blocks, rows, metadata, filters
	type blockKey struct {
		ptr string
		off int
	}
	blockAt := map[blockKey]int{}
	fileIdx := map[string]int{}
	fileMeta := map[string]bs.FileMetadata{}
	var files []bs.MaybeFile
	for f, err := range rawMeta.GetMaybeFilesForQuery(context.Background(), nil) {
		h.Must(err, "metastore iteration")
		files = append(files, f)
	}
	sort.Slice(files, func(i, j int) bool { return string(files[i].PointerBytes) < string(files[j].PointerBytes) })
	leaves := pruneLeaves(c.Q)
	var denied []deniedEntry
	for fi, f := range files {
		ptr := string(f.PointerBytes)
		fileIdx[ptr] = fi + 1
		fileMeta[ptr] = f.Metadata
		fo := FileObs{File: fi + 1, Offs: []int{}, Sizes: []int{}, FOffs: []int{}, FSizes: []int{}, FileCnt: []int{}}
		x.layoutFacts(rawData, f, &fo)
		o.Files = append(o.Files, fo)
		for bi, blk := range f.Metadata.DataBlocks {
			bo := BlockObs{File: fi + 1, Bi: bi + 1, Rows: []int{}, Keys: []string{}, Lo: map[string]int{"k1": 0, "k2": 0}, Hi: map[string]int{"k1": 0, "k2": 0},
				NRows: blk.Rows, BA: []bool{}, FA: []bool{}, USize: blk.UncompressedSize}
			blockAt[blockKey{ptr, blk.RowDataOffset}] = len(o.Blocks)
			bo.Part = 0
			if blk.PartitionID != "" {
				bo.Part = -1
				fmt.Sscanf(blk.PartitionID, "p%d", &bo.Part)
			}
			for k, r := range blk.MinMaxIndexes {
				bo.Keys = append(bo.Keys, k)
				bo.Lo[k], bo.Hi[k] = clampInt(r.Min), clampInt(r.Max)
			}
			sort.Strings(bo.Keys)
			bo.Cnt = []int{blk.BloomEntryCounts.Fields, blk.BloomEntryCounts.Tokens, blk.BloomEntryCounts.FieldTokens}
			// rows
			rd, err := rawData.OpenFile(context.Background(), f.PointerBytes)
			h.Must(err, "open stored file")
			rowData, err := bs.ReadDataBlockRowData(rd, &blk)
			var bf *bs.BloomFilters
			if err == nil {
				bf, err = bs.ReadDataBlockBloomFilters(rd, blk)
			}
			rd.Close()
			if err != nil {
				bo.Alien = 1000 // unreadable block
				o.Blocks = append(o.Blocks, bo)
				continue
			}
			sc := bs.NewBlockRowScanner(rowData)
			for {
				rb, ok, err := sc.Next()
				if err != nil || !ok {
					break
				}
				var row map[string]any
				if json.Unmarshal(rb, &row) != nil {
					bo.Alien++
					continue
				}
				i := rowIndex(row)
				found := false
				for _, t := range trips[i] {
					if reflect.DeepEqual(t, row) {
						found = true
					}
				}
				if !found {
					bo.Alien++
					continue
				}
				bo.Rows = append(bo.Rows, i)
				fl, tk, ft := RowEntries(x.cat, c.Rows[i-1], c.Tok)
				bo.MissB += missing(bf.FieldBloomFilter, fl) + missing(bf.TokenBloomFilter, tk) + missing(bf.FieldTokenBloomFilter, ft)
				// an entry of a stored row that a filter over it denies: remembered, and asked for through the engine below
				for _, e := range fl {
					if absent(bf.FieldBloomFilter, e) || absent(f.Metadata.BloomFilters.FieldBloomFilter, e) {
						denied = append(denied, deniedEntry{"f", e})
					}
				}
				for _, e := range tk {
					if absent(bf.TokenBloomFilter, e) || absent(f.Metadata.BloomFilters.TokenBloomFilter, e) {
						denied = append(denied, deniedEntry{"t", e})
					}
				}
				ff := f.Metadata.BloomFilters
				bo.MissF += missing(ff.FieldBloomFilter, fl) + missing(ff.TokenBloomFilter, tk) + missing(ff.FieldTokenBloomFilter, ft)
			}
			for _, lf := range leaves {
				bo.BA = append(bo.BA, leafAnswer(bf, lf))
				ff := f.Metadata.BloomFilters
				bo.FA = append(bo.FA, leafAnswer(&ff, lf))
			}
			o.Blocks = append(o.Blocks, bo)
		}
	}

	// ---- entry probes: for (at most three) entries a filter denied although a row under it carries them, the one-leaf
	// query that asks for exactly that entry must still return every intact stored row carrying it
	seenDenied := map[deniedEntry]bool{}
	for _, de := range denied {
		if seenDenied[de] || o.Probes >= 3 {
			continue
		}
		seenDenied[de] = true
		o.Probes++
		want := map[int]int{}
		for _, b := range o.Blocks {
			for _, i := range b.Rows {
				fl, tk, _ := RowEntries(x.cat, c.Rows[i-1], c.Tok)
				es := fl
				if de.kind == "t" {
					es = tk
				}
				for _, e := range es {
					if e == de.entry {
						want[i]++
						break
					}
				}
			}
		}
		pq := bs.NewQuery().Field(de.entry).Build()
		if de.kind == "t" {
			pq = bs.NewQuery().Token(de.entry).Build()
		}
		got := map[int]int{}
		if r, err := qeng.Query(context.Background(), pq); err == nil {
			for r.Next() {
				got[rowIndex(r.Row())]++
			}
			r.Close()
		}
		for i, n := range want {
			if got[i] < n {
				o.ProbeLost += n - got[i]
			}
		}
	}

	// ---- the main query, with I/O and stats observed
	io.mu.Lock()
	io.on = true
	io.mu.Unlock()
	var stats bs.QueryStats
	o.Res, o.Alien, o.Err, stats = x.runQuery(qeng, q, trips, true)
	io.mu.Lock()
	io.on = false
	reads := io.reads
	opens := io.opens
	closes := io.closes
	io.mu.Unlock()
	o.Matched = int(stats.RowsMatched)
	o.StatBlocks = len(stats.BlockStats)
	o.StatProc, o.StatSkip = stats.BlocksProcessed, stats.BlocksSkipped
	o.StatRows, o.StatBytes = int(stats.RowsScanned), int(stats.BytesScanned)
	for _, s := range stats.BlockStats {
		idx, ok := blockAt[blockKey{string(s.FilePointer), s.BlockOffset}]
		if !ok {
			o.Unknown++
			continue
		}
		b := &o.Blocks[idx]
		b.Listed++
		b.Skipped = s.BloomFilterSkipped
		b.RP, b.BP, b.TR = int(s.RowsProcessed), int(s.BytesProcessed), int(s.TotalRows)
	}
	for ptr, fi := range fileIdx {
		fo := &o.Files[fi-1]
		fo.Opened = opens[ptr]
		fo.Closed = closes[ptr]
		md := fileMeta[ptr]
		for _, rd := range reads {
			if rd.ptr != ptr {
				continue
			}
			in := false
			if overlaps(rd.off, rd.n, int64(md.BlockFilterRegionOffset), int64(md.BlockFilterRegionSize)) {
				fo.RegionRead = true
				if within(rd.off, rd.n, int64(md.BlockFilterRegionOffset), int64(md.BlockFilterRegionSize)) {
					in = true
				}
			}
			for _, blk := range md.DataBlocks {
				if overlaps(rd.off, rd.n, int64(blk.RowDataOffset), int64(blk.RowDataSize)) {
					o.Blocks[blockAt[blockKey{ptr, blk.RowDataOffset}]].RowRead = true
					if within(rd.off, rd.n, int64(blk.RowDataOffset), int64(blk.RowDataSize)) {
						in = true
					}
				}
			}
			if !in {
				fo.OOB++
			}
		}
	}

	// ---- independence: the returned rows were mutated; run it again, and concurrently
	o.Res2, _, _, _ = x.runQuery(qeng, q, trips, true)
	// ---- pruning under a fault: the same query once more, the first OpenFile of it fails; whatever the engine makes of
	// the failure, row data of a block its filters rule out stays unread
	io.mu.Lock()
	io.on, io.failOpens = true, 1
	io.reads, io.opens, io.closes = nil, map[string]int{}, map[string]int{}
	io.mu.Unlock()
	x.runQuery(qeng, q, trips, false)
	io.mu.Lock()
	io.on, io.failOpens = false, 0
	freads := io.reads
	io.mu.Unlock()
	for ptr := range fileIdx {
		md := fileMeta[ptr]
		for _, rd := range freads {
			if rd.ptr != ptr {
				continue
			}
			for _, blk := range md.DataBlocks {
				if overlaps(rd.off, rd.n, int64(blk.RowDataOffset), int64(blk.RowDataSize)) {
					o.Blocks[blockAt[blockKey{ptr, blk.RowDataOffset}]].RowReadF = true
				}
			}
		}
	}
	if c.Dims.Conc > 0 {
		var wg sync.WaitGroup
		out := make([][]int, c.Dims.Conc)
		for k := 0; k < c.Dims.Conc; k++ {
			wg.Add(1)
			go func(k int) {
				defer wg.Done()
				r, a, _, _ := x.runQuery(qeng, q, trips, true)
				if a > 0 {
					r = append(r, -1)
				}
				out[k] = r
			}(k)
		}
		wg.Wait()
		o.Conc = out
	}
	o.Shared = int(x.shared.Swap(0))
	o.Res, o.Res2, o.Pre = sortedCopy(o.Res), sortedCopy(o.Res2), sortedCopy(o.Pre)
	for i := range o.Conc {
		o.Conc[i] = sortedCopy(o.Conc[i])
	}
	return o
}

func clampInt(v int64) int {
	if v > 1<<30 {
		return 1 << 30
	}
	if v < -(1 << 30) {
		return -(1 << 30)
	}
	return int(v)
}

func overlaps(off, n, eoff, esize int64) bool {
	return n > 0 && esize > 0 && off < eoff+esize && eoff < off+n
}
func within(off, n, eoff, esize int64) bool { return off >= eoff && off+n <= eoff+esize }

type testStringer interface{ TestString(string) bool }

type deniedEntry struct{ kind, entry string }

func absent(f testStringer, e string) bool {
	if f == nil || reflect.ValueOf(f).IsNil() {
		return false
	}
	return !f.TestString(e)
}

func missing(f testStringer, entries []string) int {
	if f == nil || reflect.ValueOf(f).IsNil() {
		return 0 // an absent filter cannot disqualify anything
	}
	n := 0
	for _, e := range entries {
		if !f.TestString(e) {
			n++
		}
	}
	return n
}

// pruneLeaves lists, in depth-first order, the leaves of the case's bloom tree
// and then of its regex tree (each regex condition contributes Field(path)).
// The harness only supplies the real filters' answers for these leaves; the
// specification evaluates the tree.
func pruneLeaves(q Query) []*bs.BloomCondition {
	var out []*bs.BloomCondition
	var walk func(e Expr)
	walk = func(e Expr) {
		switch e.T {
		case "f":
			out = append(out, &bs.BloomCondition{Type: bs.BloomField, Field: PathString(e.F)})
		case "t":
			out = append(out, &bs.BloomCondition{Type: bs.BloomToken, Token: TokenString(e.Tok)})
		case "ft":
			out = append(out, &bs.BloomCondition{Type: bs.BloomFieldToken, Field: PathString(e.F), Token: TokenString(e.Tok)})
		case "re":
			out = append(out, &bs.BloomCondition{Type: bs.BloomField, Field: PathString(e.F)})
		case "and", "or":
			for _, c := range e.C {
				walk(c)
			}
		}
	}
	walk(q.Bloom)
	walk(q.Regex)
	return out
}

func leafAnswer(f *bs.BloomFilters, c *bs.BloomCondition) bool {
	switch c.Type {
	case bs.BloomField:
		return f.FieldBloomFilter == nil || f.FieldBloomFilter.TestString(c.Field)
	case bs.BloomToken:
		return f.TokenBloomFilter == nil || f.TokenBloomFilter.TestString(c.Token)
	case bs.BloomFieldToken:
		return f.FieldTokenBloomFilter == nil || f.FieldTokenBloomFilter.TestString(c.Field+"::"+c.Token)
	}
	return false
}

var _ = strings.Join
