------------------------- MODULE WritePathMonitor -------------------------
(***************************************************************************)
(* Permissive trace monitor for the write path (C05..C10).  It consumes    *)
(* the NDJSON history the Go harness recorded from the REAL engine, one    *)
(* line per step, updating only observable state (what was called, what    *)
(* returned, what the done channels delivered, what queries saw, which     *)
(* store calls started).  No event is ever rejected; the properties are    *)
(* invariants evaluated after every event.  Several traces are concatenated*)
(* in one file: a "cfg" event resets the monitor.                          *)
(*                                                                         *)
(* Observation discipline: acknowledgements and visibility are observed by *)
(* the harness director at quiescent points (every engine goroutine        *)
(* parked), logged as "ack"* "acksdone" "vis"* "visdone"; ordering between *)
(* API calls is the order of their "call" and "ret" events (logged on the  *)
(* calling goroutine, before the call and after its return).               *)
(***************************************************************************)
EXTENDS Integers, Sequences, FiniteSets, TLC, Json

CONSTANT TraceFile, LatencyAllowanceMs

Trace == ndJsonDeserialize(TraceFile)
N == Len(Trace)

Max(S) == IF S = {} THEN 0 ELSE CHOOSE x \in S : \A y \in S : y <= x
MaxB == Max({Trace[i].b : i \in 1..N})
B == 1..MaxB

VARIABLES l, m, cur, viol
vars == << l, m, cur, viol >>

NoLim == [ibs |-> 0, mb_rows |-> 0, mb_bytes |-> 0, mrg_rows |-> 0, mrg_bytes |-> 0,
          mb_time_ms |-> 0, timed |-> 0, seqmode |-> 0, fs |-> 0, bp_bound |-> 0]

Fresh(t) ==
  [ tid |-> t, lim |-> NoLim,
    kind |-> [b \in B |-> "none"], chn |-> [b \in B |-> "nil"], nrows |-> [b \in B |-> 0],
    shape |-> [b \in B |-> <<>>],
    callSeq |-> [b \in B |-> 0], retSeq |-> [b \in B |-> 0], res |-> [b \in B |-> "none"],
    answers |-> [b \in B |-> <<>>],
    visS |-> [b \in B |-> -1], visF |-> [b \in B |-> -1],
    stopSt |-> "none", stopCallSeq |-> 0, stopRetSeq |-> 0, flaggedSeq |-> 0,
    deadlineSeq |-> 0, afterFuncSeq |-> 0, lastFlusherRecv |-> 0, lateCreates |-> 0,
    fresh |-> {}, obsClosed |-> TRUE, answeredAtStopRet |-> {},
    quietAfterDeadline |-> FALSE, unansweredAtQuiet |-> 0, settled |-> FALSE,
    stopLatency |-> 0, ackLat |-> [b \in B |-> 0], canceled |-> {},
    pendShape |-> <<>>, limitMiss |-> FALSE, closed |-> FALSE, removalRefused |-> FALSE ]

Init == l = 1 /\ m = Fresh(0) /\ cur = [ev |-> "init", b |-> 0, seq |-> 0] /\ viol = {}

Accepted(s, b) == s.res[b] \in {"nil", "flushed", "flusherr"}
Receivable(s, b) == s.chn[b] \in {"buf", "unbuf", "late"}
Answered(s, b) == s.answers[b] # <<>>
Rowsy(s, b) == s.kind[b] = "rows"
\* API-level happens-before: b2's call returned before b's call started
Before(s, b2, b) == s.retSeq[b2] # 0 /\ s.callSeq[b] # 0 /\ s.retSeq[b2] < s.callSeq[b]

\* ---- C10 limit bookkeeping: what has been buffered since the last flush ---
\* shape[b] is a sequence of per-partition [r |-> rows, y |-> bytes] records.
RECURSIVE SumR(_, _), SumY(_, _)
SumR(sh, i) == IF i = 0 THEN 0 ELSE sh[i].r + SumR(sh, i - 1)
SumY(sh, i) == IF i = 0 THEN 0 ELSE sh[i].y + SumY(sh, i - 1)
AddShape(pend, sh) ==
  [i \in 1..Max({Len(pend), Len(sh)}) |->
     [r |-> (IF i <= Len(pend) THEN pend[i].r ELSE 0) + (IF i <= Len(sh) THEN sh[i].r ELSE 0),
      y |-> (IF i <= Len(pend) THEN pend[i].y ELSE 0) + (IF i <= Len(sh) THEN sh[i].y ELSE 0)]]
LimitReached(s, pend) ==
  \/ s.lim.mb_rows > 0 /\ SumR(pend, Len(pend)) >= s.lim.mb_rows
  \/ s.lim.mb_bytes > 0 /\ SumY(pend, Len(pend)) >= s.lim.mb_bytes
  \/ \E i \in 1..Len(pend) : \/ s.lim.mrg_rows > 0 /\ pend[i].r >= s.lim.mrg_rows
                             \/ s.lim.mrg_bytes > 0 /\ pend[i].y >= s.lim.mrg_bytes

Unanswered(s) == {b \in B : Accepted(s, b) /\ s.chn[b] # "nil" /\ ~Answered(s, b)}
RowsPending(s) == \E b \in B : Accepted(s, b) /\ Rowsy(s, b) /\ Receivable(s, b) /\ ~Answered(s, b)

\* a new nil answer opens (or extends) the set judged when the observation round closes
AddFresh(s, b) == IF s.obsClosed THEN {b} ELSE s.fresh \cup {b}
StaleVis(s) == [s EXCEPT !.visS = [b \in B |-> -1], !.visF = [b \in B |-> -1]]

\* Once a trace has been settled (final observation done) the harness tears the
\* engine down; whatever is logged during the teardown is not judged.
Apply(s, e) ==
  CASE e.ev = "cfg"   -> Fresh(e.t)
    [] s.closed       -> s
    [] e.ev = "limit" -> [s EXCEPT !.lim[e.name] = e.a]
    [] e.ev = "decl"  -> [s EXCEPT !.kind[e.b] = e.name, !.chn[e.b] = e.res, !.nrows[e.b] = e.a,
                                   !.shape[e.b] = e.parts]
    [] e.ev = "call"  -> [s EXCEPT !.callSeq[e.b] = e.seq]
    [] e.ev = "ret"   ->
         LET s1 == [s EXCEPT !.retSeq[e.b] = e.seq, !.res[e.b] = e.res] IN
         IF e.res = "flushed"
           THEN [s1 EXCEPT !.answers[e.b] = Append(@, "nil"), !.fresh = AddFresh(s, e.b), !.obsClosed = FALSE]
         ELSE IF e.res = "flusherr"
           THEN [s1 EXCEPT !.answers[e.b] = Append(@, "err")]
         ELSE IF e.res = "nil" /\ s.kind[e.b] = "rows"
           THEN [s1 EXCEPT !.pendShape = AddShape(s.pendShape, s.shape[e.b])]
         ELSE s1
    [] e.ev = "ack"   ->
         LET s1 == [StaleVis(s) EXCEPT !.answers[e.b] = Append(@, e.res), !.ackLat[e.b] = e.a] IN
         IF e.res = "nil" /\ s.kind[e.b] \in {"rows", "force"}
           THEN [s1 EXCEPT !.fresh = AddFresh(s, e.b), !.obsClosed = FALSE]
           ELSE s1
    [] e.ev = "acksdone" ->
         \* a quiescent observation point: everything sent so far has been seen.
         \* e.n = goroutines parked at harness gates (scheduler artefacts)
         LET s1 == StaleVis(s)
             reached == LimitReached(s1, s1.pendShape) IN
         [s1 EXCEPT
            !.quietAfterDeadline = (s.deadlineSeq # 0 /\ s.stopSt = "called" /\ s.afterFuncSeq = 0 /\ e.n = 0),
            !.unansweredAtQuiet = Cardinality(Unanswered(s)),
            !.limitMiss = (s.lim.seqmode = 1 /\ e.n = 0 /\ reached /\ RowsPending(s)),
            !.pendShape = IF reached \/ ~RowsPending(s) THEN <<>> ELSE s.pendShape]
    [] e.ev = "vis"   -> [s EXCEPT !.visS[e.b] = e.a, !.visF[e.b] = e.n]
    [] e.ev = "visdone" -> [s EXCEPT !.obsClosed = TRUE]
    [] e.ev = "stopcall" -> [s EXCEPT !.stopSt = "called", !.stopCallSeq = e.seq]
    [] e.ev = "stopret" ->
         [s EXCEPT !.stopSt = IF e.res = "nil" THEN "ret_nil" ELSE "ret_deadline",
                   !.stopRetSeq = e.seq, !.stopLatency = e.a,
                   !.answeredAtStopRet = {e.parts[i].r : i \in 1..Len(e.parts)},
                   !.quietAfterDeadline = FALSE]
    [] e.ev = "deadline"  -> [s EXCEPT !.deadlineSeq = e.seq]
    [] e.ev = "afterfunc" -> [s EXCEPT !.afterFuncSeq = e.seq, !.quietAfterDeadline = FALSE]
    [] e.ev = "cancelcall" -> [s EXCEPT !.canceled = @ \cup {e.b}]
    [] e.ev = "point" ->
         [s EXCEPT
            !.flaggedSeq = IF e.name = "stop.flagged" THEN e.seq ELSE @,
            !.lastFlusherRecv = IF e.name = "flusher.recv" THEN e.seq ELSE @,
            \* a CreateFile started by a flush that was dequeued after Stop returned its deadline error
            !.lateCreates = IF e.name = "store.create" /\ s.stopSt = "ret_deadline"
                               /\ s.lastFlusherRecv > s.stopRetSeq THEN @ + 1 ELSE @]
    \* the store refused to remove a file (TombstoneFile / Abort returned an error)
    [] e.ev = "storeend" /\ e.name \in {"tombstone", "abort"} /\ e.res = "err" -> [s EXCEPT !.removalRefused = TRUE]
    [] e.ev = "settle" -> [s EXCEPT !.settled = (e.a = 1), !.closed = TRUE]
    [] OTHER -> s

(***************************************************************************)
(* Properties: the observable text of WritePath.tla's properties, as       *)
(* predicates of the monitor state s and the current event c.              *)
(***************************************************************************)
\* C05 -------------------------------------------------------------------
P_AtMostOnce(s, c) == \A b \in B : Len(s.answers[b]) <= 1
\* Stop returned nil: every batch accepted before it, on a buffered channel,
\* had its answer sitting in the channel at that very moment ...
P_StopNilDrainedNow(s, c) ==
  (c.ev = "stopret" /\ s.stopSt = "ret_nil") =>
     \A b \in B : (Accepted(s, b) /\ s.chn[b] = "buf" /\ s.kind[b] # "force" /\ s.retSeq[b] < s.stopRetSeq)
                  => (b \in s.answeredAtStopRet \/ Answered(s, b))
\* ... and at the final quiescent point nothing accepted is left unanswered
P_NoSilentDrop(s, c) ==
  (s.settled /\ s.stopSt = "ret_nil") => \A b \in B : (Accepted(s, b) /\ Receivable(s, b)) => Len(s.answers[b]) = 1

\* C06 -------------------------------------------------------------------
P_AckNilDurable(s, c) ==
  \A b \in B : (Rowsy(s, b) /\ Answered(s, b) /\ s.answers[b][1] = "nil") =>
      (s.visS[b] \in {-1, 1} /\ s.visF[b] \in {-1, 1})
\* (C06 makes this claim "with a MetaStore whose Update is atomic". With the directory itself as MetaStore a file is listed
\* from its Close on, whatever Update returns; the engine then removes it - unless the store refuses the removal too, which
\* no engine can make up for: such histories are outside the claim)
P_AckErrAbsent(s, c) ==
  (s.lim.fs = 1 /\ s.removalRefused) \/
  \A b \in B : (s.kind[b] \in {"rows", "bad"} /\ Answered(s, b) /\ s.answers[b][1] = "err") =>
      (s.visS[b] \in {-1, 0} /\ s.visF[b] \in {-1, 0})
P_NeverTwiceVisible(s, c) == \A b \in B : s.visS[b] \in {-1, 0, 1} /\ s.visF[b] \in {-1, 0, 1}
P_RejectLeavesNoTrace(s, c) ==
  \A b \in B : s.kind[b] \in {"bad", "empty"} => (s.visS[b] \in {-1, 0} /\ s.visF[b] \in {-1, 0})
\* a call refused or failed at the API never becomes visible
P_RefusedAbsent(s, c) ==
  \A b \in B : s.res[b] \in {"stopped", "ctxerr"} => (s.visS[b] \in {-1, 0} /\ s.visF[b] \in {-1, 0})

\* C07 (evaluated when an observation round closes) ----------------------
P_AckOrder(s, c) ==
  c.ev = "visdone" =>
    \A b \in s.fresh : \A b2 \in B :
       (Rowsy(s, b2) /\ Accepted(s, b2) /\ Before(s, b2, b)) =>
          /\ Receivable(s, b2) => Answered(s, b2)
          /\ (Answered(s, b2) /\ s.answers[b2][1] = "nil") => s.visS[b2] = 1

\* C08 -------------------------------------------------------------------
P_RefuseAfterStop(s, c) ==
  \A b \in B : (s.retSeq[b] # 0 /\ ((s.flaggedSeq # 0 /\ s.callSeq[b] > s.flaggedSeq)
                                     \/ (s.stopRetSeq # 0 /\ s.callSeq[b] > s.stopRetSeq)))
                => s.res[b] = "stopped"
P_NoLateStoreWork(s, c) == s.lateCreates = 0
\* the deadline fired, the context has not (yet) run its AfterFunc callbacks,
\* every goroutine is parked of its own accord - and Stop has not returned
P_StopReturnsByDeadline(s, c) == ~s.quietAfterDeadline
P_StopLatency(s, c) == s.stopSt = "ret_deadline" => s.stopLatency <= LatencyAllowanceMs
P_WaitersTold(s, c) ==
  (s.settled /\ s.stopSt = "ret_deadline") =>
      \A b \in B : (Accepted(s, b) /\ s.chn[b] \in {"buf", "unbuf"}) => Len(s.answers[b]) = 1

\* C09 -------------------------------------------------------------------
\* (a program whose shape fixes how many batches a flush request can carry declares the bound that follows from it)
P_Backpressure(s, c) == s.lim.ibs > 0 => s.unansweredAtQuiet <= (IF s.lim.bp_bound > 0 THEN s.lim.bp_bound
                                                                  ELSE s.lim.ibs + 3 * (s.lim.mb_rows + 1) + 1)
P_CanceledCallersReturn(s, c) == s.settled => \A b \in s.canceled : s.retSeq[b] # 0

\* C10 -------------------------------------------------------------------
P_LimitFlushImmediate(s, c) == ~s.limitMiss
P_TimeFlush(s, c) ==
  s.lim.timed = 1 => \A b \in B : (Rowsy(s, b) /\ Answered(s, b)) =>
                                    s.ackLat[b] <= s.lim.mb_time_ms + 100 + LatencyAllowanceMs
P_TimedAllAnswered(s, c) ==
  (s.settled /\ s.lim.timed = 1) => \A b \in B : (Accepted(s, b) /\ Receivable(s, b)) => Answered(s, b)

Props(s, c) ==
  [ C05_AtMostOnce |-> P_AtMostOnce(s, c), C05_StopNilDrainedNow |-> P_StopNilDrainedNow(s, c),
    C05_NoSilentDrop |-> P_NoSilentDrop(s, c),
    \* C05 states it as well as C08: a caller that keeps receiving is answered also when Stop gave up at its deadline
    C05_ReceivingCallersAnswered |-> P_WaitersTold(s, c),
    C06_AckNilDurable |-> P_AckNilDurable(s, c), C06_AckErrAbsent |-> P_AckErrAbsent(s, c),
    C06_NeverTwiceVisible |-> P_NeverTwiceVisible(s, c), C06_RejectLeavesNoTrace |-> P_RejectLeavesNoTrace(s, c),
    C06_RefusedAbsent |-> P_RefusedAbsent(s, c),
    C07_AckOrder |-> P_AckOrder(s, c),
    C08_RefuseAfterStop |-> P_RefuseAfterStop(s, c), C08_NoLateStoreWork |-> P_NoLateStoreWork(s, c),
    C08_StopReturnsByDeadline |-> P_StopReturnsByDeadline(s, c), C08_StopLatency |-> P_StopLatency(s, c),
    C08_WaitersTold |-> P_WaitersTold(s, c),
    \* C08 states it as well as C05: Stop returns nil only after every accepted batch has been answered
    C08_StopNilOnlyAfterAnswered |-> (P_StopNilDrainedNow(s, c) /\ P_NoSilentDrop(s, c)),
    C09_Backpressure |-> P_Backpressure(s, c), C09_CanceledCallersReturn |-> P_CanceledCallersReturn(s, c),
    C10_LimitFlushImmediate |-> P_LimitFlushImmediate(s, c), C10_TimeFlush |-> P_TimeFlush(s, c),
    C10_TimedAllAnswered |-> P_TimedAllAnswered(s, c) ]

\* Violations are collected (first event per property and trace) instead of
\* stopping TLC: one pass judges every trace in the file, and the report
\* stays small.  The check driver reads the MONITOR-REPORT line.
NewViol(s, c, old) ==
  LET pr == Props(s, c) IN
  { [p |-> n, t |-> s.tid, seq |-> c.seq] :
       n \in { x \in DOMAIN pr : ~pr[x] /\ ~\E v \in old : v.p = x /\ v.t = s.tid } }

Next == /\ l <= N
        /\ m' = Apply(m, Trace[l])
        /\ cur' = [ev |-> Trace[l].ev, b |-> Trace[l].b, seq |-> Trace[l].seq]
        /\ viol' = IF Cardinality(viol) < 500 THEN viol \cup NewViol(m', cur', viol) ELSE viol
        /\ l' = l + 1
Spec == Init /\ [][Next]_vars

Report == (l = N + 1) => PrintT(<<"MONITOR-REPORT", ToJson([events |-> N, violations |-> viol])>>)
\* the run consumed the whole file
AllConsumed == TLCGet("stats").diameter = N + 1
==========================================================================
