package main

// mode races (C16, concurrent writers): one store call is held at one of its
// filesystem mutation boundaries (verifFS blocks the calling goroutine) while
// other writers run whole calls against the same directory - creates with the
// name draw forced onto the same two or three names, writes, closes, aborts,
// tombstones of every pointer ever handed out and of names left behind by an
// earlier crash (orphaned ".tmp" files) - and is then let go. After every
// completed call and at the end the directory and a scan are compared with
// what the calls' own results promise: exactly the files whose Close succeeded
// and that were not tombstoned afterwards, each with the bytes written.

import (
	"context"
	"encoding/json"
	"fmt"
	"math/rand"
	"os"
	"path/filepath"
	"sort"
	"strings"
	"sync"
	"time"

	bs "github.com/danthegoodman1/bloomsearch"
	"verifharness/internal/h"
)

type raceStep struct {
	Op    string   `json:"op"` // create write close abort tombstone | hold | resume
	W     int      `json:"w"`
	Name  string   `json:"name"`
	Res   string   `json:"res"`
	Held  bool     `json:"held"`  // the step ran while another call was held inside the store
	Scan  []string `json:"scan"`  // names a scan listed after the step
	Want  []string `json:"want"`  // names the results so far promise
	Bytes int      `json:"bytes"` // listed files whose bytes differ from what their writer wrote
	Stray int      `json:"stray"` // non-empty ".dat" files that no successful Close accounts for
}

type raceObs struct {
	ID      int        `json:"id"`
	Names   []string   `json:"names"`
	Orphans []string   `json:"orphans"` // ".tmp" leftovers present at the start
	HeldOp  string     `json:"held_op"`
	HoldAt  string     `json:"hold_at"` // boundary label#n of the held call
	Reached bool       `json:"reached"`
	Steps   []raceStep `json:"steps"`
	Hung    bool       `json:"hung"`
	Stdio   int        `json:"stdio"`
	// verdict inputs, all over the steps
	ScanWrong  int `json:"scan_wrong"`  // steps whose scan differs from what the results promise
	BytesWrong int `json:"bytes_wrong"` // steps with a listed file holding other bytes than written
	Stray      int `json:"stray"`       // steps with an unaccounted non-empty ".dat"
	FinalTmp   int `json:"final_tmp"`   // ".tmp" files left at the end that no open writer, no untouched orphan explains
}

type raceWriter struct {
	w interface {
		Write([]byte) (int, error)
		Close() error
	}
	name  string
	pay   payload
	state string // open closed aborted failed
}

func runRaces(out string, seed int64, n int, guard *h.StdioGuard) int {
	rng := rand.New(rand.NewSource(seed*7919 + 17))
	pays, err := makePayloads(4, out)
	h.Must(err, "payloads")
	f, err := os.Create(out + "/races.ndjson")
	h.Must(err, "create")
	enc := json.NewEncoder(f)
	boundaries := []string{"reserve#1", "tmp.created#1", "reserve#2", "tmp.created#2", "reserve.release#1", "reserve#3", "write#1", "sync#1", "rename#1", "dirsync#1",
		"published#1", "abort.rm_tmp#1", "abort.rm_final#1", "abort.dirsync#1", "tomb.rm_final#1", "tomb.rm_tmp#1", "tomb.dirsync#1"}
	for id := 1; id <= n; id++ {
		dir := fmt.Sprintf("%s/race-%d", out, id)
		os.MkdirAll(dir, 0o755)
		o := raceObs{ID: id, Names: []string{"n1", "n2", "n3", "n4"}[:3+rng.Intn(2)]}
		std0 := guard.Len()
		// leftovers of an earlier crash
		for _, nm := range o.Names {
			if rng.Intn(3) == 0 {
				os.WriteFile(filepath.Join(dir, nm+".tmp"), []byte("leftover of an aborted write"), 0o644)
				o.Orphans = append(o.Orphans, nm)
			}
		}
		st := bs.NewFileSystemDataStore(dir)
		var dmu sync.Mutex
		var steer []string // names the held call touched before the boundary it is held at
		drawRng, ndraws := rand.New(rand.NewSource(rng.Int63())), 0
		bs.VerifSetFileNameDraw(st, func() string {
			dmu.Lock()
			defer dmu.Unlock()
			ndraws++
			if ndraws > 80 {
				return fmt.Sprintf("x%d", ndraws) // every forced name is taken: let the call end
			}
			// while a call is held, the others are steered onto the names it has been working on (interference is the point)
			if len(steer) > 0 && drawRng.Intn(2) == 0 {
				return steer[drawRng.Intn(len(steer))]
			}
			return o.Names[drawRng.Intn(len(o.Names))]
		})
		freeNames := func() int {
			snap, n := snapshot(dir), 0
			for _, nm := range o.Names {
				_, d := snap[nm+".dat"]
				_, t := snap[nm+".tmp"]
				if !d && !t {
					n++
				}
			}
			return n
		}
		// the held call's goroutine blocks at its chosen boundary
		var hmu sync.Mutex
		heldGid := int64(0)
		var touched []string
		heldName := "" // the name the held call is working on at its boundary: not a pointer anybody else may name yet
		counts := map[string]int{}
		holdK := 1 + rng.Intn(7) // the held call stops at its holdK-th boundary, whatever it is
		_ = boundaries
		arrived, gate := make(chan struct{}), make(chan struct{})
		fired := false
		bs.VerifFS = func(op, path string) error {
			hmu.Lock()
			if heldGid == 0 || h.Gid() != heldGid || fired {
				hmu.Unlock()
				return nil
			}
			counts[op]++
			counts["*"]++
			touched = append(touched, strings.TrimSuffix(strings.TrimSuffix(filepath.Base(path), ".dat"), ".tmp"))
			hit := counts["*"] == holdK
			if hit {
				fired = true
				o.HoldAt = fmt.Sprintf("%s#%d", op, counts[op])
				heldName = strings.TrimSuffix(strings.TrimSuffix(filepath.Base(path), ".dat"), ".tmp")
			}
			hmu.Unlock()
			if hit {
				close(arrived)
				<-gate
			}
			return nil
		}
		writers := map[int]*raceWriter{}
		nextW := 0
		// what the results promise: name -> payload of the successful Close not tombstoned since; nil entry = uncertain
		want := map[string]*payload{}
		uncertain := map[string]bool{}
		touchedOrphan := map[string]bool{}
		observe := func(s *raceStep) {
			s.Scan, s.Want = []string{}, []string{}
			for mf, err := range st.GetMaybeFilesForQuery(context.Background(), nil) {
				if err != nil {
					s.Scan = append(s.Scan, "ERR")
					break
				}
				s.Scan = append(s.Scan, strings.TrimSuffix(filepath.Base(string(mf.PointerBytes)), ".dat"))
			}
			sort.Strings(s.Scan)
			for nm := range want {
				s.Want = append(s.Want, nm)
			}
			sort.Strings(s.Want)
			snap := snapshot(dir)
			for name, fe := range snap {
				if !strings.HasSuffix(name, ".dat") || len(fe.Data) == 0 {
					continue
				}
				base := strings.TrimSuffix(name, ".dat")
				if uncertain[base] {
					continue
				}
				p, ok := want[base]
				if !ok {
					s.Stray++
				} else if string(fe.Data) != string(p.bytes) {
					s.Bytes++
				}
			}
			// uncertain names are taken out of the comparison
			filt := func(xs []string) []string {
				out := []string{}
				for _, x := range xs {
					if !uncertain[x] {
						out = append(out, x)
					}
				}
				return out
			}
			s.Scan, s.Want = filt(s.Scan), filt(s.Want)
			if strings.Join(s.Scan, ",") != strings.Join(s.Want, ",") {
				o.ScanWrong++
			}
			if s.Bytes > 0 {
				o.BytesWrong++
			}
			if s.Stray > 0 {
				o.Stray++
			}
			o.Steps = append(o.Steps, *s)
		}
		known := append([]string(nil), o.Orphans...) // pointers (base names) that may be tombstoned
		// one whole call by a writer other than the held one
		step := func(held bool, avoid int) {
			var open []int
			for wid, w := range writers {
				if w.state == "open" && wid != avoid {
					open = append(open, wid)
				}
			}
			sort.Ints(open)
			s := raceStep{Held: held}
			switch r := rng.Intn(10); {
			case r < 3 && len(writers) < 6 && freeNames() >= 2:
				nextW++
				w, ptr, err := st.CreateFile(context.Background())
				s.Op, s.W = "create", nextW
				if err != nil {
					s.Res = "err"
				} else {
					nm := strings.TrimSuffix(filepath.Base(string(ptr)), ".dat")
					s.Res, s.Name = "ok", nm
					writers[nextW] = &raceWriter{w: w, name: nm, pay: pays[rng.Intn(len(pays))], state: "open"}
					known = append(known, nm)
				}
			case r < 6 && len(open) > 0:
				wid := open[rng.Intn(len(open))]
				w := writers[wid]
				s.Op, s.W, s.Name = "close", wid, w.name
				_, werr := w.w.Write(w.pay.bytes)
				cerr := w.w.Close()
				if werr == nil && cerr == nil {
					s.Res, w.state = "ok", "closed"
					p := w.pay
					want[w.name] = &p
				} else {
					s.Res, w.state = "err", "failed"
					uncertain[w.name] = true
				}
			case r < 7 && len(open) > 0:
				wid := open[rng.Intn(len(open))]
				w := writers[wid]
				s.Op, s.W, s.Name = "abort", wid, w.name
				s.Res = "ok"
				if ab, ok := w.w.(interface{ Abort() error }); ok {
					if err := ab.Abort(); err != nil {
						s.Res = "err"
					}
				}
				w.state = "aborted"
			case len(known) > 0:
				nm := known[rng.Intn(len(known))]
				dmu.Lock()
				if held && len(steer) > 0 && rng.Intn(2) == 0 {
					for _, k := range known {
						if k == steer[0] {
							nm = k
						}
					}
				}
				dmu.Unlock()
				// never a pointer whose writer is still open (the engine tombstones after Close / Abort)
				busy := false
				for _, w := range writers {
					if w.state == "open" && w.name == nm {
						busy = true
					}
				}
				hmu.Lock()
				if held && nm == heldName {
					busy = true
				}
				hmu.Unlock()
				if busy {
					return
				}
				s.Op, s.Name = "tombstone", nm
				if err := st.TombstoneFile(context.Background(), []byte(filepath.Join(dir, nm+".dat"))); err != nil {
					s.Res = "err"
					uncertain[nm] = true
				} else {
					s.Res = "ok"
					delete(want, nm)
					touchedOrphan[nm] = true
				}
			default:
				return
			}
			observe(&s)
		}
		// prefix
		for k := 0; k < rng.Intn(6); k++ {
			step(false, 0)
		}
		// the held call: a create (followed by write+close or abort), or the close / abort / tombstone of an existing pointer
		heldDone := make(chan raceStep, 1)
		var heldW *raceWriter
		heldWid := 0
		kinds := []string{"create", "create", "create", "close", "abort", "tombstone"}
		o.HeldOp = kinds[rng.Intn(len(kinds))]
		var open []int
		for wid, w := range writers {
			if w.state == "open" {
				open = append(open, wid)
			}
		}
		sort.Ints(open)
		if (o.HeldOp == "close" || o.HeldOp == "abort") && len(open) == 0 || o.HeldOp == "tombstone" && len(known) == 0 {
			o.HeldOp = "create"
		}
		tombName := ""
		if o.HeldOp == "tombstone" {
			tombName = known[rng.Intn(len(known))]
			for _, w := range writers {
				if w.state == "open" && w.name == tombName {
					o.HeldOp, tombName = "create", ""
				}
			}
		}
		if o.HeldOp == "close" || o.HeldOp == "abort" {
			heldWid = open[rng.Intn(len(open))]
			heldW = writers[heldWid]
			// while its Close / Abort is in progress the file is neither promised nor excluded
			uncertain[heldW.name] = true
		}
		if o.HeldOp == "create" && freeNames() < 1 {
			os.RemoveAll(dir)
			bs.VerifFS = nil
			id--
			continue
		}
		heldPay := pays[rng.Intn(len(pays))]
		go func() {
			hmu.Lock()
			heldGid = h.Gid()
			hmu.Unlock()
			s := raceStep{Op: o.HeldOp}
			switch o.HeldOp {
			case "create":
				w, ptr, err := st.CreateFile(context.Background())
				if err != nil {
					s.Res = "err"
				} else {
					s.Res, s.Name = "ok", strings.TrimSuffix(filepath.Base(string(ptr)), ".dat")
					heldW = &raceWriter{w: w, name: s.Name, pay: heldPay, state: "open"}
				}
			case "close":
				s.Name = heldW.name
				_, werr := heldW.w.Write(heldW.pay.bytes)
				cerr := heldW.w.Close()
				if werr == nil && cerr == nil {
					s.Res = "ok"
				} else {
					s.Res = "err"
				}
			case "abort":
				s.Name, s.Res = heldW.name, "ok"
				if ab, ok := heldW.w.(interface{ Abort() error }); ok {
					if err := ab.Abort(); err != nil {
						s.Res = "err"
					}
				}
			case "tombstone":
				s.Name, s.Res = tombName, "ok"
				if err := st.TombstoneFile(context.Background(), []byte(filepath.Join(dir, tombName+".dat"))); err != nil {
					s.Res = "err"
				}
			}
			heldDone <- s
		}()
		var hs raceStep
		select {
		case <-arrived:
			o.Reached = true
			hmu.Lock()
			dmu.Lock()
			for _, nm := range touched {
				if nm != heldName {
					steer = append(steer, nm)
				}
			}
			dmu.Unlock()
			hmu.Unlock()
			// a pointer being closed / aborted / tombstoned by the held call is left alone meanwhile
			for k := 0; k < 2+rng.Intn(7); k++ {
				if o.HeldOp == "tombstone" {
					uncertain[tombName] = true
				}
				step(true, heldWid)
			}
			dmu.Lock()
			steer = nil
			dmu.Unlock()
			close(gate)
			select {
			case hs = <-heldDone:
			case <-time.After(20 * time.Second):
				o.Hung = true
			}
		case hs = <-heldDone:
			close(gate)
		case <-time.After(20 * time.Second):
			o.Hung = true
			close(gate)
		}
		hmu.Lock()
		heldGid = 0
		hmu.Unlock()
		if !o.Hung {
			// account for the held call's own result
			switch o.HeldOp {
			case "create":
				if hs.Res == "ok" {
					nextW++
					writers[nextW] = heldW
					known = append(known, heldW.name)
				}
			case "close":
				if hs.Res == "ok" {
					heldW.state = "closed"
					p := heldW.pay
					want[heldW.name] = &p
					delete(uncertain, heldW.name)
				} else {
					heldW.state = "failed"
				}
			case "abort":
				heldW.state = "aborted"
				if hs.Res == "ok" {
					delete(uncertain, heldW.name)
				}
			case "tombstone":
				if hs.Res == "ok" && !o.Reached {
					delete(want, tombName)
					touchedOrphan[tombName] = true
				} else {
					// a tombstone that overlapped other calls on the same name decides nothing here
					uncertain[tombName] = true
				}
			}
			hs.Op = o.HeldOp + " (held)"
			observe(&hs)
			// suffix: finish every open writer
			for k := 0; k < 8; k++ {
				step(false, 0)
			}
			for wid, w := range writers {
				if w.state != "open" {
					continue
				}
				s := raceStep{Op: "close", W: wid, Name: w.name}
				_, werr := w.w.Write(w.pay.bytes)
				cerr := w.w.Close()
				if werr == nil && cerr == nil {
					s.Res, w.state = "ok", "closed"
					p := w.pay
					want[w.name] = &p
				} else {
					s.Res, w.state = "err", "failed"
					uncertain[w.name] = true
				}
				observe(&s)
			}
			// temp files at the end: only untouched leftovers may remain
			for name := range snapshot(dir) {
				if strings.HasSuffix(name, ".tmp") {
					base := strings.TrimSuffix(name, ".tmp")
					orphan := false
					for _, x := range o.Orphans {
						if x == base {
							orphan = true
						}
					}
					if !(orphan && !touchedOrphan[base]) && !uncertain[base] {
						o.FinalTmp++
					}
				}
			}
		}
		if o.Orphans == nil {
			o.Orphans = []string{}
		}
		if o.Steps == nil {
			o.Steps = []raceStep{}
		}
		o.Stdio = guard.Len() - std0
		h.Must(enc.Encode(o), "encode")
		bs.VerifFS = nil
		os.RemoveAll(dir)
	}
	f.Close()
	return n
}
