// Command minmax replays the symbolic minmax domain of MinMax.tla on the real
// conversion / evaluation functions and end-to-end through the engine, and
// writes observations for MinMaxMonitor.tla.
package main

import (
	"bufio"
	"context"
	"encoding/json"
	"flag"
	"fmt"
	"math"
	"math/rand"
	"os"
	"path/filepath"
	"time"

	bs "github.com/danthegoodman1/bloomsearch"
	"verifharness/internal/h"
)

type point struct {
	N   string `json:"n"`
	Int bool   `json:"int"`
	I64 bool   `json:"i64"`
}
type cond struct {
	Op string `json:"op"`
	X  int    `json:"x"`
	Xs []int  `json:"xs"`
	Lo int    `json:"lo"`
	Hi int    `json:"hi"`
}
type export struct {
	Points []point `json:"points"`
	Conds  []cond  `json:"conds"`
}

type namedInt int64
type namedUint uint64
type namedFloat float64
type namedF32 float32
type namedI8 int8

const maxF = int64(math.MaxInt64 - 1023) // 2^63 - 1024

// int64 value of the int64-representable points
var i64Of = map[string]int64{
	"MIN": math.MinInt64, "MIN1": math.MinInt64 + 1, "NEG2": -2, "NEG1": -1, "ZERO": 0, "ONE": 1, "TWO": 2,
	"MAXF": maxF, "MAX1": math.MaxInt64 - 1, "MAX": math.MaxInt64,
}

type variant struct {
	kind string
	v    any
	json bool // marshalable (usable end to end)
}

// variants lists Go values of every numeric kind that can hold the point exactly.
func variants(name string) []variant {
	var out []variant
	add := func(kind string, v any) { out = append(out, variant{kind, v, true}) }
	addNJ := func(kind string, v any) { out = append(out, variant{kind, v, false}) }
	if iv, ok := i64Of[name]; ok {
		add("int64", iv)
		add("named-int64", namedInt(iv))
		add("time.Duration", time.Duration(iv))
		if iv >= math.MinInt32 && iv <= math.MaxInt32 {
			add("int", int(iv))
			add("int32", int32(iv))
			add("float64", float64(iv))
			add("float32", float32(iv))
			add("named-float64", namedFloat(iv))
			add("named-float32", namedF32(iv))
		}
		if iv >= -128 && iv <= 127 {
			add("int8", int8(iv))
			add("int16", int16(iv))
			add("named-int8", namedI8(iv))
		}
		if iv >= 0 {
			add("uint64", uint64(iv))
			add("uint", uint(iv))
			add("named-uint64", namedUint(iv))
			if iv <= 255 {
				add("uint8", uint8(iv))
				add("uint16", uint16(iv))
				add("uint32", uint32(iv))
			}
		}
		if name == "MAXF" || name == "MIN" {
			add("float64", float64(iv))
			add("named-float64", namedFloat(iv))
		}
		return out
	}
	switch name {
	case "BELOW":
		add("float64", -1e19)
		add("float32", float32(-1e19))
		add("named-float64", namedFloat(-1e19))
		addNJ("float64-inf", math.Inf(-1))
	case "NEG1H":
		add("float64", -1.5)
		add("float32", float32(-1.5))
		add("named-float64", namedFloat(-1.5))
	case "HALF":
		add("float64", 0.5)
		add("float32", float32(0.5))
		add("named-float32", namedF32(0.5))
	case "ABOVE":
		add("uint64", uint64(math.MaxInt64)+1)
		add("float64", float64(math.MaxInt64)) // exactly 2^63
		add("float32", float32(math.MaxInt64))
		add("named-uint64", namedUint(uint64(math.MaxInt64)+1))
		add("uint", uint(uint64(math.MaxInt64)+1))
	case "ABOVE2":
		add("uint64", uint64(10000000000000000000))
		add("float64", 1e19)
		add("named-float64", namedFloat(1e19))
		add("uint64-max", uint64(math.MaxUint64))
		addNJ("float64-inf", math.Inf(1))
	}
	return out
}

type obs struct {
	Folded bool     `json:"folded"` // the block range was folded from two sub-ranges (merge path)
	ID     int      `json:"id"`
	Vals   []int    `json:"vals"` // point indices (1-based)
	Kinds  []string `json:"kinds"`
	OK     []bool   `json:"ok"`  // ConvertToMinMaxInt64 reported numeric
	CLo    []int    `json:"clo"` // converted bounds as point indices (0 = not a point of the domain)
	CHi    []int    `json:"chi"`
	RLo    int      `json:"rlo"` // block range as point indices
	RHi    int      `json:"rhi"`
	Eval   []bool   `json:"eval"`  // EvaluateMinMaxCondition(range, cond) for every condition
	EvalM  []bool   `json:"evalm"` // EvaluateDataBlockMetadata with MatchPrefilter(MinMax(...))
	E2E    bool     `json:"e2e"`
	Layout string   `json:"layout"`
	CondIx []int    `json:"condix"` // conditions tried end to end (1-based)
	Ret    [][]bool `json:"ret"`    // per tried condition: per value, was the row returned
	Stored []bool   `json:"stored"` // per value: the row is stored (ingest acked nil)
}

func main() {
	out := flag.String("out", "", "output dir")
	exp := flag.String("export", "", "minmax.json exported by TLC")
	seed := flag.Int64("seed", 1, "seed")
	n := flag.Int("n", 400, "number of value sets")
	e2e := flag.Int("e2e", 60, "how many of them also go end to end")
	flag.Parse()
	os.MkdirAll(*out, 0o755)
	guard := h.CaptureStdio()
	b, err := os.ReadFile(*exp)
	h.Must(err, "read export")
	var ex export
	h.Must(json.Unmarshal(b, &ex), "parse export")
	rng := rand.New(rand.NewSource(*seed))
	start := time.Now()

	pointOf := map[int64]int{}
	for i, p := range ex.Points {
		if v, ok := i64Of[p.N]; ok {
			pointOf[v] = i + 1
		}
	}
	condRng := rand.New(rand.NewSource(*seed*31 + 7))
	realCond := func(c cond) bs.NumericCondition {
		val := func(ix int) int64 { return i64Of[ex.Points[ix-1].N] }
		nc := bs.NumericCondition{Operator: bs.QueryOperator(c.Op), Value: val(c.X), Min: val(c.Lo), Max: val(c.Hi)}
		for _, x := range c.Xs {
			nc.Values = append(nc.Values, val(x))
		}
		// a list of values is a set: the condition is an exported struct (and a JSON shape), so the order its values
		// arrive in is whatever the caller wrote
		condRng.Shuffle(len(nc.Values), func(i, j int) { nc.Values[i], nc.Values[j] = nc.Values[j], nc.Values[i] })
		return nc
	}

	of, err := os.Create(filepath.Join(*out, "obs.ndjson"))
	h.Must(err, "create obs")
	w := bufio.NewWriter(of)
	np := len(ex.Points)
	id := 0
	emit := func(vals []int, doE2E bool) {
		id++
		o := obs{ID: id, Vals: vals, Eval: []bool{}, EvalM: []bool{}, CondIx: []int{}, Ret: [][]bool{}, Stored: []bool{}}
		var reals []any
		var rng64 bs.MinMaxIndex
		have := false
		for _, p := range vals {
			vs := variants(ex.Points[p-1].N)
			if doE2E {
				var js []variant
				for _, v := range vs {
					if v.json {
						js = append(js, v)
					}
				}
				vs = js
			}
			v := vs[rng.Intn(len(vs))]
			reals = append(reals, v.v)
			o.Kinds = append(o.Kinds, v.kind)
			lo, hi, ok := bs.ConvertToMinMaxInt64(v.v)
			o.OK = append(o.OK, ok)
			o.CLo = append(o.CLo, pointOf[lo])
			o.CHi = append(o.CHi, pointOf[hi])
			if ok {
				if !have {
					rng64 = bs.MinMaxIndex{Min: lo, Max: hi}
					have = true
				} else {
					rng64 = bs.UpdateMinMaxIndex(rng64, lo, hi)
				}
			}
		}
		// the same block range reached the way a merge reaches it: the values split into two source blocks whose ranges
		// are folded together with UpdateMinMaxIndex(accumulated, other.Min, other.Max), in a random split and order
		if have && len(vals) >= 2 && rng.Intn(2) == 0 {
			var sub [2]bs.MinMaxIndex
			var hv [2]bool
			cut := 1 + rng.Intn(len(vals)-1)
			for i, rv := range reals {
				g := 0
				if i >= cut {
					g = 1
				}
				lo, hi, ok := bs.ConvertToMinMaxInt64(rv)
				if !ok {
					continue
				}
				if !hv[g] {
					sub[g], hv[g] = bs.MinMaxIndex{Min: lo, Max: hi}, true
				} else {
					sub[g] = bs.UpdateMinMaxIndex(sub[g], lo, hi)
				}
			}
			if hv[0] && hv[1] {
				a, b := 0, 1
				if rng.Intn(2) == 0 {
					a, b = 1, 0
				}
				rng64 = bs.UpdateMinMaxIndex(sub[a], sub[b].Min, sub[b].Max)
				o.Folded = true
			}
		}
		if have {
			o.RLo, o.RHi = pointOf[rng64.Min], pointOf[rng64.Max]
			blk := &bs.DataBlockMetadata{MinMaxIndexes: map[string]bs.MinMaxIndex{"v": rng64}}
			for _, c := range ex.Conds {
				nc := realCond(c)
				o.Eval = append(o.Eval, bs.EvaluateMinMaxCondition(rng64, nc))
				pf := bs.MinMax("v", nc)
				wrapped := pf
				switch rng.Intn(3) {
				case 1:
					wrapped = bs.PrefilterAnd(pf, bs.PrefilterOr(pf))
				case 2:
					wrapped = bs.PrefilterOr(bs.MinMax("absent", nc), pf)
				}
				o.EvalM = append(o.EvalM, bs.EvaluateDataBlockMetadata(blk, &bs.QueryPrefilter{Expression: &wrapped}))
			}
		}
		if doE2E {
			o.E2E = true
			o.Layout = []string{"oneblock", "twofiles", "merged"}[rng.Intn(3)]
			runE2E(&o, reals, ex, realCond, rng)
		}
		line, err := json.Marshal(o)
		h.Must(err, "marshal")
		w.Write(line)
		w.WriteByte('\n')
	}
	// every single point, every pair, then random triples
	count := 0
	for p := 1; p <= np; p++ {
		for k := 0; k < 4; k++ {
			emit([]int{p}, count < *e2e/3)
			count++
		}
	}
	for p := 1; p <= np; p++ {
		for q := p; q <= np; q++ {
			emit([]int{p, q}, rng.Intn(np*np/2) < *e2e/2)
		}
	}
	for id < *n {
		k := 2 + rng.Intn(2)
		var vals []int
		for i := 0; i < k; i++ {
			vals = append(vals, 1+rng.Intn(np))
		}
		emit(vals, rng.Intn(*n) < *e2e/3)
	}
	h.Must(w.Flush(), "flush")
	of.Close()
	guard.Restore()
	h.WriteJSON(filepath.Join(*out, "summary.json"), map[string]any{"obs": id, "stdio_bytes": guard.Len(), "wall_s": time.Since(start).Seconds()})
	fmt.Printf("minmax: %d observations, %d stdio bytes, %.1fs\n", id, guard.Len(), time.Since(start).Seconds())
}

func runE2E(o *obs, reals []any, ex export, realCond func(cond) bs.NumericCondition, rng *rand.Rand) {
	cfg := bs.DefaultBloomSearchEngineConfig()
	cfg.MinMaxIndexes = []string{"v"}
	// other indexed fields around "v" in the configured list, carrying numbers, values that are not indexed (strings,
	// bools, nulls) or nothing: what a row holds for another index must not change what is recorded for "v"
	extras := rng.Intn(2) == 0
	if extras {
		cfg.MinMaxIndexes = [][]string{{"a", "v", "z"}, {"a", "z", "v"}, {"v", "a", "z"}}[rng.Intn(3)]
	}
	other := func() (any, bool) {
		switch rng.Intn(6) {
		case 0:
			return nil, false
		case 1:
			return "n/a", true
		case 2:
			return nil, true
		case 3:
			return true, true
		default:
			return rng.Intn(100), true
		}
	}
	cfg.MaxBufferedTime = time.Hour
	cfg.RowDataCompression = bs.CompressionNone
	meta, data := bs.NewMemoryMetaStore(), h.NewMemData()
	eng, err := bs.NewBloomSearchEngine(cfg, meta, data)
	h.Must(err, "engine")
	eng.Start()
	// "merged": the values go into two files of different sizes (one value / the rest, either way round) so that the
	// merge folds a smaller block's range and a larger block's range together in both containment directions
	cut := -1
	if o.Layout == "merged" && len(reals) >= 2 {
		if rng.Intn(2) == 0 {
			cut = 1
		} else {
			cut = len(reals) - 1
		}
	}
	for i, v := range reals {
		done := make(chan error, 1)
		row := map[string]any{"id": fmt.Sprintf("r%d", i+1), "v": v}
		if extras {
			for _, k := range []string{"a", "z"} {
				if x, ok := other(); ok {
					row[k] = x
				}
			}
		}
		h.Must(eng.IngestRows(context.Background(), []map[string]any{row}, done), "ingest")
		switch {
		case o.Layout == "oneblock":
			o.Stored = append(o.Stored, true)
		case cut > 0 && i+1 != cut && i+1 != len(reals):
			// stays buffered until its file's last row arrives
			o.Stored = append(o.Stored, true)
		default:
			h.Must(eng.Flush(context.Background()), "flush")
			o.Stored = append(o.Stored, <-done == nil)
		}
	}
	h.Must(eng.Flush(context.Background()), "flush")
	h.Must(eng.Stop(context.Background()), "stop")
	if o.Layout == "merged" {
		if _, err := eng.Merge(context.Background()); err != nil {
			o.Layout = "mergefailed"
		}
	}
	// a sample of conditions, always including the boundary ones
	for k := 0; k < 24; k++ {
		ci := rng.Intn(len(ex.Conds))
		c := ex.Conds[ci]
		pf := bs.MinMax("v", realCond(c))
		q := bs.NewQuery().MatchPrefilter(pf).Build()
		res, err := eng.Query(context.Background(), q)
		h.Must(err, "query")
		got := make([]bool, len(reals))
		for res.Next() {
			var i int
			s, _ := res.Row()["id"].(string)
			fmt.Sscanf(s, "r%d", &i)
			if i >= 1 && i <= len(got) {
				got[i-1] = true
			}
		}
		res.Close()
		o.CondIx = append(o.CondIx, ci+1)
		o.Ret = append(o.Ret, got)
	}
}
