-------------------------- MODULE FileLayoutMonitor --------------------------
(***************************************************************************)
(* Judges how the real readers treated malformed and corrupted files        *)
(* (cmd/layout observations). For framing cases the specification's Accept  *)
(* and Safe (FileLayoutOps.tla) are evaluated on the very tuple the footer   *)
(* declared (values beyond +-2^30 clamped, which preserves every comparison *)
(* against a file of a few KB).                                            *)
(***************************************************************************)
EXTENDS FileLayoutOps, Json

CONSTANT ObsFile
Obs == ndJsonDeserialize(ObsFile)
NObs == Len(Obs)
VARIABLES l, viol
vars == << l, viol >>

Tuple(o) == [F |-> o.t.F, M |-> o.t.M, ffs |-> o.t.ffs, ro |-> o.t.ro, rs |-> o.t.rs,
             blocks |-> [i \in 1..Len(o.t.blocks) |-> [rdo |-> o.t.blocks[i].rdo, rds |-> o.t.blocks[i].rds,
                                                        bfo |-> o.t.blocks[i].bfo, bfs |-> o.t.blocks[i].bfs]]]
IsFraming(o) == o.class = "framing" /\ ~(o.panic # "" /\ o.t.F = 0)

C19_NoPanic(o) == o.panic = "" /\ o.ms_panic = ""
C19_ReadsInBounds(o) == o.oob_reads = 0
C19_AllocBounded(o) == o.alloc <= 4 * o.file_size + 2097152
C19_RowsWritten(o) == o.outside = 0 /\ o.p_outside = 0 /\ o.ms_outside = 0
C19_ExactOrError(o) == o.class = "corrupt" => (o.p_exact \/ o.p_qerr)
C19_AcceptedIsSafe(o) == (IsFraming(o) /\ o.accept) => Safe(Tuple(o))
\* conformance of the reader's decision with the specification's transcription of it (reported as drift, not as a violation)
DRIFT_AcceptMatchesSpec(o) == IsFraming(o) => ((o.accept => Accept(Tuple(o))) /\ ((Accept(Tuple(o)) /\ o.ffs_pristine) => o.accept))
C27_Silent(o) == o.stdio = 0

Props(o) ==
  [ C19_NoPanic |-> C19_NoPanic(o), C19_ReadsInBounds |-> C19_ReadsInBounds(o), C19_AllocBounded |-> C19_AllocBounded(o),
    C19_RowsWritten |-> C19_RowsWritten(o), C19_ExactOrError |-> C19_ExactOrError(o), C19_AcceptedIsSafe |-> C19_AcceptedIsSafe(o),
    DRIFT_AcceptMatchesSpec |-> DRIFT_AcceptMatchesSpec(o), C27_Silent |-> C27_Silent(o) ]

Init == l = 1 /\ viol = {}
Next == /\ l <= NObs
        /\ LET o == Obs[l] pr == Props(o) IN
             viol' = viol \cup { [p |-> n, id |-> o.id] : n \in { x \in DOMAIN pr : ~pr[x] } }
        /\ l' = l + 1
Spec == Init /\ [][Next]_vars
Report == (l = NObs + 1) => PrintT(<<"MONITOR-REPORT", ToJson([events |-> NObs, violations |-> viol])>>)
Count(P(_)) == Cardinality({ i \in 1..NObs : P(Obs[i]) })
Stats == (l = NObs + 1) => PrintT(<<"MONITOR-STATS", ToJson([
    framing |-> Count(LAMBDA o : o.class = "framing"), framing_accepted |-> Count(LAMBDA o : o.class = "framing" /\ o.accept),
    framing_rejected |-> Count(LAMBDA o : o.class = "framing" /\ ~o.accept),
    spec_accepts |-> Count(LAMBDA o : IsFraming(o) /\ Accept(Tuple(o))),
    corrupt |-> Count(LAMBDA o : o.class = "corrupt"), corrupt_changed |-> Count(LAMBDA o : o.class = "corrupt" /\ o.changed),
    corrupt_accepted |-> Count(LAMBDA o : o.class = "corrupt" /\ o.accept),
    corrupt_errors |-> Count(LAMBDA o : o.class = "corrupt" /\ o.p_qerr) ])>>)
AllConsumed == TLCGet("stats").diameter = NObs + 1
=============================================================================
