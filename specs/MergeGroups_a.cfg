SPECIFICATION Spec
CONSTANTS
  MRGRows = 3
  MRGBytes = 3
  MaxFiles = 3
  MaxFileSize = 8
  NFiles = 3
  RowChoices = {1,2}
INVARIANT C12_PlanRespectsLimits
CHECK_DEADLOCK FALSE
