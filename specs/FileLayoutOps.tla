----------------------------- MODULE FileLayoutOps ---------------------------
(***************************************************************************)
(* Framing of a bloom file as its readers see it (file_format.go):         *)
(*                                                                         *)
(*   [row data of block 1..n][block filter region][file filter section]    *)
(*   [metadata JSON][CRC32C][length][version][magic]                       *)
(*                                                                         *)
(* ReadFileMetadata locates the metadata from the tail, checks its CRC and  *)
(* then validates every offset and size the metadata declares before any   *)
(* reader seeks or allocates by them. Accept is a transcription of those    *)
(* checks (FileMetadata.validate, validateFilterSection, the file filter    *)
(* section size check) over integers; Safe is what the property needs from  *)
(* an accepted file. TLC checks Accept => Safe for every tuple of a small   *)
(* integer domain that contains negatives, zero, every boundary of a small  *)
(* file +-1 and a value far beyond it; FileLayoutMonitor.tla evaluates the   *)
(* same Accept on the framing tuples replayed against the real readers.     *)
(***************************************************************************)
EXTENDS Integers, Sequences, FiniteSets, TLC

\* a framing tuple: M = offset of the metadata JSON, F = file size, ffs = file filter section size,
\* ro/rs = block filter region offset/size, blocks = sequence of [rdo, rds, bfo, bfs]
BlockOK(b, ro, regionEnd) ==
  /\ b.rdo >= 0 /\ b.rds >= 0
  /\ ~(b.rdo > ro) /\ ~(b.rds > ro - b.rdo)                 \* row data precedes the region (compared by subtraction)
  /\ b.bfs >= 0
  /\ (b.bfs > 0 => (~(b.bfo < ro) /\ ~(b.bfo > regionEnd) /\ ~(b.bfs > regionEnd - b.bfo)))

Accept(t) ==
  /\ t.ffs >= 0 /\ ~(t.ffs > t.M)
  /\ LET L == t.M - t.ffs IN
       /\ t.ro >= 0 /\ t.rs >= 0
       /\ L >= 0 /\ ~(t.ro > L) /\ ~(t.rs > L - t.ro)
       /\ \A i \in 1..Len(t.blocks) : BlockOK(t.blocks[i], t.ro, t.ro + t.rs)

\* what an accepted file guarantees its readers: every extent inside the data area, nothing larger than the file
\* (compared by subtraction: the recorded values are arbitrary, and off + size may not be representable)
Inside(off, size, lo, hi) == off >= lo /\ size >= 0 /\ off <= hi /\ size <= hi - off
Safe(t) ==
  LET L == t.M - t.ffs IN
  /\ Inside(t.M - t.ffs, t.ffs, 0, t.M)
  /\ Inside(t.ro, t.rs, 0, L)
  /\ \A i \in 1..Len(t.blocks) : LET b == t.blocks[i] IN
       /\ Inside(b.rdo, b.rds, 0, t.ro)
       /\ (b.bfs > 0 => Inside(b.bfo, b.bfs, t.ro, t.ro + t.rs))
       /\ b.bfs >= 0 /\ b.bfs <= t.F /\ b.rds <= t.F
  /\ t.rs <= t.F /\ t.ffs <= t.F
=============================================================================
