------------------------------ MODULE FSCallsOps ----------------------------
(***************************************************************************)
(* Call-level specification of FileSystemDataStore (C16): what each        *)
(* DataStore call does to the directory, as a function of the names the    *)
(* draw returns. A directory cell is [e, p, k]: exists, payload id, chunks *)
(* present (a 0-byte reservation is [e |-> TRUE, p |-> "", k |-> 0]; a      *)
(* payload has two chunks). Writers are w -> [st, name, k, pay] with st in  *)
(* open, cf (Close failed before the rename), cfr (Close failed after it), closed, aborted.                               *)
(*                                                                         *)
(* The same operators serve two uses: Spec lets TLC explore every call     *)
(* sequence over a small domain and check ScanExact / NoClobber /          *)
(* NeverExposes on the specification itself; FSCallsMonitor.tla replays    *)
(* recorded call sequences of the real store through them and compares the *)
(* real directory, results and scans after every call.                     *)
(*                                                                         *)
(* Domain (what a caller may do): Write only on an open writer; Close and  *)
(* Abort on any writer, any number of times, in any order; TombstoneFile   *)
(* only for a pointer whose writer has finished and whose name no later    *)
(* writer has drawn (a pointer is a path: tombstoning a stale pointer names *)
(* whoever owns the path now).                                             *)
(***************************************************************************)
EXTENDS Integers, Sequences, FiniteSets, TLC

CONSTANTS Names, WriterIds, Pays

None == [e |-> FALSE, p |-> "", k |-> 0]
Resv == [e |-> TRUE, p |-> "", k |-> 0]
NoWriter == [st |-> "none", name |-> "", k |-> 0, pay |-> ""]

\* state: [dat, tmp, wr]
S0 == [dat |-> [n \in Names |-> None], tmp |-> [n \in Names |-> None], wr |-> [w \in WriterIds |-> NoWriter]]

\* CreateFile over the sequence of names the draw returned; fault = "reserve" fails the first reservation attempt
RECURSIVE CreateFrom(_, _, _, _, _)
CreateFrom(s, w, draws, i, pay) ==
  IF i > Len(draws) THEN [s |-> s, res |-> "err", name |-> ""]
  ELSE LET n == draws[i] IN
       IF s.dat[n].e THEN CreateFrom(s, w, draws, i + 1, pay)                     \* reservation collides: redraw
       ELSE IF s.tmp[n].e THEN CreateFrom(s, w, draws, i + 1, pay)                \* orphaned temp: release, redraw
       ELSE [s |-> [s EXCEPT !.dat[n] = Resv, !.tmp[n] = Resv, !.wr[w] = [st |-> "open", name |-> n, k |-> 0, pay |-> pay]],
             res |-> "ok", name |-> n]
DoCreate(s, w, draws, fault, pay) ==
  IF fault = "reserve" THEN [s |-> s, res |-> "err", name |-> ""] ELSE CreateFrom(s, w, draws, 1, pay)

DoWrite(s, w, fault) ==
  LET x == s.wr[w] IN
  IF x.st # "open" \/ fault # "" THEN [s |-> s, res |-> "err"]
  ELSE [s |-> [s EXCEPT !.tmp[x.name] = [e |-> TRUE, p |-> x.pay, k |-> x.k + 1], !.wr[w].k = x.k + 1], res |-> "ok"]

\* Close publishes: the temp replaces the reservation. A failure before the rename leaves both in place. A failure
\* of the directory fsync comes after the rename: Close reports an error while the complete file already sits at the
\* final name (writer state "cfr"), visible to scans until Abort or TombstoneFile removes it - the documented
\* transient of renameOnCloseFile, modelled as what it is.
DoClose(s, w, fault) ==
  LET x == s.wr[w] IN
  IF x.st # "open" THEN [s |-> s, res |-> "err"]
  ELSE IF fault = "dirsync"
         THEN [s |-> [s EXCEPT !.dat[x.name] = s.tmp[x.name], !.tmp[x.name] = None, !.wr[w].st = "cfr"], res |-> "err"]
  ELSE IF fault # "" THEN [s |-> [s EXCEPT !.wr[w].st = "cf"], res |-> "err"]
  ELSE [s |-> [s EXCEPT !.dat[x.name] = s.tmp[x.name], !.tmp[x.name] = None, !.wr[w].st = "closed"], res |-> "ok"]

\* Abort discards an unpublished write; it is a no-op on a published or already aborted writer
DoAbort(s, w) ==
  LET x == s.wr[w] IN
  IF x.st \in {"closed", "aborted", "none"} THEN [s |-> s, res |-> "ok"]
  ELSE [s |-> [s EXCEPT !.dat[x.name] = None, !.tmp[x.name] = None, !.wr[w].st = "aborted"], res |-> "ok"]

DoTombstone(s, w) ==
  LET x == s.wr[w] IN
  [s |-> [s EXCEPT !.dat[x.name] = None, !.tmp[x.name] = None, !.wr[w] = NoWriter], res |-> "ok"]

\* what OpenFile + read returns for the writer's pointer
OpenView(s, w) == s.dat[s.wr[w].name]
ScanOf(s) == { n \in Names : s.dat[n].e /\ s.dat[n].k = 2 }
=============================================================================
