SPECIFICATION Spec
CONSTANTS
  DocSet = {1, 2, 3, 4, 5, 6, 9, 12, 13}
  AttrIdx = {1, 2, 3, 4}
INVARIANTS NoFalseNegative Exact GuardImpliedByRegex PrefilterSound BoundsOrdered MergePreservesAnswers
CHECK_DEADLOCK FALSE
