SPECIFICATION Spec
CONSTANTS
  Names = {"n1", "n2"}
  WriterIds = {1, 2, 3}
  Pays = {"P1", "P2"}
INVARIANTS ScanExact NeverExposes NoOrphans AbortLeavesNothing
PROPERTIES NoClobber
CHECK_DEADLOCK FALSE
