----------------------------- MODULE FileLayout -----------------------------
(***************************************************************************)
(* Accept => Safe (FileLayoutOps.tla) checked by TLC for every framing     *)
(* tuple over a small integer domain around a 12-byte file.                *)
(***************************************************************************)
EXTENDS FileLayoutOps

(***************************************************************************)
(* exhaustive check over a small file: F = 12, metadata at M = 9            *)
(***************************************************************************)
CONSTANTS Dom, NBlocks
DomWide == {-1, 0, 1, 2, 3, 4, 6, 7, 8, 9, 10, 12, 13, 1000000}
DomMid == {-1, 0, 2, 4, 5, 7, 9, 10, 1000000}
DomPair == {-1, 0, 4, 1000000}
VARIABLE t
Blk(a, b, c, d) == [rdo |-> a, rds |-> b, bfo |-> c, bfs |-> d]
Init == \E ffs \in Dom, ro \in Dom, rs \in Dom, a1 \in Dom, b1 \in Dom, c1 \in Dom, d1 \in Dom :
          IF NBlocks = 1
            THEN t = [F |-> 12, M |-> 9, ffs |-> ffs, ro |-> ro, rs |-> rs, blocks |-> << Blk(a1, b1, c1, d1) >>]
            ELSE \E a2 \in Dom, b2 \in Dom, c2 \in Dom, d2 \in Dom :
                   t = [F |-> 12, M |-> 9, ffs |-> ffs, ro |-> ro, rs |-> rs, blocks |-> << Blk(a1, b1, c1, d1), Blk(a2, b2, c2, d2) >>]
Next == UNCHANGED t
Spec == Init /\ [][Next]_t
AcceptImpliesSafe == Accept(t) => Safe(t)
\* the checks are not vacuous: the writer's own layout is accepted
WriterLayoutAccepted == Accept([F |-> 12, M |-> 9, ffs |-> 2, ro |-> 4, rs |-> 3,
                                blocks |-> << [rdo |-> 0, rds |-> 2, bfo |-> 4, bfs |-> 2], [rdo |-> 2, rds |-> 2, bfo |-> 6, bfs |-> 1] >>])
=============================================================================
