package sem

import (
	"context"
	"hash/crc32"
	"io"

	bs "github.com/danthegoodman1/bloomsearch"
)

var castagnoli = crc32.MakeTable(crc32.Castagnoli)

// layoutFacts recomputes, from a stored file's bytes, the facts C17 states
// about it. The relations between them are checked by SearchMonitor.tla.
func (x *executor) layoutFacts(store bs.DataStore, f bs.MaybeFile, fo *FileObs) {
	rd, err := store.OpenFile(context.Background(), f.PointerBytes)
	if err != nil {
		return
	}
	defer rd.Close()
	md, size, err := bs.ReadFileMetadata(rd)
	if err != nil {
		return
	}
	fo.ParseOK = true
	fo.Size = int(size)
	fo.RegionOff, fo.RegionSize = md.BlockFilterRegionOffset, md.BlockFilterRegionSize
	fo.FileCnt = []int{md.BloomEntryCounts.Fields, md.BloomEntryCounts.Tokens, md.BloomEntryCounts.FieldTokens}
	fo.BlocksTrue = len(md.DataBlocks) == len(f.Metadata.DataBlocks)
	fo.HelpersOK = true
	for i := range md.DataBlocks {
		blk := md.DataBlocks[i]
		fo.Offs = append(fo.Offs, blk.RowDataOffset)
		fo.Sizes = append(fo.Sizes, blk.RowDataSize)
		fo.FOffs = append(fo.FOffs, blk.BloomFilterOffset)
		fo.FSizes = append(fo.FSizes, blk.BloomFilterSize)
		if blk.RowDataOffset < 0 || blk.RowDataSize < 0 || int64(blk.RowDataOffset+blk.RowDataSize) > size {
			fo.BlocksTrue = false
			continue
		}
		raw := make([]byte, blk.RowDataSize)
		if _, err := rd.Seek(int64(blk.RowDataOffset), io.SeekStart); err != nil {
			fo.BlocksTrue = false
			continue
		}
		if _, err := io.ReadFull(rd, raw); err != nil {
			fo.BlocksTrue = false
			continue
		}
		if !blk.HasRowDataHash || crc32.Checksum(raw, castagnoli) != blk.RowDataHash {
			fo.BlocksTrue = false
		}
		rows, err := bs.ReadDataBlockRowData(rd, &blk)
		if err != nil {
			fo.BlocksTrue = false
			fo.HelpersOK = false
			continue
		}
		if len(rows) != blk.UncompressedSize {
			fo.BlocksTrue = false
		}
		n := 0
		sc := bs.NewBlockRowScanner(rows)
		for {
			_, ok, err := sc.Next()
			if err != nil {
				fo.BlocksTrue = false
				break
			}
			if !ok {
				break
			}
			n++
		}
		if n != blk.Rows {
			fo.BlocksTrue = false
		}
		if blk.Compression == "" && !x.legacy {
			// every block is written with an explicit compression type - unless the block was copied by a merge from
			// metadata that said "" (the legacy_meta dimension), which readers treat as uncompressed
			fo.BlocksTrue = false
		}
		if i < len(f.Metadata.DataBlocks) {
			m := f.Metadata.DataBlocks[i]
			if m.RowDataOffset != blk.RowDataOffset || m.Rows != blk.Rows || m.RowDataHash != blk.RowDataHash || m.PartitionID != blk.PartitionID {
				fo.BlocksTrue = false // the MetaStore's copy differs from the file's own footer
			}
		}
		if _, err := bs.ReadDataBlockBloomFilters(rd, blk); err != nil {
			fo.HelpersOK = false
		}
	}
}
