--------------------------- MODULE SearchMonitor ---------------------------
(***************************************************************************)
(* Judges observations of the REAL engine against the documented search    *)
(* semantics of Search.tla.  One observation per line (NDJSON): the        *)
(* abstract case (rows drawn from the catalogue, flush groups, tokenizer,  *)
(* minmax key set, query trees, merges) together with what the harness saw *)
(* the engine do: rows returned (as case row indices), rows returned after *)
(* the first result set was mutated, concurrent re-runs, the result before *)
(* merging, the stored block structure read back from the stores (rows,    *)
(* partition, ranges, recorded counts, real filter answers), query         *)
(* statistics and the DataStore I/O of the query, and layout facts         *)
(* recomputed from the files' bytes.  Every predicate below is evaluated   *)
(* for every observation; violations are collected and reported.           *)
(***************************************************************************)
EXTENDS SearchCatalog

CONSTANT ObsFile

Obs == ndJsonDeserialize(ObsFile)
N == Len(Obs)

VARIABLES l, viol
vars == << l, viol >>

Count(s, x) == Cardinality({ i \in 1..Len(s) : s[i] = x })
Range(s) == { s[i] : i \in 1..Len(s) }
SameBag(s, t) == Len(s) = Len(t) /\ \A x \in Range(s) \cup Range(t) : Count(s, x) = Count(t, x)
SubBag(s, t) == \A x \in Range(s) : Count(s, x) <= Count(t, x)

\* ---- the case ----------------------------------------------------------
Rows(o) == o.case.rows
NR(o) == Len(Rows(o))
MMIdx(o) == Range(o.case.mmidx)
Q(o) == o.case.q
Tok(o) == o.case.tok
Doc(o, i) == RowDoc(Rows(o)[i])
Matches(o, i) == RowMatches(Doc(o, i), Q(o), Tok(o))
\* a row's partition id exists only when a partition function is configured
EffRow(o, i) == [Rows(o)[i] EXCEPT !.part = IF o.case.part_on THEN @ ELSE 0]
RowSat(o, i) == RowSatisfiesPre(EffRow(o, i), Q(o).pre, MMIdx(o))

\* ---- the observed store --------------------------------------------------
NB(o) == Len(o.blocks)
Blk(o, b) == o.blocks[b]
Meta(o, b) == [part |-> Blk(o, b).part, keys |-> Range(Blk(o, b).keys), lo |-> Blk(o, b).lo, hi |-> Blk(o, b).hi]
Occ(o, b, i) == Count(Blk(o, b).rows, i)
Stored(o, i) == LET RECURSIVE S(_) S(b) == IF b = 0 THEN 0 ELSE Occ(o, b, i) + S(b - 1) IN S(NB(o))
SLower(o) == { b \in 1..NB(o) : EvalPreMeta(Meta(o, b), Q(o).pre, TRUE) }
SUpper(o) == { b \in 1..NB(o) : EvalPreMeta(Meta(o, b), Q(o).pre, FALSE) }
\* expected number of returned copies of row i when exactly the blocks S are scanned
FromBlocks(o, S, i) ==
  LET RECURSIVE F(_) F(b) == IF b = 0 THEN 0 ELSE (IF b \in S THEN Occ(o, b, i) ELSE 0) + F(b - 1) IN F(NB(o))

StoreIntact(o) == /\ \A b \in 1..NB(o) : Blk(o, b).alien = 0
                  /\ \A i \in 1..NR(o) : Stored(o, i) = Rows(o)[i].copies

\* the regex tree contains an unknown node: Query refuses it as a whole
RECURSIVE HasUnk(_)
HasUnk(e) == e.t = "unk" \/ \E i \in 1..Len(e.c) : HasUnk(e.c[i])

(***************************************************************************)
(* C01: no false negatives                                                 *)
(***************************************************************************)
C01_NoFalseNegative(o) ==
  \A i \in 1..NR(o) : (Matches(o, i) /\ RowSat(o, i)) => Count(o.res, i) >= Rows(o)[i].copies
\* the query did not fail (an unknown regex node makes Query refuse the query;
\* such a query matches nothing, so nothing is missed)
C01_QuerySucceeds(o) == o.err = "nil" \/ (o.err = "queryerr" /\ HasUnk(Q(o).regex))

(***************************************************************************)
(* C02: exact at row level, block-granular for prefilters                  *)
(***************************************************************************)
C02_OnlyMatching(o) == \A i \in Range(o.res) : i \in 1..NR(o) /\ Matches(o, i)
C02_AtMostStored(o) == \A i \in 1..NR(o) : Count(o.res, i) <= Rows(o)[i].copies
C02_ExactWithoutPrefilter(o) ==
  (~HasPrefilter(Q(o)) /\ o.err = "nil") =>
      \A i \in 1..NR(o) : Count(o.res, i) = (IF Matches(o, i) THEN Rows(o)[i].copies ELSE 0)
\* with a prefilter: the result is the matching rows of a set S of whole blocks,
\* SLower \subseteq S \subseteq SUpper
C02_BlockGranular(o) ==
  (HasPrefilter(Q(o)) /\ o.err = "nil" /\ StoreIntact(o)) =>
      \E S \in SUBSET (SUpper(o) \ SLower(o)) :
          \A i \in 1..NR(o) :
             Count(o.res, i) = (IF Matches(o, i) THEN FromBlocks(o, S \cup SLower(o), i) ELSE 0)

(***************************************************************************)
(* C03: faithful and independent                                           *)
(***************************************************************************)
C03_Faithful(o) == o.alien = 0
C03_IndependentOfMutation(o) == SameBag(o.res, o.res2)
\* appending to the arrays of returned rows (through their spare capacity) changed no returned row
C03_RowsShareNothing(o) == o.shared = 0
C03_ConcurrentAgree(o) == \A k \in 1..Len(o.conc) : SameBag(o.res, o.conc[k])

(***************************************************************************)
(* C11: merging preserves content and answers                              *)
(***************************************************************************)
C11_BagUnchanged(o) == o.case.merges > 0 => StoreIntact(o)
C11_AnswersPreserved(o) ==
  (o.has_pre /\ o.err = "nil" /\ o.pre_err = "nil") =>
      IF HasPrefilter(Q(o)) THEN SubBag(o.pre, o.res) ELSE SameBag(o.pre, o.res)
C11_MergeSucceeds(o) == o.case.merges > 0 => o.merge_err = "nil"
\* entry probes (cmd/search): where a filter over a stored row denies an entry that row carries, the one-leaf query asking
\* for exactly that entry was run on the real engine; it must return every intact stored row carrying the entry
C01_EntryProbesComplete(o) == o.probe_lost = 0
C11_EntryProbesAfterMerge(o) == o.case.merges > 0 => o.probe_lost = 0

(***************************************************************************)
(* C18 (and the structural half of C11): indexes cover their data          *)
(***************************************************************************)
RowKeys(o, i) == { k \in MMIdx(o) : RowHasKey(Rows(o)[i], k, MMIdx(o)) }
C18_PartitionIsRowsPartition(o) ==
  \A b \in 1..NB(o) : \A i \in Range(Blk(o, b).rows) : Blk(o, b).part = EffRow(o, i).part
C18_KeysExactlyProvided(o) ==
  \A b \in 1..NB(o) : Blk(o, b).rows # <<>> =>
      Range(Blk(o, b).keys) = UNION { RowKeys(o, i) : i \in Range(Blk(o, b).rows) }
C18_RangesCover(o) ==
  \A b \in 1..NB(o) : \A i \in Range(Blk(o, b).rows) : \A k \in RowKeys(o, i) :
      k \in Range(Blk(o, b).keys) /\ Blk(o, b).lo[k] <= Rows(o)[i].vals[k] /\ Rows(o)[i].vals[k] <= Blk(o, b).hi[k]
C18_BlockFiltersCover(o) == \A b \in 1..NB(o) : Blk(o, b).missb = 0
C18_FileFiltersCover(o) == \A b \in 1..NB(o) : Blk(o, b).missf = 0

\* C11's own statement of the two structural clauses, after a merge
C11_PartitionKept(o) == o.case.merges > 0 => C18_PartitionIsRowsPartition(o)
C11_RangesStillCover(o) == o.case.merges > 0 => C18_RangesCover(o)

(***************************************************************************)
(* C17: files describe themselves truthfully                               *)
(***************************************************************************)
BlockPaths(o, b) == UNION { Paths(Doc(o, i)) : i \in Range(Blk(o, b).rows) }
BlockTokens(o, b) == UNION { Tokens(Doc(o, i), Tok(o)) : i \in Range(Blk(o, b).rows) }
BlockFTs(o, b) == UNION { FieldTokens(Doc(o, i), Tok(o)) : i \in Range(Blk(o, b).rows) }
C17_EntryCountsMeasured(o) ==
  \A b \in 1..NB(o) : Blk(o, b).alien = 0 =>
      Blk(o, b).cnt = << Cardinality(BlockPaths(o, b)), Cardinality(BlockTokens(o, b)), Cardinality(BlockFTs(o, b)) >>
C17_RowCount(o) == \A b \in 1..NB(o) : Blk(o, b).alien = 0 => Blk(o, b).nrows = Len(Blk(o, b).rows)
FileBlocks(o, f) == { b \in 1..NB(o) : Blk(o, b).file = f }
C17_FileEntryCounts(o) ==
  \A f \in 1..Len(o.files) : (o.files[f].parse_ok /\ \A b \in FileBlocks(o, f) : Blk(o, b).alien = 0) =>
      o.files[f].file_cnt = << Cardinality(UNION { BlockPaths(o, b) : b \in FileBlocks(o, f) }),
                               Cardinality(UNION { BlockTokens(o, b) : b \in FileBlocks(o, f) }),
                               Cardinality(UNION { BlockFTs(o, b) : b \in FileBlocks(o, f) }) >>
\* layout: row data contiguous from 0 in block order, the filter region right
\* behind it, the sections tiling the region in block order
RECURSIVE Sum(_, _)
Sum(s, n) == IF n = 0 THEN 0 ELSE s[n] + Sum(s, n - 1)
LayoutOK(f) ==
  LET n == Len(f.offs) IN
  /\ f.parse_ok /\ n >= 1 /\ Len(f.sizes) = n /\ Len(f.foffs) = n /\ Len(f.fsizes) = n
  /\ \A i \in 1..n : f.offs[i] = Sum(f.sizes, i - 1)
  /\ f.region_off = Sum(f.sizes, n)
  /\ \A i \in 1..n : f.foffs[i] = f.region_off + Sum(f.fsizes, i - 1)
  /\ f.region_size = Sum(f.fsizes, n)
  /\ f.region_off + f.region_size <= f.size
C17_Layout(o) == \A f \in 1..Len(o.files) : LayoutOK(o.files[f])
C17_MetadataMatchesBytes(o) == \A f \in 1..Len(o.files) : o.files[f].blocks_true
C17_HelpersReturnWhatWasWritten(o) == \A f \in 1..Len(o.files) : o.files[f].helpers_ok

(***************************************************************************)
(* C23: statistics                                                         *)
(***************************************************************************)
Clean(o) == o.err = "nil"
C23_AtMostOncePerBlock(o) == o.stat_unknown = 0 /\ \A b \in 1..NB(o) : Blk(o, b).listed <= 1
\* per file: none of its blocks is listed, or exactly a set between the
\* blocks whose metadata satisfies the prefilter and those that may
C23_AllOrNoneOfAFile(o) ==
  Clean(o) => \A f \in 1..Len(o.files) :
     LET listed == { b \in FileBlocks(o, f) : Blk(o, b).listed >= 1 } IN
     listed = {} \/ ((SLower(o) \cap FileBlocks(o, f)) \subseteq listed /\ listed \subseteq SUpper(o))
C23_ReturnedRowsBlockProcessed(o) ==
  Clean(o) => \A i \in Range(o.res) : \E b \in 1..NB(o) :
       Occ(o, b, i) > 0 /\ Blk(o, b).listed >= 1 /\ ~Blk(o, b).skipped
C23_SkippedZero(o) == \A b \in 1..NB(o) : (Blk(o, b).listed >= 1 /\ Blk(o, b).skipped) => (Blk(o, b).rp = 0 /\ Blk(o, b).bp = 0)
C23_ProcessedWhole(o) ==
  Clean(o) => \A b \in 1..NB(o) : (Blk(o, b).listed >= 1 /\ ~Blk(o, b).skipped) =>
       (Blk(o, b).rp = Blk(o, b).nrows /\ Blk(o, b).tr = Blk(o, b).nrows /\ Blk(o, b).bp = Blk(o, b).usize)
SumOver(o, F(_), b) == LET RECURSIVE S(_) S(k) == IF k = 0 THEN 0 ELSE F(k) + S(k - 1) IN S(b)
C23_Totals(o) ==
  Clean(o) =>
    LET L(b) == IF Blk(o, b).listed >= 1 THEN 1 ELSE 0
        P(b) == IF Blk(o, b).listed >= 1 /\ ~Blk(o, b).skipped THEN 1 ELSE 0
        K(b) == IF Blk(o, b).listed >= 1 /\ Blk(o, b).skipped THEN 1 ELSE 0
        R(b) == IF Blk(o, b).listed >= 1 THEN Blk(o, b).rp ELSE 0
        Y(b) == IF Blk(o, b).listed >= 1 THEN Blk(o, b).bp ELSE 0
    IN /\ o.stat_blocks = SumOver(o, L, NB(o)) /\ o.stat_proc = SumOver(o, P, NB(o))
       /\ o.stat_skip = SumOver(o, K, NB(o)) /\ o.stat_rows = SumOver(o, R, NB(o))
       /\ o.stat_bytes = SumOver(o, Y, NB(o))
C23_RowsMatched(o) == Clean(o) => o.matched = Len(o.res)

(***************************************************************************)
(* C24: pruning is effective.  The real filters' answers for the leaves of *)
(* the prune expression (the bloom tree AND the regex tree's field guard)  *)
(* are bound in depth-first order; the specification evaluates the tree.   *)
(***************************************************************************)
RECURSIVE EvalWith(_, _, _)
\* returns <<value, next leaf index>>
EvalWith(e, ans, k) ==
  CASE e.t \in {"f", "t", "ft", "re"} -> << ans[k], k + 1 >>
    [] e.t \in {"nil", "nilcond"} -> << TRUE, k >>
    [] e.t \in {"and", "or"} ->
         LET RECURSIVE Fold(_, _, _)
             Fold(i, acc, kk) ==
               IF i > Len(e.c) THEN << acc, kk >>
               ELSE LET r == EvalWith(e.c[i], ans, kk) IN
                    Fold(i + 1, IF e.t = "and" THEN acc /\ r[1] ELSE acc \/ r[1], r[2])
         IN Fold(1, e.t = "and", k)
    [] OTHER -> << FALSE, k >>
\* (a block the store could not hand back under its own metadata has no recorded answers: nothing to judge here;
\*  C17 / C11 report it)
FiltersPass(o, ans) ==
  LET r1 == EvalWith(Q(o).bloom, ans, 1)
      r2 == EvalWith(Q(o).regex, ans, r1[2])
  IN r1[1] /\ r2[1]
NoConditions(o) == Q(o).bloom.t = "nil" /\ Q(o).regex.t = "nil"
Unreadable(o, b) == Blk(o, b).alien >= 1000
C24_NoOpenOfRuledOutFile(o) ==
  \A f \in 1..Len(o.files) : o.files[f].opened > 0 =>
      /\ \E b \in FileBlocks(o, f) : b \in SUpper(o)
      /\ NoConditions(o) \/ \E b \in FileBlocks(o, f) : Unreadable(o, b) \/ FiltersPass(o, Blk(o, b).fa)
C24_NoRowReadOfRuledOutBlock(o) ==
  \A b \in 1..NB(o) : Blk(o, b).rowread =>
      (b \in SUpper(o) /\ (NoConditions(o) \/ Unreadable(o, b) \/ FiltersPass(o, Blk(o, b).ba)))
\* the same when the query's first OpenFile failed: however the failure is handled, it opens no way around the filters
C24_NoRowReadOfRuledOutBlockAfterOpenFault(o) ==
  \A b \in 1..NB(o) : Blk(o, b).rowread_f =>
      (b \in SUpper(o) /\ (NoConditions(o) \/ Unreadable(o, b) \/ FiltersPass(o, Blk(o, b).ba)))
C24_NoRegionReadWithoutConditions(o) == NoConditions(o) => \A f \in 1..Len(o.files) : ~o.files[f].regionread
C24_ReadsInsideDeclaredExtents(o) == \A f \in 1..Len(o.files) : o.files[f].oob = 0

\* C21 (observed here as well): every handle the query opened was closed
C21_HandlesClosed(o) == \A f \in 1..Len(o.files) : o.files[f].opened = o.files[f].closed
\* C27
C27_Silent(o) == o.stdio = 0

Props(o) ==
  [ C01_NoFalseNegative |-> C01_NoFalseNegative(o), C01_QuerySucceeds |-> C01_QuerySucceeds(o),
    C02_OnlyMatching |-> C02_OnlyMatching(o), C02_AtMostStored |-> C02_AtMostStored(o),
    C02_ExactWithoutPrefilter |-> C02_ExactWithoutPrefilter(o), C02_BlockGranular |-> C02_BlockGranular(o),
    C01_EntryProbesComplete |-> C01_EntryProbesComplete(o), C11_EntryProbesAfterMerge |-> C11_EntryProbesAfterMerge(o),
    C03_Faithful |-> C03_Faithful(o), C03_IndependentOfMutation |-> C03_IndependentOfMutation(o), C03_RowsShareNothing |-> C03_RowsShareNothing(o),
    C03_ConcurrentAgree |-> C03_ConcurrentAgree(o),
    C11_BagUnchanged |-> C11_BagUnchanged(o), C11_AnswersPreserved |-> C11_AnswersPreserved(o),
    C11_MergeSucceeds |-> C11_MergeSucceeds(o),
    C11_PartitionKept |-> C11_PartitionKept(o), C11_RangesStillCover |-> C11_RangesStillCover(o),
    C17_EntryCountsMeasured |-> C17_EntryCountsMeasured(o), C17_RowCount |-> C17_RowCount(o),
    C17_FileEntryCounts |-> C17_FileEntryCounts(o), C17_Layout |-> C17_Layout(o),
    C17_MetadataMatchesBytes |-> C17_MetadataMatchesBytes(o),
    C17_HelpersReturnWhatWasWritten |-> C17_HelpersReturnWhatWasWritten(o),
    C18_PartitionIsRowsPartition |-> C18_PartitionIsRowsPartition(o), C18_KeysExactlyProvided |-> C18_KeysExactlyProvided(o),
    C18_RangesCover |-> C18_RangesCover(o), C18_BlockFiltersCover |-> C18_BlockFiltersCover(o),
    C18_FileFiltersCover |-> C18_FileFiltersCover(o),
    C23_AtMostOncePerBlock |-> C23_AtMostOncePerBlock(o), C23_AllOrNoneOfAFile |-> C23_AllOrNoneOfAFile(o),
    C23_ReturnedRowsBlockProcessed |-> C23_ReturnedRowsBlockProcessed(o), C23_SkippedZero |-> C23_SkippedZero(o),
    C23_ProcessedWhole |-> C23_ProcessedWhole(o), C23_Totals |-> C23_Totals(o), C23_RowsMatched |-> C23_RowsMatched(o),
    C24_NoOpenOfRuledOutFile |-> C24_NoOpenOfRuledOutFile(o), C24_NoRowReadOfRuledOutBlock |-> C24_NoRowReadOfRuledOutBlock(o),
    C24_NoRegionReadWithoutConditions |-> C24_NoRegionReadWithoutConditions(o),
    C24_NoRowReadOfRuledOutBlockAfterOpenFault |-> C24_NoRowReadOfRuledOutBlockAfterOpenFault(o),
    C24_ReadsInsideDeclaredExtents |-> C24_ReadsInsideDeclaredExtents(o),
    C21_HandlesClosed |-> C21_HandlesClosed(o), C27_Silent |-> C27_Silent(o) ]

\* non-triviality bookkeeping (evidence): which observations exercise what
Trivia(o) ==
  [ matching |-> Cardinality({ i \in 1..NR(o) : Matches(o, i) }),
    satisfying |-> Cardinality({ i \in 1..NR(o) : Matches(o, i) /\ RowSat(o, i) }),
    prefilter |-> HasPrefilter(Q(o)),
    pruned_blocks |-> Cardinality({ b \in 1..NB(o) : Blk(o, b).listed = 0 \/ Blk(o, b).skipped }),
    blocks |-> NB(o) ]

Init == l = 1 /\ viol = {}
Next == /\ l <= N
        /\ LET o == Obs[l]
               pr == Props(o)
           IN viol' = viol \cup { [p |-> n, id |-> o.id] : n \in { x \in DOMAIN pr : ~pr[x] } }
        /\ l' = l + 1
Spec == Init /\ [][Next]_vars

Report == (l = N + 1) => PrintT(<<"MONITOR-REPORT", ToJson([events |-> N, violations |-> viol])>>)
Stats == (l = N + 1) =>
  PrintT(<<"MONITOR-STATS", ToJson([
     nontrivial_c01 |-> Cardinality({ i \in 1..N : Trivia(Obs[i]).satisfying > 0 /\ Trivia(Obs[i]).pruned_blocks > 0 }),
     with_matches |-> Cardinality({ i \in 1..N : Trivia(Obs[i]).matching > 0 }),
     with_prefilter |-> Cardinality({ i \in 1..N : Trivia(Obs[i]).prefilter }),
     with_merges |-> Cardinality({ i \in 1..N : Obs[i].case.merges > 0 }),
     blocks |-> LET RECURSIVE S(_) S(i) == IF i = 0 THEN 0 ELSE Len(Obs[i].blocks) + S(i - 1) IN S(N) ])>>)
AllConsumed == TLCGet("stats").diameter = N + 1
=============================================================================
