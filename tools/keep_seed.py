#!/usr/bin/env python3
"""keep_seed.py <stage-dir> <Sxx-name> <property> <what> <needs> <result>  : files a confirmed seeded change under /verif/seeded."""
import json, os, shutil, sys
stage, name, prop, what, needs, result = sys.argv[1:7]
d = os.path.join(os.path.dirname(os.path.dirname(os.path.abspath(__file__))), "seeded", name)
os.makedirs(d, exist_ok=True)
shutil.copyfile(os.path.join(stage, "patch.diff"), os.path.join(d, "patch.diff"))
shutil.copyfile(os.path.join(stage, "demo_test.go"), os.path.join(d, "demo_test.go.txt"))
if os.path.exists(os.path.join(stage, "notes.md")):
    shutil.copyfile(os.path.join(stage, "notes.md"), os.path.join(d, "agent_notes.md"))
json.dump({"property": prop, "what": what, "needs_to_manifest": needs,
           "confirmed": "tools/confirm_seed.sh in a scratch worktree of /repo HEAD: patch applies and builds (with and without -tags verif), existing suite passes with it, demo test fails with it and passes without it",
           "checks_run": "tools/try_mutant.sh <patch> <property> (applies to /repo, runs bin/check --tier quick, reverts)",
           "result": result,
           "demo": "demo_test.go.txt (copy to the repository root as *_test.go to run; stored with a .txt suffix so no Go tool picks it up)"},
          open(os.path.join(d, "meta.json"), "w"), indent=1)
print("kept", d)
