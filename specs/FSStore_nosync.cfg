SPECIFICATION Spec
CONSTANTS
  Names = {"n1","n2","n3"}
  Writers = {"w1","w2"}
  MergeOn = TRUE
  MaxFaults = 0
  CrashOn = FALSE
  PowerLossOn = TRUE
  DirSyncOnRemove = FALSE
  Groups = 1
  GroupSize = 2
  TombSyncs = TRUE
  MaxIno = 6
INVARIANTS NoDuplicatesAfterMergeReturned

CHECK_DEADLOCK FALSE
