// Command silent runs operation histories that reach every diagnostic site of
// the engine (C27): each scenario runs twice - once with a capturing Logger,
// which tells which diagnostics the history provokes, and once with no Logger
// while file descriptors 1 and 2 are captured, where nothing may be written.
package main

import (
	"bytes"
	"context"
	"encoding/json"
	"errors"
	"flag"
	"fmt"
	"io"
	"iter"
	"log/slog"
	"os"
	"sort"
	"strings"
	"sync"
	"time"

	bs "github.com/danthegoodman1/bloomsearch"
	"verifharness/internal/h"
)

type capHandler struct {
	mu   *sync.Mutex
	msgs *[]string
}

func (c capHandler) Enabled(context.Context, slog.Level) bool { return true }
func (c capHandler) Handle(_ context.Context, r slog.Record) error {
	c.mu.Lock()
	*c.msgs = append(*c.msgs, r.Level.String()+": "+r.Message)
	c.mu.Unlock()
	return nil
}
func (c capHandler) WithAttrs([]slog.Attr) slog.Handler { return c }
func (c capHandler) WithGroup(string) slog.Handler      { return c }

type obsT struct {
	ID       int      `json:"id"`
	Scenario string   `json:"scenario"`
	Messages []string `json:"messages"` // distinct diagnostics the history provokes (capturing Logger)
	Stdio    int      `json:"stdio"`    // bytes written to fd 1/2 with no Logger
	Text     string   `json:"text"`
	Panic    string   `json:"panic"`
	Err      string   `json:"err"`
}

// failing / wedging store controller
type fctl struct {
	mu     sync.Mutex
	counts map[string]int
	fail   string // kind#n
	wedge  string
	wch    chan struct{}
}

func (c *fctl) Before(op *h.StoreOp) error {
	c.mu.Lock()
	c.counts[op.Kind]++
	key := fmt.Sprintf("%s#%d", op.Kind, c.counts[op.Kind])
	fail, wedge, ch := false, c.wedge == key, c.wch
	for _, f := range strings.Split(c.fail, ",") { // one or several positions
		if f == key {
			fail = true
		}
	}
	c.mu.Unlock()
	if wedge && ch != nil {
		select {
		case <-ch:
		case <-time.After(5 * time.Second):
		}
	}
	if fail {
		return h.ErrInjected
	}
	return nil
}
func (c *fctl) After(*h.StoreOp, error) {}

type env struct {
	logger *slog.Logger
	mem    *h.MemData
	meta   bs.MetaStore
	ctl    *fctl
	eng    *bs.BloomSearchEngine
}

func newEnv(logger *slog.Logger, tweak func(*bs.BloomSearchEngineConfig), meta bs.MetaStore) *env {
	e := &env{logger: logger, mem: h.NewMemData(), ctl: &fctl{counts: map[string]int{}}}
	if meta == nil {
		meta = bs.NewMemoryMetaStore()
	}
	e.meta = meta
	cfg := bs.DefaultBloomSearchEngineConfig()
	cfg.Logger = logger
	cfg.MaxBufferedTime = time.Hour
	cfg.PartitionFunc = func(row map[string]any) string { s, _ := row["p"].(string); return s }
	if tweak != nil {
		tweak(&cfg)
	}
	var err error
	e.eng, err = bs.NewBloomSearchEngine(cfg, &h.InstrMeta{Inner: meta, C: e.ctl}, &h.InstrData{Inner: e.mem, C: e.ctl})
	h.Must(err, "engine")
	return e
}

func rows(prefix string, n, parts int) []map[string]any {
	var out []map[string]any
	for i := 0; i < n; i++ {
		out = append(out, map[string]any{"id": fmt.Sprintf("%s%d", prefix, i), "p": fmt.Sprintf("p%d", i%parts), "level": "error", "msg": "hello world " + strings.Repeat("x", 20)})
	}
	return out
}

func (e *env) ingest(r []map[string]any, flush bool) error {
	done := make(chan error, 1)
	if err := e.eng.IngestRows(context.Background(), r, done); err != nil {
		return err
	}
	if flush {
		e.eng.Flush(context.Background())
	}
	select {
	case err := <-done:
		return err
	case <-time.After(5 * time.Second):
		return errors.New("no ack")
	}
}

func (e *env) stop(d time.Duration) error {
	ctx, cancel := context.WithTimeout(context.Background(), d)
	defer cancel()
	return e.eng.Stop(ctx)
}

func (e *env) drain(q *bs.Query) error {
	ctx, cancel := context.WithTimeout(context.Background(), 10*time.Second)
	defer cancel()
	res, err := e.eng.Query(ctx, q)
	if err != nil {
		return err
	}
	defer res.Close()
	for res.Next() {
	}
	return res.Err()
}

// stripMeta yields metadata with filters removed at the chosen level.
type stripMeta struct {
	bs.MetaStore
	mode string // file-all | file-field | file-token | file-fieldtoken | block-all | block-some
}

func (s stripMeta) GetMaybeFilesForQuery(ctx context.Context, p *bs.QueryPrefilter) iter.Seq2[bs.MaybeFile, error] {
	return func(yield func(bs.MaybeFile, error) bool) {
		for mf, err := range s.MetaStore.GetMaybeFilesForQuery(ctx, p) {
			if err == nil {
				md := mf.Metadata
				md.DataBlocks = append([]bs.DataBlockMetadata(nil), md.DataBlocks...)
				switch s.mode {
				case "file-all":
					md.BloomFilters = bs.BloomFilters{}
				case "file-field":
					md.BloomFilters.FieldBloomFilter = nil
				case "file-token":
					md.BloomFilters.TokenBloomFilter = nil
				case "file-fieldtoken":
					md.BloomFilters.FieldTokenBloomFilter = nil
				case "block-all":
					for i := range md.DataBlocks {
						md.DataBlocks[i].BloomFilterSize = 0
					}
				case "block-some":
					for i := range md.DataBlocks {
						if i%2 == 0 {
							md.DataBlocks[i].BloomFilterSize = 0
						}
					}
				}
				mf.Metadata = md
			}
			if !yield(mf, err) {
				return
			}
		}
	}
}

type scenario struct {
	name string
	run  func(logger *slog.Logger) error
}

var conds = []*bs.Query{
	bs.NewQuery().Field("level").Build(),
	bs.NewQuery().Token("error").Build(),
	bs.NewQuery().FieldToken("level", "error").Build(),
	bs.NewQuery().Match(bs.Or(bs.Field("nope"), bs.And(bs.Token("hello"), bs.FieldToken("msg", "world")))).Build(),
	bs.NewQuery().FieldRegex("msg", "wor").Build(),
}

func scenarios() []scenario {
	var out []scenario
	add := func(name string, run func(*slog.Logger) error) { out = append(out, scenario{name, run}) }
	for _, comp := range []bs.CompressionType{bs.CompressionNone, bs.CompressionSnappy, bs.CompressionZstd} {
		comp := comp
		add("ingest-flush-query-merge-stop/"+string(comp), func(l *slog.Logger) error {
			e := newEnv(l, func(c *bs.BloomSearchEngineConfig) { c.RowDataCompression = comp }, nil)
			e.eng.Start()
			e.eng.Start()
			for i := 0; i < 3; i++ {
				if err := e.ingest(rows(fmt.Sprintf("a%d-", i), 6, 2), true); err != nil {
					return err
				}
			}
			for _, q := range conds {
				if err := e.drain(q); err != nil {
					return err
				}
			}
			if _, err := e.eng.Merge(context.Background()); err != nil {
				return err
			}
			e.drain(conds[0])
			if err := e.stop(5 * time.Second); err != nil {
				return err
			}
			e.stop(time.Second)
			e.eng.IngestRows(context.Background(), rows("late", 1, 1), nil)
			e.eng.Flush(context.Background())
			return e.drain(conds[1])
		})
	}
	// every automatic flush trigger
	type trig struct {
		name  string
		tweak func(*bs.BloomSearchEngineConfig)
		n     int
	}
	for _, t := range []trig{
		{"partition-max-rows", func(c *bs.BloomSearchEngineConfig) { c.MaxRowGroupRows = 3 }, 7},
		{"partition-max-bytes", func(c *bs.BloomSearchEngineConfig) { c.MaxRowGroupBytes = 200 }, 7},
		{"buffer-max-rows", func(c *bs.BloomSearchEngineConfig) { c.MaxBufferedRows = 4 }, 9},
		{"buffer-max-bytes", func(c *bs.BloomSearchEngineConfig) { c.MaxBufferedBytes = 300 }, 9},
		{"buffer-max-time", func(c *bs.BloomSearchEngineConfig) { c.MaxBufferedTime = 60 * time.Millisecond }, 3},
	} {
		t := t
		add("auto-flush/"+t.name, func(l *slog.Logger) error {
			e := newEnv(l, t.tweak, nil)
			e.eng.Start()
			if t.name == "buffer-max-time" {
				// the age of the buffer is looked at when the next batch arrives (the ticker flushes without a diagnostic)
				e.eng.IngestRows(context.Background(), rows("t", 1, 1), make(chan error, 1))
				time.Sleep(75 * time.Millisecond)
				e.eng.IngestRows(context.Background(), rows("u", 1, 1), make(chan error, 1))
			} else {
				// without an explicit Flush only the trigger acknowledges; the tail may stay buffered
				done := make(chan error, 1)
				e.eng.IngestRows(context.Background(), rows("t", t.n, 2), done)
			}
			time.Sleep(250 * time.Millisecond)
			return e.stop(5 * time.Second)
		})
	}
	// store failures on the write path and unmarshalable rows
	for _, f := range []string{"create#1", "write#1", "write#3", "close#1", "update#1", "abort#1", "tombstone#1"} {
		f := f
		add("flush-failure/"+f, func(l *slog.Logger) error {
			e := newEnv(l, nil, nil)
			e.eng.Start()
			e.ctl.fail = f
			e.ingest(rows("f", 5, 2), true)
			e.ingest(rows("g", 5, 2), true)
			return e.stop(5 * time.Second)
		})
	}
	// two failures in a row: the store call fails and the clean-up that follows it fails too
	for _, f := range []string{"update#1,tombstone#1", "close#1,abort#1", "close#1,abort#1,tombstone#1", "write#2,abort#1", "create#1,create#2", "update#1,update#2,tombstone#2"} {
		f := f
		add("flush-double-failure/"+f, func(l *slog.Logger) error {
			e := newEnv(l, nil, nil)
			e.eng.Start()
			e.ctl.fail = f
			e.ingest(rows("f", 5, 2), true)
			e.ingest(rows("g", 5, 2), true)
			return e.stop(5 * time.Second)
		})
	}
	add("unmarshalable-row", func(l *slog.Logger) error {
		e := newEnv(l, nil, nil)
		e.eng.Start()
		e.ingest([]map[string]any{{"id": "ok"}, {"bad": make(chan int)}}, true)
		e.ingest(nil, true)
		return e.stop(5 * time.Second)
	})
	// Stop deadlines: flush worker wedged in a store call, more work queued
	for _, wkind := range []string{"create#1", "close#1", "update#1"} {
		wkind := wkind
		add("stop-deadline/wedged-"+wkind, func(l *slog.Logger) error {
			e := newEnv(l, func(c *bs.BloomSearchEngineConfig) { c.MaxBufferedRows = 2; c.IngestBufferSize = 2 }, nil)
			e.eng.Start()
			e.ctl.wedge, e.ctl.wch = wkind, make(chan struct{})
			for i := 0; i < 4; i++ {
				ctx, cancel := context.WithTimeout(context.Background(), 50*time.Millisecond)
				e.eng.IngestRows(ctx, rows(fmt.Sprintf("w%d-", i), 2, 1), make(chan error, 1))
				cancel()
			}
			err := e.stop(150 * time.Millisecond)
			close(e.ctl.wch)
			time.Sleep(100 * time.Millisecond)
			if err == nil {
				return nil
			}
			return nil
		})
	}
	add("stop-never-started", func(l *slog.Logger) error {
		e := newEnv(l, nil, nil)
		e.eng.IngestRows(context.Background(), rows("n", 2, 1), make(chan error, 1))
		return e.stop(time.Second)
	})
	// query failures, corruption and missing filters
	for _, f := range []string{"iter#1", "yield#2", "open#1", "open#2", "read#1", "read#2", "read#3"} {
		f := f
		add("query-failure/"+f, func(l *slog.Logger) error {
			e := newEnv(l, nil, nil)
			e.eng.Start()
			e.ingest(rows("q", 6, 2), true)
			e.ingest(rows("r", 6, 2), true)
			e.ctl.mu.Lock()
			e.ctl.counts = map[string]int{}
			e.ctl.fail = f
			e.ctl.mu.Unlock()
			for _, q := range conds {
				e.drain(q)
			}
			return e.stop(5 * time.Second)
		})
	}
	add("query-corrupt-file", func(l *slog.Logger) error {
		e := newEnv(l, nil, nil)
		e.eng.Start()
		e.ingest(rows("c", 6, 2), true)
		for _, ptr := range e.mem.Published() {
			data, _ := e.mem.Bytes(ptr)
			for _, pos := range []int{10, len(data) / 3, len(data) / 2} {
				cp := append([]byte(nil), data...)
				cp[pos] ^= 0xff
				e.mem.Replace(ptr, cp)
				for _, q := range conds {
					e.drain(q)
				}
			}
		}
		_, err := e.eng.Query(context.Background(), bs.NewQuery().FieldRegex("msg", "(").Build())
		if err == nil {
			return errors.New("invalid regex accepted")
		}
		return e.stop(5 * time.Second)
	})
	for _, mode := range []string{"file-all", "file-field", "file-token", "file-fieldtoken", "block-all", "block-some"} {
		mode := mode
		add("query-missing-filters/"+mode, func(l *slog.Logger) error {
			inner := bs.NewMemoryMetaStore()
			e := newEnv(l, nil, stripMeta{MetaStore: inner, mode: mode})
			e.eng.Start()
			if err := e.ingest(rows("m", 8, 4), true); err != nil {
				return err
			}
			for _, q := range conds {
				if err := e.drain(q); err != nil {
					return err
				}
			}
			return e.stop(5 * time.Second)
		})
	}
	// merge failures
	for _, f := range []string{"iter#1", "create#1", "open#1", "read#2", "write#2", "close#1", "update#1", "tombstone#1"} {
		f := f
		add("merge-failure/"+f, func(l *slog.Logger) error {
			e := newEnv(l, nil, nil)
			e.eng.Start()
			for i := 0; i < 3; i++ {
				e.ingest(rows(fmt.Sprintf("m%d-", i), 4, 1), true)
			}
			e.ctl.mu.Lock()
			e.ctl.counts = map[string]int{}
			e.ctl.fail = f
			e.ctl.mu.Unlock()
			e.eng.Merge(context.Background())
			e.eng.Merge(context.Background())
			return e.stop(5 * time.Second)
		})
	}
	for _, f := range []string{"update#1,tombstone#1", "update#1,tombstone#2", "close#1,abort#1", "write#2,abort#1,tombstone#1", "close#2,tombstone#1", "read#2,abort#1"} {
		f := f
		add("merge-double-failure/"+f, func(l *slog.Logger) error {
			e := newEnv(l, nil, nil)
			e.eng.Start()
			for i := 0; i < 4; i++ {
				e.ingest(rows(fmt.Sprintf("m%d-", i), 4, 2), true)
			}
			e.ctl.mu.Lock()
			e.ctl.counts = map[string]int{}
			e.ctl.fail = f
			e.ctl.mu.Unlock()
			e.eng.Merge(context.Background())
			e.eng.Merge(context.Background())
			return e.stop(5 * time.Second)
		})
	}
	// the filesystem store
	add("filesystem-store", func(l *slog.Logger) error {
		dir, err := os.MkdirTemp("", "verif-silent-")
		if err != nil {
			return err
		}
		defer os.RemoveAll(dir)
		st := bs.NewFileSystemDataStore(dir)
		cfg := bs.DefaultBloomSearchEngineConfig()
		cfg.Logger = l
		eng, err := bs.NewBloomSearchEngine(cfg, st, st)
		if err != nil {
			return err
		}
		eng.Start()
		for i := 0; i < 3; i++ {
			done := make(chan error, 1)
			eng.IngestRows(context.Background(), rows(fmt.Sprintf("fs%d-", i), 4, 1), done)
			eng.Flush(context.Background())
			<-done
		}
		os.WriteFile(dir+"/junk.dat", []byte("not a bloom file"), 0o644)
		os.WriteFile(dir+"/empty.dat", nil, 0o644)
		eng.Merge(context.Background())
		ctx, cancel := context.WithTimeout(context.Background(), 5*time.Second)
		defer cancel()
		res, err := eng.Query(ctx, conds[0])
		if err == nil {
			for res.Next() {
			}
			res.Close()
		}
		return eng.Stop(ctx)
	})
	return out
}

func main() {
	out := flag.String("out", "", "output directory")
	flag.Parse()
	if *out == "" {
		fmt.Fprintln(os.Stderr, "usage: silent -out DIR")
		os.Exit(2)
	}
	h.Must(os.MkdirAll(*out, 0o755), "mkdir")
	guard := h.CaptureStdio()
	f, err := os.Create(*out + "/obs.ndjson")
	h.Must(err, "create")
	enc := json.NewEncoder(f)
	// a default slog logger / log package writing to stderr is exactly what must not be reached; leave them at their defaults
	_ = io.Discard
	_ = bytes.MinRead
	for i, sc := range scenarios() {
		o := obsT{ID: i + 1, Scenario: sc.name, Messages: []string{}}
		func() {
			defer func() {
				if p := recover(); p != nil {
					o.Panic = fmt.Sprint(p)
				}
			}()
			var mu sync.Mutex
			var msgs []string
			if err := sc.run(slog.New(capHandler{mu: &mu, msgs: &msgs})); err != nil {
				o.Err = err.Error()
			}
			mu.Lock()
			seen := map[string]bool{}
			for _, m := range msgs {
				if !seen[m] {
					seen[m] = true
					o.Messages = append(o.Messages, m)
				}
			}
			mu.Unlock()
			sort.Strings(o.Messages)
			time.Sleep(20 * time.Millisecond)
			off := guard.Len()
			sc.run(nil)
			time.Sleep(30 * time.Millisecond)
			o.Stdio = guard.Len() - off
			o.Text = guard.Since(off)
			if len(o.Text) > 300 {
				o.Text = o.Text[:300]
			}
		}()
		h.Must(enc.Encode(o), "encode")
	}
	f.Close()
	guard.Restore()
	fmt.Println("silent: done")
}
