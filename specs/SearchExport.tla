---------------------------- MODULE SearchExport ----------------------------
EXTENDS SearchCatalog
VARIABLE x
Init == x = 0 /\ PrintT(<<"CATALOG", ToJson(Export)>>)
Next == FALSE /\ x' = x
=============================================================================
