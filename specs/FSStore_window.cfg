SPECIFICATION Spec
CONSTANTS
  Names = {"n1","n2","n3"}
  Writers = {"w1","w2"}
  MergeOn = TRUE
  MaxFaults = 0
  CrashOn = TRUE
  PowerLossOn = FALSE
  DirSyncOnRemove = TRUE
  Groups = 1
  GroupSize = 2
  TombSyncs = TRUE
  MaxIno = 6
INVARIANTS NoDuplicates

CHECK_DEADLOCK FALSE
